"""DEV-TIME experiment: every check must give the same verdict when the LOCAL variables of every function under symplyphysics/core and
symplyphysics/docs (every file of the package with RENAME_ALL=1) are renamed (`x` -> `x_rn`). Parameters, globals, attributes and names bound in nested scopes are left alone, so behaviour does not
change; a rule that recognises code by the spelling of a local name does."""
import ast, os, sys, importlib
if sys.version_info[:2] != (3, 12) and os.path.exists("/venv/bin/python"):
    os.execv("/venv/bin/python", ["/venv/bin/python", "-B"] + sys.argv)
sys.path.insert(0, '/verif')
sys.setrecursionlimit(10000)
from sa.core import Source, Run, AnalysisError, load_known
from sa.cli import PROPERTIES


def own_nodes(fn):
    """nodes of fn's own scope (nested function / lambda / class bodies excluded; comprehensions included - their targets are handled separately)"""
    todo = list(fn.body)
    while todo:
        n = todo.pop()
        yield n
        for c in ast.iter_child_nodes(n):
            if isinstance(c, (ast.FunctionDef, ast.AsyncFunctionDef, ast.Lambda, ast.ClassDef)):
                continue
            todo.append(c)


def bound_anywhere_below(fn):
    """names bound in scopes nested in fn (parameters, assignments, comprehension targets): not renamed, to keep closures right"""
    out = set()
    for n in ast.walk(fn):
        if n is fn:
            continue
        if isinstance(n, (ast.FunctionDef, ast.AsyncFunctionDef, ast.Lambda)):
            a = n.args
            out |= {x.arg for x in a.posonlyargs + a.args + a.kwonlyargs} | ({a.vararg.arg} if a.vararg else set()) | ({a.kwarg.arg} if a.kwarg else set())
            if not isinstance(n, ast.Lambda):
                out.add(n.name)
                out |= {x.id for b in n.body for x in ast.walk(b) if isinstance(x, ast.Name) and isinstance(x.ctx, ast.Store)}
        if isinstance(n, (ast.ListComp, ast.SetComp, ast.DictComp, ast.GeneratorExp)):
            out |= {x.id for g in n.generators for x in ast.walk(g.target) if isinstance(x, ast.Name)}
        if isinstance(n, ast.ClassDef):
            out.add(n.name)
    return out


def rename_function(fn):
    a = fn.args
    params = {x.arg for x in a.posonlyargs + a.args + a.kwonlyargs} | ({a.vararg.arg} if a.vararg else set()) | ({a.kwarg.arg} if a.kwarg else set())
    declared = {nm for n in own_nodes(fn) if isinstance(n, (ast.Global, ast.Nonlocal)) for nm in n.names}
    stores = {n.id for n in own_nodes(fn) if isinstance(n, ast.Name) and isinstance(n.ctx, ast.Store)}
    comp_targets = {x.id for n in own_nodes(fn) if isinstance(n, (ast.ListComp, ast.SetComp, ast.DictComp, ast.GeneratorExp)) for g in n.generators
                    for x in ast.walk(g.target) if isinstance(x, ast.Name)}
    local = stores - params - declared - comp_targets - bound_anywhere_below(fn)
    local = {x for x in local if not x.startswith("__")}
    if not local:
        return 0
    for n in ast.walk(fn):  # nested scopes read these names as closure variables: renamed there too (they do not bind them, see above)
        if isinstance(n, ast.Name) and n.id in local:
            n.id = n.id + "_rn"
        elif isinstance(n, ast.MatchAs) and n.name in local:
            n.name = n.name + "_rn"
        elif isinstance(n, ast.MatchStar) and n.name in local:
            n.name = n.name + "_rn"
        elif isinstance(n, ast.ExceptHandler) and n.name in local:
            n.name = n.name + "_rn"
    return len(local)


base = Source()
overlay = {}
renamed = 0
for rel, m in base.by_rel.items():
    if not (rel.startswith("symplyphysics/core/") or rel.startswith("symplyphysics/docs/") or os.environ.get("RENAME_ALL")):
        continue
    tree = ast.parse(ast.unparse(m.tree))
    # outermost functions first would rename closure variables twice: handle each function once, innermost last is fine because nested-bound names are excluded
    k = 0
    for fn in [n for n in ast.walk(tree) if isinstance(n, (ast.FunctionDef, ast.AsyncFunctionDef))]:
        k += rename_function(fn)
    if k:
        overlay[rel] = ast.unparse(tree) + "\n"
        compile(overlay[rel], rel, "exec")
        renamed += k
print(f"renamed {renamed} local variables in {len(overlay)} files")
src = Source(overlay=overlay)
known = {(k["property"], k["key"]) for k in load_known()["findings"]}
bad = 0
for pid in PROPERTIES:
    mod = importlib.import_module(f"sa.rules.{pid.lower()}")
    try:
        run = Run(pid, src)
        mod.check(run)
        new = [f for f in run.findings if (pid, f.key) not in known]
        print(pid, "findings:", len(new), "obligations:", sum(r["obligations"] for r in run.rules.values()))
        for f in new[:3]:
            print("   ", f.rule, f.file, f.message[:200])
        bad += len(new)
    except AnalysisError as e:
        print(pid, "ANALYSIS-ERROR", e)
        bad += 1
print("BAD" if bad else "OK: renaming every local variable changes no verdict")
