"""DEV-TIME cross-validation (dynamic, NOT a check): static unit table vs the real sympy objects."""
import sys; sys.path.insert(0, '/verif')
from sa.units import unit_table, dimension_table, Dim, BASE
from sympy.physics import units as u
from sympy.physics.units import Quantity, Dimension
from sympy.physics.units.systems.si import dimsys_SI, SI
T = unit_table(); D = dimension_table()
bad = 0; n = 0
for name in dir(u):
    obj = getattr(u, name)
    if isinstance(obj, Dimension):
        deps = dimsys_SI.get_dimensional_dependencies(obj)
        deps = {str(k.name): v for k, v in deps.items() if str(k.name) != 'angle'}
        st = D.get(name)
        n += 1
        if st is None:
            print('DIM missing', name, deps); continue
        if {k: int(v) if v == int(v) else v for k, v in st.v.items()} != {k: v for k, v in deps.items()}:
            print('DIM diff', name, st, deps); bad += 1
    elif isinstance(obj, Quantity):
        st = T.unit(name)
        n += 1
        if st is None:
            print('UNIT missing', name); bad += 1; continue
        sc, dm = st
        real_sc = complex(obj.scale_factor)
        real_dim = dimsys_SI.get_dimensional_dependencies(SI.get_quantity_dimension(obj))
        real_dim = {str(k.name): v for k, v in real_dim.items() if str(k.name) != 'angle'}
        if abs(complex(sc) - real_sc) > 1e-12 * abs(real_sc):
            print('SCALE diff', name, sc, real_sc); bad += 1
        if dm is None or {k: v for k, v in dm.v.items()} != real_dim:
            print('UDIM diff', name, dm, real_dim); bad += 1
print('checked', n, 'bad', bad)
