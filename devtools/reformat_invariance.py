"""DEV-TIME experiment: every check must give the same verdict when all sources are replaced by ast.unparse(ast.parse(text))
(formatting, comments, line numbers, quoting all change; behaviour does not)."""
import ast, os, sys, importlib
if sys.version_info[:2] != (3, 12) and os.path.exists("/venv/bin/python"):
    # the checks run under /venv/bin/python (3.12); ast.dump, on which the C19 replica digests rest, differs between interpreter versions
    os.execv("/venv/bin/python", ["/venv/bin/python", "-B"] + sys.argv)
sys.path.insert(0, '/verif')
sys.setrecursionlimit(10000)
from sa.core import Source, Run, REPO, AnalysisError, load_known
from sa.cli import PROPERTIES
base = Source()
overlay = {rel: ast.unparse(m.tree) + "\n" for rel, m in base.by_rel.items()}
src = Source(overlay=overlay)
known = {(k["property"], k["key"]) for k in load_known()["findings"]}
bad = 0
for pid in PROPERTIES:
    mod = importlib.import_module(f"sa.rules.{pid.lower()}")
    try:
        run = Run(pid, src)
        mod.check(run)
        new = [f for f in run.findings if (pid, f.key) not in known]
        print(pid, "findings:", len(new), "obligations:", sum(r["obligations"] for r in run.rules.values()))
        for f in new[:3]:
            print("   ", f.rule, f.file, f.message[:150])
        bad += len(new)
    except AnalysisError as e:
        print(pid, "ANALYSIS-ERROR", e); bad += 1
print("BAD" if bad else "OK: reformatting the whole tree changes no verdict")
