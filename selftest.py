#!/venv/bin/python
"""Checker self-test (NOT a registered check): every armed rule must fire on a one-instance mutant of the
real source and stay silent on behaviour-preserving rewrites and on the clean tree.

Mutants are given as (file, old text, new text) only for convenience; they are applied to an in-memory
overlay and analysed exactly like the real tree (AST/CFG/dataflow), nothing is executed.

usage: ./selftest.py [-j N] [-k substring] [--list]
"""
from __future__ import annotations

import argparse
import importlib
import multiprocessing
import os
import sys
import time

sys.path.insert(0, os.path.dirname(os.path.abspath(__file__)))

from sa.core import Source, Run, REPO, AnalysisError, load_known  # noqa: E402

sys.setrecursionlimit(10000)

MUTANTS: list[dict] = []


def mutant(pid: str, name: str, file: str, old: str, new: str, expect, count: int = 1, note: str = "", extra=None) -> None:
    """expect: rule id (or tuple of acceptable rule ids) that must report; 'SILENT' = no finding at all;
    'ERROR' = the analysis must refuse (exit 2)."""
    if pid in REMAP and expect not in ("SILENT", "ERROR"):
        exp = (expect, ) if isinstance(expect, str) else tuple(expect)
        expect = tuple(sorted({r for e in exp for r in REMAP[pid].get(e, (e, ))}))
    MUTANTS.append(dict(pid=pid, name=name, edits=[(file, old, new, count)] + list(extra or []), expect=expect, note=note))


# The collector rules of C05 and C06 were first shape rules S1 (children coverage), S2 (dispatch), S3 (refusals), S6 (homomorphism), S7 (factor use); they
# are now ONE evaluation of the collector on expression trees that reports S1 (wrong value or dimension) or S3 (wrong refusal / acceptance). A mutant
# written for an old rule id must be reported by the evaluation; which of the two ids it gets depends on the trees it breaks.
REMAP = {
    "C05": {"S1": ("S1", "S3"), "S2": ("S1", "S3"), "S3": ("S1", "S3"), "S6": ("S1", "S3"), "S7": ("S1", "S3"), "S4": ("S3", "S4")},
    "C06": {"S1": ("S1", "S3"), "S2": ("S1", "S3"), "S3": ("S1", "S3"), "S6": ("S1", "S3"), "S7": ("S1", "S3")},
}


def load_mutants() -> None:
    for f in sorted(os.listdir(os.path.join(os.path.dirname(os.path.abspath(__file__)), "selftests"))):
        if f.endswith(".py") and not f.startswith("_"):
            importlib.import_module(f"selftests.{f[:-3]}").register(mutant)


def run_one(m: dict) -> tuple[str, bool, str]:
    overlay = {}
    try:
        for file, old, new, count in m["edits"]:
            text = overlay.get(file)
            if text is None:
                if old == "" and count == 0 and not (REPO / file).exists():
                    overlay[file] = new  # a file that does not exist in the tree
                    continue
                text = (REPO / file).read_text()
            if text.count(old) != count:
                return m["name"], False, f"mutant does not apply: {text.count(old)} occurrence(s) of {old[:50]!r} in {file}, {count} expected"
            overlay[file] = text.replace(old, new)
        mod = importlib.import_module(f"sa.rules.{m['pid'].lower()}")
        try:
            run = Run(m["pid"], Source(overlay=overlay), "quick")
            mod.check(run)
        except AnalysisError as e:
            known = {(k["property"], k["key"]) for k in load_known().get("findings", [])}
            if not any((m["pid"], f.key) not in known for f in run.findings):  # same policy as sa.cli: findings outlive a later refusal
                if m["expect"] == "ERROR":
                    return m["name"], True, f"analysis refused: {e}"
                return m["name"], False, f"ANALYSIS-ERROR {e}"
        known = {(k["property"], k["key"]) for k in load_known().get("findings", [])}
        run.findings = [f for f in run.findings if (m["pid"], f.key) not in known]
        rules = sorted({f.rule for f in run.findings})
        exp = m["expect"]
        if exp == "SILENT":
            ok = not run.findings
        elif exp == "ERROR":
            ok = False
        else:
            exp = (exp, ) if isinstance(exp, str) else tuple(exp)
            ok = any(r in exp for r in rules)
        detail = "; ".join(f"{f.rule} {f.file}:{f.line} {f.message[:110]}" for f in run.findings[:3]) or "no finding"
        return m["name"], ok, f"expected {m['expect']}, got {rules or 'nothing'} :: {detail}"
    except Exception as e:  # pragma: no cover
        import traceback
        return m["name"], False, "crash: " + traceback.format_exc()[-400:]


def main() -> int:
    ap = argparse.ArgumentParser()
    ap.add_argument("-j", type=int, default=min(16, os.cpu_count() or 4))
    ap.add_argument("-k", default="")
    ap.add_argument("--list", action="store_true")
    ap.add_argument("-v", action="store_true")
    a = ap.parse_args()
    load_mutants()
    ms = [m for m in MUTANTS if a.k in m["name"] or a.k == m["pid"]]
    if a.list:
        for m in ms:
            print(m["pid"], m["name"], "->", m["expect"], m["note"])
        return 0
    t0 = time.time()
    with multiprocessing.Pool(a.j) as pool:
        res = pool.map(run_one, ms, chunksize=1)
    bad = 0
    for name, ok, detail in res:
        if not ok:
            bad += 1
        if a.v or not ok:
            print(("ok   " if ok else "FAIL ") + name + "  " + detail)
    print(f"selftest: {len(res) - bad}/{len(res)} mutants behave as expected in {time.time() - t0:.1f}s")
    return 1 if bad else 0


if __name__ == "__main__":
    sys.exit(main())
