S = "symplyphysics/core/symbols/symbols.py"
Q = "symplyphysics/core/symbols/quantities.py"
CS = "symplyphysics/core/coordinate_systems/coordinate_systems.py"
EV = "symplyphysics/core/experimental/vectors/__init__.py"
PC = "symplyphysics/docs/printer_code.py"
PL = "symplyphysics/docs/printer_latex.py"


def register(m):
    m("C09", "c09-name-from-display", S, '        obj = SymSymbol.__new__(cls, next_name("SYM"), **assumptions)',
      '        obj = SymSymbol.__new__(cls, display_symbol or next_name("SYM"), **assumptions)', "N1")
    m("C09", "c09-function-name-from-display", S, 'obj = UndefinedFunction.__new__(mcs, next_name("FUN"), **options)',
      'obj = UndefinedFunction.__new__(mcs, display_symbol, **options)', "N1")
    m("C09", "c09-quantity-constant-name", Q, '        name = next_name("QTY")', '        name = "QTY"', "N1")
    m("C09", "c09-coordsys-fixed-name", CS, 'self._coord_system = CoordSys3D(next_name("SYS"),', 'self._coord_system = CoordSys3D("SYS",', "N1")
    m("C09", "c09-vector-hash-by-name", EV, "        return (id(self),)", "        return (self.display_name,)", "N1")
    m("C09", "c09-indexed-always-reuse", S, "        if isinstance(name_or_symbol, SymSymbol):\n            obj = IndexedBase.__new__(cls, name_or_symbol, **assumptions)",
      "        if name_or_symbol is not None:\n            obj = IndexedBase.__new__(cls, name_or_symbol, **assumptions)", "N1")
    m("C09", "c09-next-name-no-counter", S, "    return name + str(next_id(name))", "    return name + str(next_id())", "N2")
    m("C09", "c09-prefix-collision", CS, 'next_name("C")', 'next_name("SYM1")', "N2")
    m("C09", "c09-clone-drops-dimension", S, "    return Symbol(\n        display_symbol,\n        source.dimension,", "    return Symbol(\n        display_symbol,\n        Dimension(S.One),", "N3")
    m("C09", "c09-clone-drops-latex", S, "    display_latex = display_latex or source.display_latex\n\n    display_symbol, display_latex = _process_subscript_and_names(display_symbol, display_latex,\n        subscript)\n\n    return Symbol(",
      "    display_latex = display_latex or display_symbol\n\n    display_symbol, display_latex = _process_subscript_and_names(display_symbol, display_latex,\n        subscript)\n\n    return Symbol(", "N3")
    m("C09", "c09-subscript-code-only", S, 'return f"{code_name}_{subscript}", f"{latex_name}_{{{subscript}}}"', 'return f"{code_name}_{subscript}", latex_name', "N3")
    m("C09", "c09-clone-function-assumptions-regression", S, ") -> Function:\n    assumptions = assumptions or source.assumptions0\n", ") -> Function:\n", "N3")
    m("C09", "c09-clone-indexed-no-assumptions", S, ") -> IndexedSymbol:\n    assumptions = assumptions or source.assumptions0\n", ") -> IndexedSymbol:\n", "N3")
    m("C09", "c09-code-printer-shows-name", PC, "        if isinstance(expr, DimensionSymbol):\n            return expr.display_name\n\n        return str(getattr(expr, \"name\"))",
      "        return str(getattr(expr, \"name\"))", "N4")
    m("C09", "c09-latex-printer-shows-name", PL, 'display_name = expr.display_latex if isinstance(expr, DimensionSymbol) else getattr(\n            expr, "name")',
      'display_name = getattr(\n            expr, "name")', "N4")
    m("C09", "c09-pretty-printer-shows-name", S, 'symb_name = e.display_name if isinstance(e, Symbol) else getattr(e, "name")', 'symb_name = getattr(e, "name")', "N4")
    m("C09", "c09-fstring-next-name-ok", S, "    return name + str(next_id(name))", '    return f"{name}{next_id(name)}"', "SILENT")


_o9 = register


def register(m):
    _o9(m)
    m("C09", "c09-symbol-new-cached", S, "class Symbol(DimensionSymbol, SymSymbol):  # type: ignore[misc]  # pylint: disable=too-many-ancestors\n\n    def __new__(cls,",
      "class Symbol(DimensionSymbol, SymSymbol):  # type: ignore[misc]  # pylint: disable=too-many-ancestors\n\n    @cacheit\n    def __new__(cls,", "N1",
      extra=[(S, "from .id_generator import next_id", "from .id_generator import next_id\nfrom sympy import cacheit", 1)])
    m("C09", "c09-eq-by-display-name", S, "    def _sympystr(self, p: Printer) -> str:\n        return str(p.doprint(self.display_name))",
      "    def _sympystr(self, p: Printer) -> str:\n        return str(p.doprint(self.display_name))\n\n    def __eq__(self, other: Any) -> bool:\n        return isinstance(other, DimensionSymbol) and self.display_name == other.display_name\n\n    def __hash__(self) -> int:\n        return hash(self.display_name)", "N1")
