SC = "symplyphysics/core/experimental/coordinate_systems/express_base_scalars.py"
VC = "symplyphysics/core/experimental/coordinate_systems/express_base_vectors.py"
CS = "symplyphysics/core/experimental/coordinate_systems/coordinate_systems.py"
CV = "symplyphysics/core/experimental/coordinate_systems/convert.py"


def register(m):
    m("C15", "c15-atan2-args-swapped", SC, "        phi: atan2(y, x),\n        z: z_,", "        phi: atan2(x, y),\n        z: z_,", "X1")
    m("C15", "c15-sph-theta-swapped", SC, "        theta: atan2(sqrt(x**2 + y**2), z),", "        theta: atan2(z, sqrt(x**2 + y**2)),", "X1")
    m("C15", "c15-cyl-in-sph-sin-cos", SC, "        rho: r * sin(theta),\n        phi: phi_,\n        z: r * cos(theta),", "        rho: r * cos(theta),\n        phi: phi_,\n        z: r * sin(theta),", "X1")
    m("C15", "c15-sph-in-cyl-r", SC, "        r: sqrt(rho**2 + z**2),", "        r: sqrt(rho**2 - z**2),", "X1")
    m("C15", "c15-cart-in-sph-missing-sin", SC, "        y: r * sin(theta) * sin(phi),", "        y: r * sin(phi),", ("X1", "X2", "X3"))
    m("C15", "c15-equivalent-acos-ok", SC, "        theta: atan2(sqrt(x**2 + y**2), z),", "        theta: acos(z / sqrt(x**2 + y**2 + z**2)),", "SILENT",
      extra=[(SC, "from sympy import Expr, atan2, cos, sin, sqrt, Symbol as SymSymbol", "from sympy import Expr, acos, atan2, cos, sin, sqrt, Symbol as SymSymbol", 1)])
    m("C15", "c15-basis-sign", VC, "        i: e_rho * cos(phi) - e_phi * sin(phi),", "        i: e_rho * cos(phi) + e_phi * sin(phi),", "X2")
    m("C15", "c15-basis-not-normalised", VC, "        e_rho: (i * x + j * y) / rho,\n        e_phi: (-i * y + j * x) / rho,\n        e_z: k,\n    }", "        e_rho: (i * x + j * y),\n        e_phi: (-i * y + j * x) / rho,\n        e_z: k,\n    }", "X2")
    m("C15", "c15-sph-theta-frame", VC, "        e_theta: (e_rho * z - e_z * rho) / r,", "        e_theta: (e_rho * rho - e_z * z) / r,", "X2")
    m("C15", "c15-lame-sph-phi", CS, "        h_phi = r * sin(theta)", "        h_phi = r * cos(theta)", ("X3", "X2"))
    m("C15", "c15-lame-cyl", CS, "        return S.One, self.rho, S.One", "        return S.One, S.One, S.One", ("X3", "X2"))
    m("C15", "c15-convert-point-direction", CV, "    conversion = express_base_scalars(new_system, point.system)", "    conversion = express_base_scalars(point.system, new_system)", "X4")
    m("C15", "c15-convert-vector-no-coordinate-substitution", CV, "        old_vector: new_vectors.subs(new_point.coordinates, simultaneous=True)\n", "        old_vector: new_vectors\n", "X4")
    m("C15", "c15-fallthrough-no-raise", SC, "    if old_type is not new_type:\n        raise TypeError(\n            f\"Conversion between {old_type.__name__} and {new_type.__name__} is not supported.\")\n", "", "X5")
