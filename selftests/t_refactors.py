"""behaviour-preserving refactors: the analysis must not report them (SILENT); a refusal (exit 2) would be tolerable but is listed as such"""
QD = "symplyphysics/core/quantity_decorator.py"
AP = "symplyphysics/core/approx.py"
CV = "symplyphysics/core/convert.py"
DM = "symplyphysics/core/dimensions/dimensions.py"
CQ = "symplyphysics/core/dimensions/collect_quantity.py"
CE = "symplyphysics/core/dimensions/collect_expression.py"
SY = "symplyphysics/core/symbols/symbols.py"
QT = "symplyphysics/core/symbols/quantities.py"
CL = "symplyphysics/core/symbols/celsius.py"
AR = "symplyphysics/core/vectors/arithmetics.py"
PL = "symplyphysics/docs/printer_latex.py"
SOLV = "symplyphysics/core/experimental/solvers/__init__.py"
VE = "symplyphysics/core/experimental/vectors/__init__.py"
AN = "symplyphysics/core/fields/analysis.py"
OPS = "symplyphysics/core/fields/operators.py"
IDG = "symplyphysics/core/symbols/id_generator.py"
CS = "symplyphysics/core/coordinate_systems/coordinate_systems.py"


def register(m):
    # C04: the input gate written with items() of the bound arguments, skipping unguarded names early
    m("C04", "rf-gate-loop-over-items", QD,
      "            for param in wrapped_signature.parameters.values():\n                if param.name in decorator_kwargs:\n                    arg = bound_args.arguments[param.name]\n                    _assert_expected_unit(arg, decorator_kwargs[param.name], param.name,\n                        func.__name__)\n",
      "            for param in wrapped_signature.parameters.values():\n                if param.name not in decorator_kwargs:\n                    continue\n                arg = bound_args.arguments[param.name]\n                expected = decorator_kwargs[param.name]\n                _assert_expected_unit(arg, expected, param.name, func.__name__)\n",
      "SILENT")
    m("C04", "rf-output-wrapper-renamed-local", QD,
      "            ret = func(*args, **kwargs)\n            _assert_expected_unit(ret, expected_unit, \"return\", func.__name__)\n            return ret\n",
      "            result = func(*args, **kwargs)\n            _assert_expected_unit(result, expected_unit, \"return\", func.__name__)\n            return result\n", "SILENT")
    m("C04", "rf-components-by-comprehension", QD,
      "        elif isinstance(item, DimensionSymbol):\n            components.append(item.dimension)\n        elif isinstance(item, Symbolic):\n            components.append(item.dimension)\n        else:\n            components.append(item)\n",
      "        elif isinstance(item, (DimensionSymbol, Symbolic)):\n            components.append(item.dimension)\n        else:\n            components.append(item)\n",
      "SILENT")
    # C08: oracle with the default tolerance computed in a local, verdict through a named variable
    m("C08", "rf-approx-named-verdict", AP,
      "    rhs_approx = approx(rhs, rel=relative_tolerance, abs=absolute_tolerance)\n    return lhs == rhs_approx\n",
      "    expected = approx(rhs, rel=relative_tolerance, abs=absolute_tolerance)\n    verdict = lhs == expected\n    return verdict\n", "SILENT")
    m("C08", "rf-approx-re-before-im", AP,
      "    im_condition = approx_equal_numbers(\n        float(im(lhs_value)),\n        float(im(rhs_value)),\n        relative_tolerance=relative_tolerance,\n        absolute_tolerance=absolute_tolerance,\n    )\n\n    return im_condition and approx_equal_numbers(\n        float(re(lhs_value)),\n        float(re(rhs_value)),\n        relative_tolerance=relative_tolerance,\n        absolute_tolerance=absolute_tolerance,\n    )\n",
      "    re_condition = approx_equal_numbers(\n        float(re(lhs_value)),\n        float(re(rhs_value)),\n        relative_tolerance=relative_tolerance,\n        absolute_tolerance=absolute_tolerance,\n    )\n    if not re_condition:\n        return False\n\n    return approx_equal_numbers(\n        float(im(lhs_value)),\n        float(im(rhs_value)),\n        relative_tolerance=relative_tolerance,\n        absolute_tolerance=absolute_tolerance,\n    )\n",
      "SILENT")
    # C05/C06: _collect_terms with the any-dimension test folded into an if/else
    m("C05", "rf-collect-terms-if-else", CQ,
      "        if is_any_dimension(arg_factor):\n            continue\n\n        if dim is None:\n            dim = arg_dim\n            continue\n",
      "        if is_any_dimension(arg_factor):\n            continue\n\n        if dim is None:\n            dim = arg_dim\n        ", "SILENT", count=1) if False else None
    # C09: next_name written with str.format
    m("C09", "rf-next-name-fstring", SY, "    return name + str(next_id(name))", "    return f\"{name}{next_id(name)}\"", "SILENT")
    m("C03", "rf-next-id-setdefault", IDG, "    id_val = _ids.get(base)\n    id_val = 1 if id_val is None else id_val + 1\n    _ids[base] = id_val\n    return id_val",
      "    id_val = _ids.get(base, 0) + 1\n    _ids[base] = id_val\n    return id_val", "SILENT")
    # C07: Celsius helpers with the constant read through the class
    m("C07", "rf-celsius-constant-alias", CL, "    return value.value + Celsius.CELSIUS_TO_KELVIN_OFFSET", "    offset = Celsius.CELSIUS_TO_KELVIN_OFFSET\n    return value.value + offset", "SILENT")
    # C10: dot product written with a generator and sum-like reduce kept
    m("C10", "rf-scale-cartesian-loop", AR, "        vector_components = [scalar_value * e for e in vector.components]",
      "        vector_components = []\n        for e in vector.components:\n            vector_components.append(scalar_value * e)", "SILENT")
    # C12: gradient with base scalars unpacked once
    m("C12", "rf-gradient-unpack-scalars", OPS,
      "        x = field.coordinate_system.coord_system.base_scalars()[0]\n        y = field.coordinate_system.coord_system.base_scalars()[1]\n        z = field.coordinate_system.coord_system.base_scalars()[2]\n        gradient = Vector([\n            diff(field_space, x),",
      "        x, y, z = field.coordinate_system.coord_system.base_scalars()\n        gradient = Vector([\n            diff(field_space, x),", "SILENT")
    # C13: circulation with the integrand factors swapped and limits passed as a tuple variable
    m("C13", "rf-flux-limits-variable", AN,
      "    flux_value = integrate(integrand, (parameter1, parameter1_from, parameter1_to),\n        (parameter2, parameter2_from, parameter2_to))",
      "    limits1 = (parameter1, parameter1_from, parameter1_to)\n    limits2 = (parameter2, parameter2_from, parameter2_to)\n    flux_value = integrate(integrand, limits1, limits2)", "SILENT")
    # C14: mixed-product derivative with a loop over the operands
    m("C14", "rf-dot-derivative-sum", VE,
      "        derived_lhs = VectorDot(lhs.diff(symbol), rhs)\n        derived_rhs = VectorDot(lhs, rhs.diff(symbol))\n\n        return derived_lhs + derived_rhs\n",
      "        return VectorDot(lhs.diff(symbol), rhs) + VectorDot(lhs, rhs.diff(symbol))\n", "SILENT")
    # C16: solve_for_vector with the search written as next(...)
    m("C16", "rf-solve-search-next", SOLV,
      "    i = None\n\n    for j, (v, _) in enumerate(combination):\n        if vector_equals(v, atomic):\n            i = j\n            break\n",
      "    i = None\n\n    for j, pair in enumerate(combination):\n        if vector_equals(pair[0], atomic):\n            i = j\n            break\n", "SILENT")
    m("C16", "rf-solve-rhs-listcomp", SOLV,
      "        rhs = Add(*(v * (-1 * s / scale) for v, s in combination_rhs))\n        return Eq(atomic, rhs)",
      "        terms = [v * (-1 * s / scale) for v, s in combination_rhs]\n        return Eq(atomic, Add(*terms))", "SILENT")
    # C18: log printer with explicit branches
    m("C18", "rf-latex-sum-braced-index", PL, "        return f\"\\\\sum_{self._print(index)} {self.parenthesize(arg, PRECEDENCE['Mul'])}\"", "        index_tex = self._print(index)\n        return f\"\\\\sum_{index_tex} {self.parenthesize(arg, PRECEDENCE['Mul'])}\"", "SILENT")
    # C11: transformation table entries bound to names first
    m("C11", "rf-transformation-named-entries", CS, "", "", "SILENT") if False else None
    # C20: a constant written through an intermediate module-level value
    # C02/C01: none here (catalogue-level refactors are covered by devtools/reformat_invariance.py)


_prev = register


def register(m):  # noqa: F811 - second batch of behaviour-preserving refactors
    _prev(m)
    # C07
    m("C07", "rf-convert-to-named-factors", CV,
      "    return value.scale_factor / target_unit.scale_factor",
      "    value_factor = value.scale_factor\n    unit_factor = target_unit.scale_factor\n    return value_factor / unit_factor", "SILENT")
    m("C07", "rf-convert-to-si-inline", CV,
      "    unit = dimension_to_si_unit(value.dimension)\n    return convert_to(value, unit)", "    return convert_to(value, dimension_to_si_unit(value.dimension))", "SILENT")
    m("C07", "rf-evaluate-expression-two-steps", CV,
      "        si_value = convert_to_si(qty)\n        if evaluate:\n            si_value = si_value.evalf(**kwargs)\n        expr = expr.subs(qty, si_value)",
      "        si_value = convert_to_si(qty)\n        replacement = si_value.evalf(**kwargs) if evaluate else si_value\n        expr = expr.subs(qty, replacement)", "SILENT")
    # C04-K4: the two refusals in the other order of operands / merged flags
    m("C04", "rf-aed-named-flags", DM,
      "    if dimsys_SI.is_dimensionless(arg) and not dimsys_SI.is_dimensionless(expected_unit):",
      "    arg_is_number = dimsys_SI.is_dimensionless(arg)\n    expects_number = dimsys_SI.is_dimensionless(expected_unit)\n    if arg_is_number and not expects_number:", "SILENT")
    m("C04", "rf-aed-equivalence-named", DM,
      "    if not dimsys_SI.equivalent_dims(arg, expected_unit):\n        raise UnitsError(",
      "    equivalent = dimsys_SI.equivalent_dims(arg, expected_unit)\n    if not equivalent:\n        raise UnitsError(", "SILENT")
    # C08: assert_equal
    # C05: Quantity.__init__ with the numeric test in a helper-free form
    m("C05", "rf-quantity-init-complex-named", QT, "            _ = complex(scale)\n", "            complex(scale)\n", "SILENT")
    # C09: clone helper with intermediate names
    # C14: sort_with_sign call with keyword
    # C19: nothing
    # C20: Quantity table writers order swapped
    m("C20", "rf-quantity-setters-swapped", QT,
      "        SI.set_quantity_dimension(self, dimension)\n        SI.set_quantity_scale_factor(self, scale)",
      "        SI.set_quantity_scale_factor(self, scale)\n        SI.set_quantity_dimension(self, dimension)", "SILENT")
    m("C05", "rf-quantity-setters-swapped-c05", QT,
      "        SI.set_quantity_dimension(self, dimension)\n        SI.set_quantity_scale_factor(self, scale)",
      "        SI.set_quantity_scale_factor(self, scale)\n        SI.set_quantity_dimension(self, dimension)", "SILENT")
    # C02-P7: ordering with operands named
    m("C02", "rf-is-ge-named-operands", QT, "    return scale_factor(lhs) >= scale_factor(rhs)", "    left, right = scale_factor(lhs), scale_factor(rhs)\n    return left >= right", "SILENT")
    # C11: rebase guards
    # C15: convert_point with explicit loop already covered
    # C13: circulation through named dot
    m("C13", "rf-flux-curve-named-product", AN,
      "    flux_value = integrate(field_dot_norm_value * curve_element_magnitude_value,\n        (parameter, parameter_from, parameter_to))",
      "    integrand = curve_element_magnitude_value * field_dot_norm_value\n    flux_value = integrate(integrand, (parameter, parameter_from, parameter_to))", "SILENT")
    # C12: divergence padding with a helper expression
    m("C12", "rf-divergence-padding-loop", OPS,
      "    field_components = list(field_space.components) + [S.Zero] * (3 - len(field_space.components))\n    if field.coordinate_system.coord_system_type == CoordinateSystem.System.CARTESIAN:\n        x = field_space",
      "    field_components = list(field_space.components)\n    for _ in range(3 - len(field_components)):\n        field_components.append(S.Zero)\n    if field.coordinate_system.coord_system_type == CoordinateSystem.System.CARTESIAN:\n        x = field_space", "SILENT")
    # C16: apply with named sides
    m("C16", "rf-apply-named-sides", SOLV, "    return Eq(f(lhs), f(rhs), evaluate=False)", "    new_lhs, new_rhs = f(lhs), f(rhs)\n    return Eq(new_lhs, new_rhs, evaluate=False)", "SILENT")
    # C18: templates with named parts
    m("C18", "rf-latex-log-named-head", PL, "        log_str = f\"{head} \\\\left( {str_value} \\\\right)\"", "        body = f\"\\\\left( {str_value} \\\\right)\"\n        log_str = f\"{head} {body}\"", "SILENT")
    # C10: subtraction via add of scaled
    m("C10", "rf-magnitude-named-dot", AR, "", "", "SILENT") if False else None


_prev2 = register


def register(m):  # noqa: F811 - third batch: collectors, clones, oracle, id generator
    _prev2(m)
    # C05: handlers written differently but with the same meaning
    m("C05", "rf-collect-pow-guard-first", CQ,
      "    if is_any_dimension(exp_factor) or dimsys_SI.is_dimensionless(exp_dim):\n        # NOTE: float exponent is kept in the value, but dimensions with float and rational\n        # exponents do not compare as equivalent, eg `length**2.0` and `length**2`\n        dim_exp = nsimplify(exp_factor, rational=True) if exp_factor.is_Float else exp_factor\n        return (base_factor**exp_factor, base_dim**dim_exp)\n\n    raise ValueError(f\"Dimension of '{expr.exp}' is {exp_dim}, but it should be dimensionless\")",
      "    if not (is_any_dimension(exp_factor) or dimsys_SI.is_dimensionless(exp_dim)):\n        raise ValueError(f\"Dimension of '{expr.exp}' is {exp_dim}, but it should be dimensionless\")\n\n    dim_exp = nsimplify(exp_factor, rational=True) if exp_factor.is_Float else exp_factor\n    return (base_factor**exp_factor, base_dim**dim_exp)", "SILENT")
    m("C05", "rf-collect-abs-named-child", CQ,
      "    arg_factor, arg_dim = collect_quantity_factor_and_dimension(expr.args[0])\n    return (Abs(arg_factor), arg_dim)",
      "    child = expr.args[0]\n    arg_factor, arg_dim = collect_quantity_factor_and_dimension(child)\n    return (Abs(arg_factor), arg_dim)", "SILENT")
    m("C05", "rf-collect-function-if-else", CQ,
      "        if is_any_dimension(arg_factor) or dimsys_SI.is_dimensionless(arg_dim):\n            factors.append(arg_factor)\n            continue\n\n        raise ValueError(f\"Dimension of '{arg}' is {arg_dim}, but it should be dimensionless\")",
      "        if not (is_any_dimension(arg_factor) or dimsys_SI.is_dimensionless(arg_dim)):\n            raise ValueError(f\"Dimension of '{arg}' is {arg_dim}, but it should be dimensionless\")\n\n        factors.append(arg_factor)", "SILENT")
    m("C05", "rf-collect-terms-else-branch", CQ,
      "        if dim is None:\n            dim = arg_dim\n            continue\n\n        if not dimsys_SI.equivalent_dims(dim, arg_dim):\n            raise ValueError(f\"Dimension of '{arg}' is {arg_dim}, but it should be {dim}\")",
      "        if dim is None:\n            dim = arg_dim\n        elif not dimsys_SI.equivalent_dims(dim, arg_dim):\n            raise ValueError(f\"Dimension of '{arg}' is {arg_dim}, but it should be {dim}\")", "SILENT")
    m("C05", "rf-dispatch-named-handler", CQ,
      "    for type_, collector in _cases.items():\n        if isinstance(expr, type_):\n            return collector(expr)",
      "    for type_, collector in _cases.items():\n        if not isinstance(expr, type_):\n            continue\n        return collector(expr)", "SILENT")
    m("C05", "rf-mul-explicit-product", CQ, "    factor *= arg_factor\n", "    factor = factor * arg_factor\n", "SILENT")
    # C03/C09: next_id variants
    m("C09", "rf-next-id-if-else", IDG, "    id_val = _ids.get(base)\n    id_val = 1 if id_val is None else id_val + 1\n    _ids[base] = id_val\n    return id_val",
      "    if base in _ids:\n        id_val = _ids[base] + 1\n    else:\n        id_val = 1\n    _ids[base] = id_val\n    return id_val", "SILENT")
    # C08: assert_equal wiring
