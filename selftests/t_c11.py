CS = "symplyphysics/core/coordinate_systems/coordinate_systems.py"
AR = "symplyphysics/core/vectors/arithmetics.py"
SF = "symplyphysics/core/fields/scalar_field.py"
VF = "symplyphysics/core/fields/vector_field.py"
VV = "symplyphysics/core/vectors/vectors.py"


def register(m):
    m("C11", "c11-atan2-swapped", CS, "self.System.CYLINDRICAL: (sqrt(x**2 + y**2), atan2(y, x), z),", "self.System.CYLINDRICAL: (sqrt(x**2 + y**2), atan2(x, y), z),", "T1")
    m("C11", "c11-cyl-sin-cos-swapped", CS, "self.System.CARTESIAN: (r * cos(theta), r * sin(theta), z),", "self.System.CARTESIAN: (r * sin(theta), r * cos(theta), z),", ("T1", "T2", "T6"))
    m("C11", "c11-sph-z-sin", CS, "r * cos(phi)),", "r * sin(phi)),", ("T1", "T2", "T6"))
    m("C11", "c11-sph-acos-argument", CS, "acos(z / sqrt(x**2 + y**2 + z**2))),", "acos(z / sqrt(x**2 + y**2))),", "T1")
    m("C11", "c11-equivalent-table-ok", CS, "self.System.CYLINDRICAL: (sqrt(x**2 + y**2), atan2(y, x), z),", "self.System.CYLINDRICAL: (sqrt(y**2 + x**2), atan2(2 * y, 2 * x), z),", "SILENT")
    m("C11", "c11-direct-cyl-sph", CS, "                self.System.CYLINDRICAL: (r, theta, z)\n", "                self.System.CYLINDRICAL: (r, theta, z),\n                self.System.SPHERICAL: (sqrt(r**2 + z**2), theta, atan2(r, z)),\n", "T3")
    m("C11", "c11-fallthrough-returns", CS, "        raise ValueError(\n            f\"Transformation is not supported: from {coord_name_from} to {coord_name_to}\")", "        return (0, 0, 0)", "T3")
    m("C11", "c11-cyl-dot-plus", AR, "        return r1 * r2 * cos(theta1 - theta2) + z1 * z2", "        return r1 * r2 * cos(theta1 + theta2) + z1 * z2", "T2")
    m("C11", "c11-sph-dot-swapped-angles", AR, "return r1 * r2 * (sin(phi1) * sin(phi2) * cos(theta1 - theta2) + cos(phi1) * cos(phi2))", "return r1 * r2 * (sin(theta1) * sin(theta2) * cos(phi1 - phi2) + cos(theta1) * cos(theta2))", "T2")
    m("C11", "c11-cyl-scale-forgets-z", AR, "        if vector_size > 2:\n            vector_components[2] = vector_components[2] * scalar_value\n", "", "T2")
    m("C11", "c11-sph-scale-angles", AR, "        if len(vector_components) > 0:\n            vector_components[0] = vector_components[0] * scalar_value\n        return Vector(vector_components, vector.coordinate_system)\n    # never",
      "        vector_components = [c * scalar_value for c in vector_components]\n        return Vector(vector_components, vector.coordinate_system)\n    # never", "T2")
    m("C11", "c11-sphere-point-vs-cyl", SF, "        if (isinstance(point_, SpherePoint) and\n                self._coordinate_system.coord_system_type != CoordinateSystem.System.SPHERICAL):",
      "        if (isinstance(point_, SpherePoint) and\n                self._coordinate_system.coord_system_type != CoordinateSystem.System.CYLINDRICAL):", "T4")
    m("C11", "c11-vector-field-no-cyl-check", VF, "        if isinstance(\n                point_, CylinderPoint\n        ) and self._coordinate_system.coord_system_type != CoordinateSystem.System.CYLINDRICAL:\n            raise ValueError(\n                f\"Unsupported coordinate system for CylinderPoint: {self._coordinate_system}\")\n", "", "T4")
    m("C11", "c11-rebase-two-scalars", VV, "for i, scalar in enumerate(self.coordinate_system.coord_system.base_scalars())\n", "for i, scalar in enumerate(self.coordinate_system.coord_system.base_scalars()[:2])\n", "T5")
    m("C11", "c11-field-rebase-direction", SF, "                coordinate_system.transformation_to_system(\n                self.coordinate_system.coord_system_type))", "                self.coordinate_system.transformation_to_system(\n                coordinate_system.coord_system_type))", "T5")
