LAW = "symplyphysics/laws/dynamics/acceleration_is_force_over_mass.py"
KE = "symplyphysics/laws/dynamics/kinetic_energy_from_mass_and_speed.py"


def register(m):
    m("C02", "c02-hardcoded-formula", LAW,
      "    result_force_expr = solve(law, force, dict=True)[0][force]\n    result_expr = result_force_expr.subs({mass: mass_, acceleration: acceleration_})\n    return Quantity(result_expr)",
      "    return Quantity(mass_ * acceleration_)", "P1")
    m("C02", "c02-factor-after-solve", LAW, "    return Quantity(result_expr)", "    return Quantity(result_expr * 2)", "P2")
    m("C02", "c02-term-added-after-subs", LAW, "    return Quantity(result_expr)", "    result_expr = result_expr + mass_ * acceleration_ / 1000\n    return Quantity(result_expr)", "P2")
    m("C02", "c02-sqrt-after-solve", LAW, "    return Quantity(result_expr)", "    from sympy import sqrt\n    return Quantity(sqrt(result_expr)**2)", "P2")
    m("C02", "c02-wrong-substitution", LAW, "result_force_expr.subs({mass: mass_, acceleration: acceleration_})", "result_force_expr.subs({mass: acceleration_, acceleration: mass_})", "P3")
    m("C02", "c02-solve-for-other-symbol", LAW, "    result_force_expr = solve(law, force, dict=True)[0][force]", "    result_force_expr = solve(law, mass, dict=True)[0][mass]", "P4")
    m("C02", "c02-simplify-ok", LAW, "    return Quantity(result_expr)", "    return Quantity(result_expr.simplify())", "SILENT")
    m("C02", "c02-rename-local-ok", LAW, "result_force_expr", "solved", "SILENT", count=2)
    m("C02", "c02-inline-ok", LAW,
      "    result_force_expr = solve(law, force, dict=True)[0][force]\n    result_expr = result_force_expr.subs({mass: mass_, acceleration: acceleration_})\n    return Quantity(result_expr)",
      "    return Quantity(solve(law, force, dict=True)[0][force].subs({mass: mass_, acceleration: acceleration_}))", "SILENT")


def _more(m):
    SP = "symplyphysics/laws/dynamics/springs/vector/spring_reaction_is_proportional_to_deformation.py"
    m("C02", "c02-inverse-sign-dropped", SP, "    return scale_vector(-1 / stiffness, force_)", "    return scale_vector(1 / stiffness, force_)", "P6")
    m("C02", "c02-wavevector-not-inverse", "symplyphysics/laws/waves/vector/phase_velocity_from_angular_velocity_and_wavevector.py",
      "        angular_frequency / phase_speed_**2,", "        angular_frequency / phase_speed_,", "P6")
    m("C02", "c02-transfer-velocity-inverse", "symplyphysics/laws/kinematics/vector/velocity_of_transfer_between_reference_frames.py",
      "        scale_vector(-1, cross_cartesian_vectors(angular_velocity_, position_vector_)))", "        cross_cartesian_vectors(angular_velocity_, position_vector_))", "P6")


_orig_register = register


def register(m):
    _orig_register(m)
    _more(m)


_o2 = register


def register(m):
    _o2(m)
    Q = "symplyphysics/core/symbols/quantities.py"
    m("C02", "c02-quantity-ge-with-tolerance", Q, "    return scale_factor(lhs) >= scale_factor(rhs)", "    return scale_factor(lhs) >= scale_factor(rhs) - 1e-12", "P7")
    m("C02", "c02-quantity-positive-threshold", Q, "            return scale_factor(self) >= 0", "            return scale_factor(self) >= -1e-15", "P7")


_o2b = register


def register(m):
    _o2b(m)
    Q = "symplyphysics/core/symbols/quantities.py"
    m("C02", "c02-quantity-order-ignores-dimension-regression", Q,
      "    if not (is_any_dimension(lhs.scale_factor) or is_any_dimension(rhs.scale_factor) or\n            SI.get_dimension_system().equivalent_dims(lhs.dimension, rhs.dimension)):\n        raise ValueError(f\"Dimension of '{rhs}' is {rhs.dimension}, but it should be {lhs.dimension}\")\n", "", "P7")
