A = "symplyphysics/core/vectors/arithmetics.py"


def register(m):
    m("C10", "c10-cross-component-sign", A, "result = [ay * bz - az * by, az * bx - ax * bz, ax * by - ay * bx]", "result = [ay * bz - az * by, ax * bz - az * bx, ax * by - ay * bx]", ("V2", "V3"))
    m("C10", "c10-cross-swapped-index", A, "result = [ay * bz - az * by, az * bx - ax * bz, ax * by - ay * bx]", "result = [ay * bz - az * by, az * bx - ax * bz, ax * by - ay * bz]", ("V2", "V3"))
    m("C10", "c10-extend-wrong-side", A, "    list_right_extended = list(\n        vector_right.components) + [S.Zero] * (max_size - len(vector_right.components))",
      "    list_right_extended = list(\n        vector_right.components) + [S.Zero] * (max_size - len(vector_left.components))", ("V2", "V3"))
    m("C10", "c10-add-truncates", A, "    (list_left_extended, list_right_extended) = _extend_two_vectors(vector_left, vector_right)\n        result = [",
      "    (list_left_extended, list_right_extended) = (vector_left.components, vector_right.components)\n        result = [", ("V2", "V3"), count=1)
    m("C10", "c10-subtract-scale-plus-one", A, "        scale_vector(-1, vector_subtrahend),", "        scale_vector(1, vector_subtrahend),", ("V2", "V3"))
    m("C10", "c10-project-by-original-norm", A, "dot_vectors(original_vector_, target_vector_) / dot_vectors(target_vector_, target_vector_),",
      "dot_vectors(original_vector_, target_vector_) / dot_vectors(original_vector_, original_vector_),", ("V2", "V3"))
    m("C10", "c10-unit-by-squared-norm", A, "    return scale_vector(1 / vector_magnitude(vector_), vector_)", "    return scale_vector(1 / dot_vectors(vector_, vector_), vector_)", ("V2", "V3"))
    m("C10", "c10-dot-no-system-check", A, "def dot_vectors(vector_left: Vector, vector_right: Vector) -> Expr:\n    if vector_left.coordinate_system != vector_right.coordinate_system:",
      "def dot_vectors(vector_left: Vector, vector_right: Vector) -> Expr:\n    if False:", "V1")
    m("C10", "c10-cross-accepts-cylindrical", A, "    if vector_left.coordinate_system.coord_system_type != CoordinateSystem.System.CARTESIAN:\n        coord_name_from = CoordinateSystem.system_to_transformation_name(\n            vector_left.coordinate_system.coord_system_type)\n        raise ValueError(\n            f\"Cross product is only supported for cartesian coordinates: got {coord_name_from}\")\n    if vector_right.coordinate_system.coord_system_type != CoordinateSystem.System.CARTESIAN:",
      "    if False:", "V1")
    m("C10", "c10-diff-accepts-spherical", A, "    if vector_.coordinate_system.coord_system_type != CoordinateSystem.System.CARTESIAN:\n        raise ValueError(\n            \"Component-wise vector differentiation is only supported for Cartesian coordinates\")\n", "", "V1")
    m("C10", "c10-magnitude-ok-rewrite", A, "    squared_sum = dot_vectors(vector_, vector_)\n    return sqrt(squared_sum)", "    return sqrt(dot_vectors(vector_, vector_))", "SILENT")
