A = "symplyphysics/core/approx.py"


def register(m):
    m("C08", "c08-tolerance-constant", A, "APPROX_RELATIVE_TOLERANCE = 0.001", "APPROX_RELATIVE_TOLERANCE = 0.01", "A3")
    m("C08", "c08-constant-as-product-ok", A, "APPROX_RELATIVE_TOLERANCE = 0.001", "APPROX_RELATIVE_TOLERANCE = 1 / 1000", "SILENT")
    m("C08", "c08-drop-im", A, "return im_condition and approx_equal_numbers(", "return approx_equal_numbers(", "A2")
    m("C08", "c08-or-instead-of-and", A, "return im_condition and approx_equal_numbers(", "return im_condition or approx_equal_numbers(", "A2")
    m("C08", "c08-im-compared-with-re", A, "float(im(rhs_value)),", "float(re(rhs_value)),", "A2")
    m("C08", "c08-lhs-compared-with-lhs", A, "float(re(rhs_value)),", "float(re(lhs_value)),", "A2")
    m("C08", "c08-skip-dimension-check", A,
      '    assert_equivalent_dimension(lhs, lhs.dimension.name, "approx_equal_quantities", rhs)\n',
      '    if dimension is not None:\n        assert_equivalent_dimension(lhs, lhs.dimension.name, "approx_equal_quantities", rhs)\n', "A1")
    m("C08", "c08-dimension-check-lhs-vs-lhs", A,
      'assert_equivalent_dimension(lhs, lhs.dimension.name, "approx_equal_quantities", rhs)',
      'assert_equivalent_dimension(lhs, lhs.dimension.name, "approx_equal_quantities", lhs)', "A1")
    m("C08", "c08-one-sided-tolerance", A, "absolute_tolerance = abs(lhs * relative_tolerance)", "absolute_tolerance = 0", "A4")
    m("C08", "c08-abs-default-squared", A, "absolute_tolerance = abs(lhs * relative_tolerance)", "absolute_tolerance = abs(lhs * relative_tolerance * 10)", "A4")
    m("C08", "c08-rel-widened", A, "rhs_approx = approx(rhs, rel=relative_tolerance, abs=absolute_tolerance)",
      "rhs_approx = approx(rhs, rel=relative_tolerance * 10, abs=absolute_tolerance)", "A4")
    m("C08", "c08-rel-not-passed", A, "rhs_approx = approx(rhs, rel=relative_tolerance, abs=absolute_tolerance)",
      "rhs_approx = approx(rhs, abs=absolute_tolerance)", "A4")
    m("C08", "c08-verdict-ge", A, "return lhs == rhs_approx", "return lhs >= rhs_approx or lhs == rhs_approx", "A4")
    m("C08", "c08-tolerance-not-forwarded", A,
      "        float(re(rhs_value)),\n        relative_tolerance=relative_tolerance,",
      "        float(re(rhs_value)),\n        relative_tolerance=None,", "A5")
    m("C08", "c08-abs-tolerance-as-rel", A,
      "        rhs,\n        relative_tolerance=relative_tolerance,\n        absolute_tolerance=absolute_tolerance,\n        dimension=dimension,\n    ), error_message()",
      "        rhs,\n        relative_tolerance=absolute_tolerance,\n        absolute_tolerance=absolute_tolerance,\n        dimension=dimension,\n    ), error_message()", "A5")
    m("C08", "c08-vector-dimension-dropped", A,
      "            absolute_tolerance=absolute_tolerance,\n            dimension=dimension,\n        )",
      "            absolute_tolerance=absolute_tolerance,\n        )", "A5")
    m("C08", "c08-zip-not-strict", A, "zip(lhs.components, rhs.components, strict=True)", "zip(lhs.components, rhs.components)", "A7")
    m("C08", "c08-zip-first-only", A, "zip(lhs.components, rhs.components, strict=True)", "zip(lhs.components[:1], rhs.components[:1], strict=True)", "A7")
    m("C08", "c08-lhs-redimensioned", A, "        lhs = Quantity(lhs)\n", "        lhs = Quantity(lhs, dimension=dimension)\n", "A6")
    m("C08", "c08-rhs-without-dimension", A, "    if not isinstance(rhs, Quantity):\n        rhs = Quantity(rhs, dimension=dimension)\n\n    assert_equivalent_dimension",
      "    if not isinstance(rhs, Quantity):\n        rhs = Quantity(rhs)\n\n    assert_equivalent_dimension", "A6")
    m("C08", "c08-assert-removed", A, "    assert approx_equal_quantities(", "    _ = approx_equal_quantities(", "A6")
    m("C08", "c08-rename-locals-ok", A, "im_condition", "imaginary_ok", "SILENT", count=2)
    m("C08", "c08-local-noop-shadow", A, "def approx_equal_quantities(",
      "def assert_equivalent_dimension(*_a):  # type: ignore\n    return None\n\n\ndef approx_equal_quantities(", "A1")
