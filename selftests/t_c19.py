A = "symplyphysics/laws/dynamics/acceleration_is_force_over_mass.py"
ROLE = "symplyphysics/docs/symbols_role.py"
PATCH = "symplyphysics/docs/patch.py"
PROC = "symplyphysics/core/processors.py"
BUILD = "symplyphysics/docs/build.py"
SYMS = "symplyphysics/symbols/__init__.py"


def register(m):
    m("C19", "c19-set-iteration-regression", ROLE, "for _attr in sorted(set(dir(symbols)) - set(symbols.__all__)):", "for _attr in set(dir(symbols)) - set(symbols.__all__):", "D6")
    m("C19", "c19-walk-unsorted", BUILD, "        dirs.sort()\n        files.sort()\n", "        dirs.sort()\n", "D6")
    m("C19", "c19-future-import", A, "from sympy import (Eq, solve)", "from __future__ import annotations\nfrom sympy import (Eq, solve)", "D2")
    m("C19", "c19-genexp-at-module-level", A, "\nlaw = Eq(acceleration, force / mass)\n",
      "\n_scale = sum(acceleration * k for k in (1, 2))\n\nlaw = Eq(acceleration, force / mass)\n", "D1")
    m("C19", "c19-helper-called-at-module-level", A, "\nlaw = Eq(acceleration, force / mass)\n",
      "\ndef _ratio():\n    return force / mass\n\n\nlaw = Eq(acceleration, _ratio())\n", "D1")
    m("C19", "c19-listcomp-ok", A, "\nlaw = Eq(acceleration, force / mass)\n",
      "\n_terms = [acceleration * k for k in (1, 2)]\n\nlaw = Eq(acceleration, force / mass)\n", "SILENT")
    m("C19", "c19-double-placeholder", A, '"""\n:laws:symbol::\n\n:laws:latex::\n"""', '"""\n:laws:symbol::\n\n:laws:symbol::\n\n:laws:latex::\n"""', "D4")
    m("C19", "c19-unknown-symbol-role", A, ":symbols:`force`", ":symbols:`forse`", "D5")
    m("C19", "c19-unknown-quantity-role", "symplyphysics/laws/gravity/free_fall_acceleration_from_height.py", ":quantity_notation:`gravitational_constant`", ":quantity_notation:`gravity_constant`", "D5")
    m("C19", "c19-symbol-not-exported", SYMS, '    "time",\n', "", "D5")
    m("C19", "c19-enable-not-inserted", PATCH, "        module.body.insert(node_idx + offset + 1, _ENABLE_NODE)\n        offset += 1\n", "", "D7")
    m("C19", "c19-enable-conditional", PATCH, "        module.body.insert(node_idx + offset + 1, _ENABLE_NODE)\n        offset += 1\n",
      "        if node_idx % 2:\n            module.body.insert(node_idx + offset + 1, _ENABLE_NODE)\n            offset += 1\n", "D7")
    m("C19", "c19-reset-to-false", PROC, "_old_evaluation: bool = True", "_old_evaluation: bool = False", "D7")
    m("C19", "c19-page-collision", A, "from sympy import (Eq, solve)", "from sympy import (Eq, solve)", "D3",
      extra=[("symplyphysics/laws/dynamics/acceleration_is_force_over_mass/__init__.py", "", '"""\nX\n=\n"""\n', 0)],
      note="overlay adds a package next to the module")
    m("C19", "c19-patcher-rule-changed", PATCH, "module.body.insert(1, _IMPORT_NODE)", "module.body.insert(2, _IMPORT_NODE)", "SILENT",
      note="was a refusal while the patcher was mirrored by a replica; the patcher is evaluated now, and for every module of the tree the import still precedes all inserted calls")


_o19 = register


def register(m):
    _o19(m)
    m("C19", "c19-patcher-keeps-one-more-node", PATCH, "    module.body = module.body[0:last_documented_node + 1]", "    module.body = module.body[0:last_documented_node + 2]", ("D1", "ERROR"))
    m("C19", "c19-patcher-private-members-too", PATCH, "                    if str(name).startswith(\"_\"):\n                        continue\n", "", "SILENT",
      note="was a refusal while the patcher was mirrored; evaluated on every module of the tree, keeping private members changes nothing that D1-D4/D7 judge")
    m("C19", "c19-patcher-comment-only-ok", PATCH, "    # Delete code unrelated to documentation\n", "    # Drop the code that is unrelated to documentation (derivations, calculators)\n", "SILENT")
