O = "symplyphysics/core/fields/operators.py"


def register(m):
    m("C12", "c12-sph-div-dropped-2", O, "return diff(field_r, r) + 2 * field_r / r + diff(field_theta,", "return diff(field_r, r) + field_r / r + diff(field_theta,", "O2")
    m("C12", "c12-sph-grad-missing-sin", O, "            diff(field_space, theta) / (r * sin(phi)),", "            diff(field_space, theta) / r,", ("O1", "O4"))
    m("C12", "c12-cyl-curl-sign", O, "            diff(field_z, theta) / r - diff(field_theta, z),", "            diff(field_theta, z) - diff(field_z, theta) / r,", ("O3", "O4"))
    m("C12", "c12-sph-div-tan-to-sin", O, "field_phi / (r * tan(phi))", "field_phi / (r * sin(phi))", "O2")
    m("C12", "c12-cyl-div-missing-1-over-r", O, "diff(field_theta, theta) / r + diff(field_z, z)", "diff(field_theta, theta) + diff(field_z, z)", "O2")
    m("C12", "c12-cart-curl-swapped", O, "            diff(field_x, z) - diff(field_z, x),", "            diff(field_z, x) - diff(field_x, z),", ("O3", "O4"))
    m("C12", "c12-sph-curl-wrong-component", O, "(diff(r * field_phi, r) - diff(field_r, phi)) / r,", "(diff(field_phi, r) - diff(field_r, phi)) / r,", ("O3", "O4"))
    m("C12", "c12-equivalent-rewrite-ok", O, "return diff(field_r, r) + field_r / r + diff(field_theta, theta) / r + diff(field_z, z)",
      "return diff(r * field_r, r) / r + diff(field_theta, theta) / r + diff(field_z, z)", "SILENT")
    m("C12", "c12-no-padding", O, "    field_components = list(field_space.components) + [S.Zero] * (3 - len(field_space.components))", "    field_components = list(field_space.components)", "O5")
    m("C12", "c12-unknown-function", O, "            diff(field_space, theta) / r,\n", "            diff(field_space, theta) / abs(r),\n", "ERROR")
