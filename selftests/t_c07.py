CV = "symplyphysics/core/convert.py"
DM = "symplyphysics/core/dimensions/dimensions.py"
CE = "symplyphysics/core/symbols/celsius.py"


def register(m):
    m("C07", "c07-inverted-ratio", CV, "    return value.scale_factor / target_unit.scale_factor", "    return target_unit.scale_factor / value.scale_factor", "U1")
    m("C07", "c07-product", CV, "    return value.scale_factor / target_unit.scale_factor", "    return value.scale_factor * target_unit.scale_factor", "U1")
    m("C07", "c07-extra-factor", CV, "    return value.scale_factor / target_unit.scale_factor", "    return value.scale_factor / target_unit.scale_factor / 1000", "U1")
    m("C07", "c07-no-dimension-check", CV, '    assert_equivalent_dimension(value, value.dimension.name, "convert_to", target_unit.dimension)\n', "", "U2")
    m("C07", "c07-check-against-own-dimension", CV, '"convert_to", target_unit.dimension)', '"convert_to", value.dimension)', "U2")
    m("C07", "c07-si-target-wrong", CV, "    unit = dimension_to_si_unit(value.dimension)\n    return convert_to(value, unit)", "    unit = dimension_to_si_unit(value.dimension)\n    return convert_to(value, unit * 1000)", "U3")
    m("C07", "c07-gram-as-si-mass", DM, "    units.mass: units.kilogram,", "    units.mass: units.gram,", "U4")
    m("C07", "c07-mass-to-meter", DM, "    units.mass: units.kilogram,", "    units.mass: units.meter,", "U4")
    m("C07", "c07-missing-temperature", DM, "    units.temperature: units.kelvin,\n", "", "U4")
    m("C07", "c07-exponent-dropped", DM, "        si_unit *= _si_conversions.get(dim, S.One)**n", "        si_unit *= _si_conversions.get(dim, S.One)", "U4")
    m("C07", "c07-celsius-offset", CE, "CELSIUS_TO_KELVIN_OFFSET = 273.15", "CELSIUS_TO_KELVIN_OFFSET = 273.16", "U5")
    m("C07", "c07-celsius-sign", CE, "    return Celsius(value - Celsius.CELSIUS_TO_KELVIN_OFFSET)", "    return Celsius(value + Celsius.CELSIUS_TO_KELVIN_OFFSET)", "U5")
    m("C07", "c07-celsius-literal-mismatch", CE, "    return value.value + Celsius.CELSIUS_TO_KELVIN_OFFSET", "    return value.value + 273", "U5")
    m("C07", "c07-evaluate-skips-si", CV, "        si_value = convert_to_si(qty)", "        si_value = qty.scale_factor * 1", "U6")
    m("C07", "c07-local-name-ok", CV, "    return value.scale_factor / target_unit.scale_factor", "    ratio = value.scale_factor / target_unit.scale_factor\n    return ratio", "SILENT")


_o7 = register


def register(m):
    _o7(m)
    m("C07", "c07-celsius-cached-on-instance", CE, "    return Quantity(to_kelvin(value), dimension=units.temperature)",
      "    if getattr(value, '_k', None) is None:\n        value._k = Quantity(to_kelvin(value), dimension=units.temperature)\n    return value._k", "U7")
    m("C07", "c07-absolute-zero-regression", CE, "    return Quantity(to_kelvin(value), dimension=units.temperature)", "    return Quantity(to_kelvin(value) * units.kelvin)", "U5")
    m("C07", "c07-kelvin-quantity-wrong-dimension", CE, "    return Quantity(to_kelvin(value), dimension=units.temperature)", "    return Quantity(to_kelvin(value), dimension=units.time)", "U5")
    m("C07", "c07-convert-memoised", CV, "def convert_to_si(value: SupportsFloat) -> Expr:", "import functools\n\n\n@functools.lru_cache\ndef convert_to_si(value: SupportsFloat) -> Expr:", "U7")
