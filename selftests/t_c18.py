PL = "symplyphysics/docs/printer_latex.py"
S = "symplyphysics/core/symbols/symbols.py"


def register(m):
    m("C18", "c18-left-without-right", PL, 'term_tex = f"\\\\left({term_tex}\\\\right)"\n\n                if  _between', 'term_tex = f"\\\\left({term_tex})"\n\n                if  _between', "L1")
    m("C18", "c18-frac-brace", PL, 'tex = f"\\\\frac{{{snumer}}}{{{sdenom}}}"', 'tex = f"\\\\frac{{{snumer}}}{{{sdenom}"', "L1")
    m("C18", "c18-percent-template", PL, 'name += r"{\\left(%s \\right)}"', 'name += r"{\\left(%s \\right)"', "L1")
    m("C18", "c18-display-latex-literal", "symplyphysics/symbols/nuclear.py", 'display_latex="\\\\Phi")', 'display_latex="\\\\Phi_{0")', "L2")
    m("C18", "c18-subscript-template", S, 'f"{latex_name}_{{{subscript}}}"', 'f"{latex_name}_{{{subscript}"', "L2")
    m("C18", "c18-equivalent-template-ok", PL, 'return f"\\\\Delta {inner}"', 'return "\\\\Delta " + inner', "SILENT")
