CQ = "symplyphysics/core/dimensions/collect_quantity.py"
CE = "symplyphysics/core/dimensions/collect_expression.py"
QT = "symplyphysics/core/symbols/quantities.py"
SY = "symplyphysics/core/operations/symbolic.py"


def register(m):
    # ---- C05
    m("C05", "c05-mul-adds-factor", CQ, "    factor *= arg_factor\n", "    factor += arg_factor\n", "S6")
    m("C05", "c05-mul-dim-not-multiplied", CQ, "    return (factor, dim * arg_dim)", "    return (factor, dim)", "S6")
    m("C05", "c05-add-multiplies", CQ, "    return (Add(*factors), dim)", "    return (Mul(*factors), dim)", "S6")
    m("C05", "c05-pow-dim-exponent-differs", CQ, "        return (base_factor**exp_factor, base_dim**dim_exp)", "        return (base_factor**exp_factor, base_dim**2)", "S6")
    m("C05", "c05-pow-dim-exponent-other-variable", CQ, "        return (base_factor**exp_factor, base_dim**dim_exp)", "        return (base_factor**exp_factor, base_dim**base_factor)", "S6")
    m("C05", "c05-pow-dim-exponent-rounded", CQ, "        dim_exp = nsimplify(exp_factor, rational=True) if exp_factor.is_Float else exp_factor", "        dim_exp = round(exp_factor)", "S6")
    m("C05", "c05-wrapper-skips-second", CQ, "        for arg in expr.args[1:]:", "        for arg in expr.args[2:]:", "S1")
    m("C05", "c05-pow-exp-not-collected", CQ, "    (exp_factor, exp_dim) = collect_quantity_factor_and_dimension(expr.exp)",
      "    (exp_factor, exp_dim) = (expr.exp, dimensionless)", "S1")
    m("C05", "c05-function-first-arg-only", CQ, "    for arg in expr.args:\n        (arg_factor, arg_dim) = collect_quantity_factor_and_dimension(arg)",
      "    for arg in expr.args[:1]:\n        (arg_factor, arg_dim) = collect_quantity_factor_and_dimension(arg)", "S1")
    m("C05", "c05-terms-no-escape", CQ, "        if is_any_dimension(arg_factor):\n            continue\n\n        if dim is None:", "        if dim is None:", "S3")
    m("C05", "c05-terms-no-refusal", CQ, "        if not dimsys_SI.equivalent_dims(dim, arg_dim):\n            raise ValueError(f\"Dimension of '{arg}' is {arg_dim}, but it should be {dim}\")\n\n    return factors,", "    return factors,", "S3")
    m("C05", "c05-terms-adopt-before-escape", CQ, "        if is_any_dimension(arg_factor):\n            continue\n\n        if dim is None:\n            dim = arg_dim\n            continue\n",
      "        if dim is None:\n            dim = arg_dim\n            continue\n\n        if is_any_dimension(arg_factor):\n            continue\n", "S3")
    m("C05", "c05-running-sum-regression", CQ, "        if is_any_dimension(arg_factor):\n            continue\n\n        if dim is None:",
      "        if is_any_dimension(Add(*factors)):\n            dim = None\n\n        if dim is None:", "S3")
    m("C05", "c05-terms-skip-first", CQ, "    for arg in expr.args:\n        arg_factor, arg_dim = collect_quantity_factor_and_dimension(arg)\n        factors.append(arg_factor)",
      "    for arg in expr.args[1:]:\n        arg_factor, arg_dim = collect_quantity_factor_and_dimension(arg)\n        factors.append(arg_factor)", "S1")
    m("C05", "c05-pow-dimensional-exponent-accepted", CQ, "    if is_any_dimension(exp_factor) or dimsys_SI.is_dimensionless(exp_dim):\n",
      "    if True:\n", "S3")
    m("C05", "c05-function-before-abs", CQ, "    Abs: _collect_abs,\n    MinMaxBase: _collect_min_max,\n    Derivative: _unsupported_derivative,\n    SymFunction: _collect_function,",
      "    SymFunction: _collect_function,\n    Abs: _collect_abs,\n    MinMaxBase: _collect_min_max,\n    Derivative: _unsupported_derivative,", "S2")
    m("C05", "c05-derivative-accepted", CQ, "    raise ValueError(f\"'{expr}' should not contain unevaluated Derivative\")", "    return expr, dimensionless", "S4")
    m("C05", "c05-free-symbol-accepted", CQ, "    if not is_number(expr):\n        raise ValueError(f\"'{expr}' should be an expression made of numbers or quantities.\")\n", "", "S4")
    m("C05", "c05-scale-check-after-register", QT, "        SI.set_quantity_dimension(self, dimension)\n        SI.set_quantity_scale_factor(self, scale)\n", "",
      "S4", extra=[(QT, "        (scale, dimension_) = collect_quantity_factor_and_dimension(expr)\n", "        (scale, dimension_) = collect_quantity_factor_and_dimension(expr)\n        SI.set_quantity_dimension(self, dimension or dimension_)\n        SI.set_quantity_scale_factor(self, scale)\n", 1)])
    m("C05", "c05-minmax-entry-dropped", CQ, "    MinMaxBase: _collect_min_max,\n", "", "S2")
    m("C05", "c05-rename-ok", CQ, "arg_factor", "term_factor", "SILENT", count=10)
    # ---- C06
    m("C06", "c06-derivative-regression", CE, "    _, dim = collect_expression_and_dimension(func)\n", "    _, dim = collect_expression_and_dimension(func.func)\n", "S1")
    m("C06", "c06-derivative-vars-ignored", CE, "        arg_expr, arg_dim = collect_expression_and_dimension(arg)\n        dim /= arg_dim**n", "        arg_expr, arg_dim = arg, dimensionless\n        dim /= arg_dim**n", "S1")
    m("C06", "c06-derivative-multiplies", CE, "        dim /= arg_dim**n", "        dim *= arg_dim**n", "S6")
    m("C06", "c06-mul-ignores-symbolic-dims", CE, "        expr_ *= sym_expr\n        dim *= sym_dim\n", "        expr_ *= sym_expr\n", "S1")
    m("C06", "c06-mul-adds", CE, "        expr_ *= sym_expr\n", "        expr_ += sym_expr\n", "S6")
    m("C06", "c06-split-drops-numbers", CE, "        elif is_number(arg):\n            nums.append(arg)\n", "        elif is_number(arg):\n            pass\n", "S1")
    m("C06", "c06-no-escape-for-symbolic", CE, "        if is_any_dimension(sym_expr):\n            continue\n\n", "", "S3")
    m("C06", "c06-no-refusal-for-quantities", CE, "        if not dimsys_SI.equivalent_dims(dim, qty.dimension):\n            raise UnitsError(f\"The dimension of {qty} is {qty.dimension}, expected {dim}\")\n", "", "S3")
    m("C06", "c06-pow-exponent-unchecked", CE, "    if not is_any_dimension(exp_expr) and not dimsys_SI.is_dimensionless(exp_dim):\n        raise ValueError(f\"Dimension of '{expr.exp}' is {exp_dim}, but it should be dimensionless\")\n", "", "S3")
    m("C06", "c06-wrapper-dimension-from-elsewhere", SY, "        self.dimension = collect_expression_and_dimension(expr)[1]", "        self.dimension = Dimension(1)", "S5")
    m("C06", "c06-add-skips-dimension-check", CE, "    nums, qtys, syms = _split_numeric_and_symbolic(expr)\n    dim = _collect_unique_dimension(nums, qtys, syms)\n\n    qty_sum",
      "    nums, qtys, syms = _split_numeric_and_symbolic(expr)\n    dim = syms[0][1] if syms else dimensionless\n\n    qty_sum", ("S3", "S1"))
    m("C06", "c06-adopt-before-escape-regression", CE, "    for qty in qtys:\n        if is_any_dimension(qty.scale_factor):\n            continue\n\n        if dim is None:\n            dim = qty.dimension\n            continue\n",
      "    for qty in qtys:\n        if dim is None:\n            dim = qty.dimension\n            continue\n\n        if is_any_dimension(qty.scale_factor):\n            continue\n", "S3")
