QD = "symplyphysics/core/quantity_decorator.py"
DM = "symplyphysics/core/dimensions/dimensions.py"
MI = "symplyphysics/core/dimensions/miscellaneous.py"
VE = "symplyphysics/core/vectors/vectors.py"
LAW = "symplyphysics/laws/dynamics/acceleration_is_force_over_mass.py"


def register(m):
    # catalogue
    m("C04", "c04-guard-key-typo", LAW, "@validate_input(mass_=mass, acceleration_=acceleration)", "@validate_input(mass=mass, acceleration_=acceleration)", "G1")
    m("C04", "c04-param-renamed", LAW, "def calculate_force(mass_: Quantity, acceleration_: Quantity) -> Quantity:",
      "def calculate_force(body_mass_: Quantity, acceleration_: Quantity) -> Quantity:", "G1")
    m("C04", "c04-capacitor-regression", "symplyphysics/laws/electricity/circuits/capacitance_of_spherical_capacitor.py",
      "@validate_input(absolute_permittivity_=absolute_permittivity,", "@validate_input(relative_permittivity_=absolute_permittivity,", "G1")
    m("C04", "c04-vacuous-guard", LAW, "@validate_input(mass_=mass, acceleration_=acceleration)", "@validate_input(mass_=0, acceleration_=acceleration)", "G2")
    m("C04", "c04-string-guard", LAW, "@validate_output(force)", "@validate_output('force')", "G2")
    # K1
    m("C04", "c04-k1-keyword-only-check", QD, "                if param.name in decorator_kwargs:\n                    arg = bound_args.arguments[param.name]",
      "                if param.name in decorator_kwargs and param.name in kwargs:\n                    arg = bound_args.arguments[param.name]", "K1")
    m("C04", "c04-k1-first-param-only", QD, "for param in wrapped_signature.parameters.values():\n                if param.name in decorator_kwargs:",
      "for param in list(wrapped_signature.parameters.values())[:1]:\n                if param.name in decorator_kwargs:", "K1")
    m("C04", "c04-k1-check-after-call", QD,
      "                    _assert_expected_unit(arg, decorator_kwargs[param.name], param.name,\n                        func.__name__)\n            return func(*args, **kwargs)",
      "                    pass\n            return func(*args, **kwargs)", "K1")
    m("C04", "c04-k1-kwargs-lookup", QD, "arg = bound_args.arguments[param.name]\n                    _assert_expected_unit(arg, decorator_kwargs",
      "arg = kwargs.get(param.name, 0)\n                    _assert_expected_unit(arg, decorator_kwargs", "K1")
    m("C04", "c04-k1-guard-continue-ok", QD,
      "                if param.name in decorator_kwargs:\n                    arg = bound_args.arguments[param.name]\n                    _assert_expected_unit(arg, decorator_kwargs[param.name], param.name,\n                        func.__name__)",
      "                if param.name not in decorator_kwargs:\n                    continue\n                arg = bound_args.arguments[param.name]\n                _assert_expected_unit(arg, decorator_kwargs[param.name], param.name,\n                    func.__name__)", "SILENT")
    m("C04", "c04-k1-break-after-first", QD,
      "                    _assert_expected_unit(arg, decorator_kwargs[param.name], param.name,\n                        func.__name__)\n            return func(*args, **kwargs)",
      "                    _assert_expected_unit(arg, decorator_kwargs[param.name], param.name,\n                        func.__name__)\n                    break\n            return func(*args, **kwargs)", "K1")
    # K2
    m("C04", "c04-k2-output-unchecked", QD,
      '            ret = func(*args, **kwargs)\n            _assert_expected_unit(ret, expected_unit, "return", func.__name__)\n            return ret\n\n        return wrapper_validate\n\n    return validate_func\n\n\n# Validates that output',
      '            ret = func(*args, **kwargs)\n            return ret\n\n        return wrapper_validate\n\n    return validate_func\n\n\n# Validates that output', "K2")
    m("C04", "c04-k2-output-checked-if-quantity", QD,
      '            ret = func(*args, **kwargs)\n            _assert_expected_unit(ret, expected_unit, "return", func.__name__)\n            return ret\n\n        return wrapper_validate\n\n    return validate_func\n\n\n# Validates that output',
      '            ret = func(*args, **kwargs)\n            if isinstance(ret, SymQuantity):\n                _assert_expected_unit(ret, expected_unit, "return", func.__name__)\n            return ret\n\n        return wrapper_validate\n\n    return validate_func\n\n\n# Validates that output', "K2")
    # K3
    m("C04", "c04-k3-first-element-only", QD, "for idx, c in enumerate(components):", "for idx, c in enumerate(components[:1]):", "K3")
    m("C04", "c04-k3-skip-non-quantities", QD, "        else:\n            components.append(item)\n", "        else:\n            pass\n", "K3")
    m("C04", "c04-k3-break", QD, "        assert_equivalent_dimension(c, param_name_indexed, function_name, expected_dimension)\n",
      "        assert_equivalent_dimension(c, param_name_indexed, function_name, expected_dimension)\n        break\n", "K3")
    m("C04", "c04-k3-values-truncated", QD, "values = list(value) if isinstance(value, Sequence) else list([value])",
      "values = list(value)[:1] if isinstance(value, Sequence) else list([value])", "K3")
    # K4
    m("C04", "c04-k4-errors-swapped", DM, "        raise TypeError(f\"Argument '{param_name}' to function '{func_name}'\"\n            f\" is Number",
      "        raise UnitsError(f\"Argument '{param_name}' to function '{func_name}'\"\n            f\" is Number", "K4")
    m("C04", "c04-k4-no-equivalence-test", DM, "    if not dimsys_SI.equivalent_dims(arg, expected_unit):", "    if False and not dimsys_SI.equivalent_dims(arg, expected_unit):", "K4")
    m("C04", "c04-k4-early-return-for-numbers", DM, "    # HACK: this allows to treat angle type as dimensionless\n    arg = arg.subs(\"angle\", S.One)",
      "    if dimsys_SI.is_dimensionless(arg):\n        return\n    # HACK: this allows to treat angle type as dimensionless\n    arg = arg.subs(\"angle\", S.One)", "K4")
    m("C04", "c04-k4-angle-not-erased", DM, "    expected_unit = expected_unit.subs(\"angle\", S.One)\n", "    pass\n", "K4")
    m("C04", "c04-k4-unitserror-not-valueerror", "symplyphysics/core/errors.py", "class UnitsError(ValueError)", "class UnitsError(Exception)", "K4")
    # K5
    m("C04", "c04-k5-one-is-any", MI, "return (factor in (S.Zero, S.Infinity, S.NegativeInfinity, S.NaN)", "return (factor in (S.Zero, S.One, S.Infinity, S.NegativeInfinity, S.NaN)", "K5")
    m("C04", "c04-k5-nan-missing", MI, "return (factor in (S.Zero, S.Infinity, S.NegativeInfinity, S.NaN)", "return (factor in (S.Zero, S.Infinity, S.NegativeInfinity)", "K5")
    # K6
    m("C04", "c04-k6-small-values-pass", DM, "        if is_any_dimension(scale_factor) or isinstance(arg, AnyDimension):\n            return\n\n    # HACK: this allows to treat angle type as dimensionless\n    arg =",
      "        if is_any_dimension(scale_factor) or isinstance(arg, AnyDimension) or abs(scale_factor) < 1e-30:\n            return\n\n    # HACK: this allows to treat angle type as dimensionless\n    arg =", ("K6", "K4"))
    # K7
    m("C04", "c04-k7-skip-first-component", VE, "        for idx, c in enumerate(quantities):\n            dimension_to_check",
      "        for idx, c in enumerate(quantities[1:]):\n            dimension_to_check", "K7")
