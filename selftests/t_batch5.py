"""mutants for the rules added after the fifth round of seeded changes; alarms come with a behaviour-preserving twin where one exists"""
CS = "symplyphysics/core/coordinate_systems/coordinate_systems.py"
VF = "symplyphysics/core/fields/vector_field.py"
AR = "symplyphysics/core/vectors/arithmetics.py"
PTS = "symplyphysics/core/experimental/points/__init__.py"
VE = "symplyphysics/core/experimental/vectors/__init__.py"
PL = "symplyphysics/docs/printer_latex.py"
PARSE = "symplyphysics/docs/parse.py"
PREF = "symplyphysics/core/symbols/prefixes.py"
CEL = "symplyphysics/core/symbols/celsius.py"
QD = "symplyphysics/core/quantity_decorator.py"
QTY = "symplyphysics/core/symbols/quantities.py"
SOLV = "symplyphysics/core/experimental/solvers/__init__.py"
SYM = "symplyphysics/core/symbols/symbols.py"


def register(m):
    # ---- C11-T9: the factories derive the new system from the given system's own CoordSys3D
    m("C11", "b7-transform-under-the-parent", CS, "    new_coord_system = from_system.coord_system.create_new(next_name(\"SYS\"),\n",
      "    origin_system = from_system.coord_system\n    parent_system = origin_system._parent or origin_system\n    new_coord_system = parent_system.create_new(next_name(\"SYS\"),\n", "T9", note="seed b5_C11_2")
    m("C11", "b7-transform-through-a-temporary-ok", CS, "    new_coord_system = from_system.coord_system.create_new(next_name(\"SYS\"),\n",
      "    own_system = from_system.coord_system\n    new_coord_system = own_system.create_new(next_name(\"SYS\"),\n", "SILENT")
    # ---- C11-T10: a field answers every application alike
    m("C11", "b7-field-keeps-a-one-shot-iterator", VF, "        point_function = partial(_subs_with_point, vector_.components, vector_.coordinate_system)\n",
      "        components = map(partial(sympify, strict=True), vector_.components)\n        point_function = partial(_subs_with_point, components, vector_.coordinate_system)\n", "T10", note="seed b5_C12_1")
    m("C11", "b7-field-keeps-a-list-ok", VF, "        point_function = partial(_subs_with_point, vector_.components, vector_.coordinate_system)\n",
      "        components = list(map(partial(sympify, strict=True), vector_.components))\n        point_function = partial(_subs_with_point, components, vector_.coordinate_system)\n", "SILENT")
    # ---- C11-T2: the magnitude is positive
    m("C11", "b7-spherical-magnitude-is-the-radial-component", AR, "def vector_magnitude(vector_: Vector) -> Expr:\n",
      "def vector_magnitude(vector_: Vector) -> Expr:\n    if vector_.coordinate_system.coord_system_type == CoordinateSystem.System.SPHERICAL and len(vector_.components) > 0:\n"
      "        return vector_.components[0]\n", "T2", note="seed b5_C11_1")
    # ---- C10: three-valued is_nonzero
    m("C10", "b7-unit-vector-skipped-for-undecided-magnitude", AR, "    return scale_vector(1 / vector_magnitude(vector_), vector_)\n",
      "    magnitude = vector_magnitude(vector_)\n    if not magnitude.is_nonzero:\n        return vector_\n    return scale_vector(1 / magnitude, vector_)\n", ("V2", "V3"), note="seed b5_C10_1")
    m("C10", "b7-unit-vector-guard-on-definite-zero-ok", AR, "    return scale_vector(1 / vector_magnitude(vector_), vector_)\n",
      "    magnitude = vector_magnitude(vector_)\n    if magnitude.is_zero:\n        return vector_\n    return scale_vector(1 / magnitude, vector_)\n", "SILENT",
      note="is_zero is None for a generic magnitude: the guard is not taken")
    # ---- C15-X8
    m("C15", "b7-coordinate-coerced-by-assumption", PTS, "        scalar: sympify_expr(coordinate)\n",
      "        scalar: (abs(sympify_expr(coordinate)) if scalar.is_nonnegative and sympify_expr(coordinate).is_negative else sympify_expr(coordinate))\n", "X8", note="seed b5_C15_1")
    # ---- C09-N8
    m("C09", "b7-vector-symbol-never-zero", VE, "        return super().__new__(cls)\n\n    def __init__(\n            self,\n            display_symbol: Optional[str] = None,\n            dimension: Dimension = Dimension(1),",
      "        return super().__new__(cls, zero=False)\n\n    def __init__(\n            self,\n            display_symbol: Optional[str] = None,\n            dimension: Dimension = Dimension(1),", "N8", note="seed b5_C16_1")
    # ---- C18-L14 / L15 / L3
    m("C18", "b7-suffix-pattern-matched", PL, "                if  _between_two_numbers_p[0].search(last_term_tex) and \\\n", "                if  _between_two_numbers_p[0].match(last_term_tex) and \\\n", "L14", note="seed b5_C18_1")
    m("C18", "b7-function-exponent-unbraced", PL, "            name = r\"%s^{%s}\" % (func_tex, exp)\n", "            name = f\"{func_tex}^{exp}\"\n", "L15", note="seed b5_C18_2")
    m("C18", "b7-function-exponent-fstring-braced-ok", PL, "            name = r\"%s^{%s}\" % (func_tex, exp)\n", "            name = f\"{func_tex}^{{{exp}}}\"\n", "SILENT")
    # ---- C19-D11
    m("C19", "b7-latex-directive-searched-after-symbol", PARSE, "    position = doc.find(_LAWS_LATEX_STR)\n", "    position = doc.find(_LAWS_LATEX_STR, position)\n", "D11", note="seed b5_C19_1")
    # ---- C07-U8 / U5
    m("C07", "b7-deca-is-a-tenth", PREF, "    deca=10**1,\n", "    deca=10**-1,\n", "U8", note="seed b5_C07_2 written out")
    m("C07", "b7-deca-spelled-10-ok", PREF, "    deca=10**1,\n", "    deca=10,\n", "SILENT")
    m("C07", "b7-absolute-zero-refused", CEL, "    return Celsius(value - Celsius.CELSIUS_TO_KELVIN_OFFSET)\n",
      "    if value <= 0:\n        raise ValueError(\"temperature below absolute zero\")\n    return Celsius(value - Celsius.CELSIUS_TO_KELVIN_OFFSET)\n", "U5", note="seed b5_C07_1")
    # ---- C04-K2
    m("C04", "b7-falsy-reference-taken-for-missing", QD, "            if expected_unit is None:\n", "            if not expected_unit:\n", "K2", note="seed b5_C04_2")
    # ---- C02-P7
    m("C02", "b7-dimensions-compared-structurally", QTY, "            SI.get_dimension_system().equivalent_dims(lhs.dimension, rhs.dimension)):\n", "            lhs.dimension == rhs.dimension):\n", "P7", note="seed b5_C05_1")
    # ---- C16-Q4
    m("C16", "b7-false-by-identity", SOLV, "equation == False for equation in equations", "equation is False for equation in equations", "Q4", note="seed b5_C16_2")
