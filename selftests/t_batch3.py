"""mutants for what the seeds re-run after the evaluation rewrites prompted: each alarm has a behaviour-preserving twin that must stay silent"""
VE = "symplyphysics/core/experimental/vectors/__init__.py"
QD = "symplyphysics/core/quantity_decorator.py"
SOLV = "symplyphysics/core/experimental/solvers/__init__.py"
AP = "symplyphysics/core/approx.py"

LEIBNIZ = '''
def _eval_leibniz_rule(product, symbol, n):
    if not isinstance(n, int) or n < 2 or is_vector_expr(symbol):
        return None

    lhs, rhs = product.args
    result = S.Zero

    for k in range(n + 1):
        derived_lhs = lhs.diff(symbol, k)
        derived_rhs = rhs.diff(symbol, n - k)

        if derived_lhs == 0 or derived_rhs == 0:
            %s

        result += binomial(n, k) * product.func(derived_lhs, derived_rhs)

    return result


class VectorExpr(Expr):  # type: ignore[misc]
'''
N_TIMES = '''        return derived_lhs + derived_rhs

    def _eval_derivative_n_times(self, s, n):
        result = _eval_leibniz_rule(self, s, n)

        if result is not None:
            return result

        return super()._eval_derivative_n_times(s, n)


class VectorCross(VectorExpr):
'''


def register(m):
    # ---- C14: a higher-order derivative hook (general Leibniz rule)
    for name, stmt, expect in (("b5-leibniz-break-regression", "break", "R3"), ("b5-leibniz-continue-ok", "continue", "SILENT")):
        m("C14", name, VE, "\nclass VectorExpr(Expr):  # type: ignore[misc]\n", LEIBNIZ % stmt, expect,
          extra=[(VE, "        return derived_lhs + derived_rhs\n\n\nclass VectorCross(VectorExpr):\n", N_TIMES, 1),
                 (VE, "    fraction, sympify as sym_sympify)", "    fraction, binomial, sympify as sym_sympify)", 1)],
          note="seed b3_C14_2: a vanishing k-th derivative of one operand must skip that k, not end the sum")
    # ---- C14: operand hooks asked through getattr in a helper
    HELPER = '''
def _eval_by_operands(method, lhs, rhs):
    for operand, other in ((lhs, rhs), (rhs, lhs)):
        if not isinstance(operand, VectorExpr):
            continue
        result = getattr(operand, method)(%s)
        if result is not None:
            return result
    return None


def _process_vector_names(
'''
    DOT_OLD = ("        if isinstance(lhs, VectorExpr):\n            result = lhs._eval_vector_dot(lhs, rhs)\n\n            if result is not None:\n                return result\n\n"
               "        if isinstance(rhs, VectorExpr):\n            result = rhs._eval_vector_dot(lhs, rhs)\n\n            if result is not None:\n                return result\n")
    DOT_NEW = "        result = _eval_by_operands(\"_eval_vector_dot\", lhs, rhs)\n\n        if result is not None:\n            return result\n"
    CROSS_OLD = ("        if isinstance(lhs, VectorExpr):\n            result = lhs._eval_vector_cross(lhs, rhs)\n\n            if result is not None:\n                return result  # type: ignore[no-any-return]\n\n"
                 "        if isinstance(rhs, VectorExpr):\n            result = rhs._eval_vector_cross(lhs, rhs)\n\n            if result is not None:\n                return result  # type: ignore[no-any-return]\n")
    CROSS_NEW = "        result = _eval_by_operands(\"_eval_vector_cross\", lhs, rhs)\n\n        if result is not None:\n            return result\n"
    m("C14", "b5-hook-helper-swaps-for-dot-only-ok", VE, "\ndef _process_vector_names(\n", HELPER % "operand, other", "SILENT", extra=[(VE, DOT_OLD, DOT_NEW, 1)],
      note="the dot product is symmetric: asking the right operand's dot hook with swapped arguments is the same value")
    m("C14", "b5-hook-helper-swaps-for-cross-regression", VE, "\ndef _process_vector_names(\n", HELPER % "operand, other", "R4", extra=[(VE, DOT_OLD, DOT_NEW, 1), (VE, CROSS_OLD, CROSS_NEW, 1)],
      note="seed C14_3")
    # ---- C14: memoised _ordered_mul
    POP_OLD = "        for sign, tuple_to_factor in sign_to_mapping.items():\n            # Cross product is zero when arguments are equal\n            if sign == 0:\n                continue\n"
    POP_NEW = "        sign_to_mapping.pop(0, None)\n\n        for sign, tuple_to_factor in sign_to_mapping.items():\n"
    m("C14", "b5-memoised-mapping-mutated-regression", VE, "def _ordered_mul(\n", "@cacheit\ndef _ordered_mul(\n", "R2", extra=[(VE, POP_OLD, POP_NEW, 1)], note="seed b3_C14_1: two sites, each fine alone")
    m("C14", "b5-private-mapping-mutated-ok", VE, POP_OLD, POP_NEW, "SILENT", note="without memoisation the mapping is the caller's own")
    m("C14", "b5-memoised-mapping-read-only-ok", VE, "def _ordered_mul(\n", "@cacheit\ndef _ordered_mul(\n", "SILENT", note="memoised and only read")
    # ---- C04-K3: memo of validated (dimension, expected) pairs
    LOOP_OLD = ("    for idx, c in enumerate(components):\n        param_name_indexed = f\"{param_name}[{idx}]\" if indexed else param_name\n"
                "        expected_dimension = expected_unit_dimensions[\n            idx] if is_tuple else expected_unit_dimensions[0]\n"
                "        assert_equivalent_dimension(c, param_name_indexed, function_name, expected_dimension)\n")
    m("C04", "b5-validated-pairs-memo-in-call-regression", QD, LOOP_OLD,
      "    validated = set()\n    for idx, c in enumerate(components):\n        param_name_indexed = f\"{param_name}[{idx}]\" if indexed else param_name\n"
      "        expected_dimension = expected_unit_dimensions[\n            idx] if is_tuple else expected_unit_dimensions[0]\n"
      "        key = (c.dimension if isinstance(c, SymQuantity) else c, expected_dimension)\n        if key in validated:\n            continue\n"
      "        assert_equivalent_dimension(c, param_name_indexed, function_name, expected_dimension)\n        validated.add(key)\n", "K3", note="seed C04_2: a zero vouches for later non-zeros of its dimension")
    m("C04", "b5-validated-elements-memo-by-identity-ok", QD, LOOP_OLD,
      "    seen = []\n    for idx, c in enumerate(components):\n        param_name_indexed = f\"{param_name}[{idx}]\" if indexed else param_name\n"
      "        expected_dimension = expected_unit_dimensions[\n            idx] if is_tuple else expected_unit_dimensions[0]\n"
      "        assert_equivalent_dimension(c, param_name_indexed, function_name, expected_dimension)\n        seen.append(c)\n", "SILENT", note="bookkeeping that skips nothing")
    # ---- C16-Q3: the unknown in several terms
    # ---- C08: tolerance derived from the magnitude of the whole quantity
    m("C08", "b5-absolute-tolerance-from-complex-magnitude-regression", AP, "    im_condition = approx_equal_numbers(\n",
      "    if relative_tolerance is None:\n        relative_tolerance = APPROX_RELATIVE_TOLERANCE\n    if absolute_tolerance is None:\n"
      "        absolute_tolerance = abs(complex(lhs.scale_factor)) * relative_tolerance\n\n    im_condition = approx_equal_numbers(\n", ("A2", "A5"), note="seed C08_3")
    m("C08", "b5-default-relative-tolerance-spelled-out-ok", AP, "    im_condition = approx_equal_numbers(\n",
      "    if relative_tolerance is None:\n        relative_tolerance = APPROX_RELATIVE_TOLERANCE\n\n    im_condition = approx_equal_numbers(\n", "SILENT")


def _register_fields(m):
    SF = "symplyphysics/core/fields/scalar_field.py"
    VF = "symplyphysics/core/fields/vector_field.py"
    m("C11", "b5-stored-value-field-answers-before-refusing-regression", SF,
      "    def __call__(self, point_: Point) -> Expr:\n",
      "    def __call__(self, point_: Point) -> Expr:\n        if not callable(self._point_function):\n            return _subs_with_point(self._point_function, self._coordinate_system, point_)\n",
      "T4", note="the genuine defect repaired in 8988336 (found through seed b4_C11_1)")
    m("C11", "b5-rebase-returns-stored-value-field-ok", SF, "        return ScalarField.from_expression(transformed_expr, coordinate_system)\n",
      "        return ScalarField(transformed_expr, coordinate_system)\n", "SILENT",
      note="seed b4_C11_1 after 8988336: a stored-value field refuses foreign points like any other, so the change is behaviour-preserving")
    AR = "symplyphysics/core/vectors/arithmetics.py"
    m("C11", "b5-scale-vector-in-place-regression", AR, "        vector_components = list(vector.components)\n        vector_size = len(vector_components)\n",
      "        vector_components = vector.components\n        vector_size = len(vector_components)\n", "T2", note="seed b4_C11_2: Vector.components hands out the vector's own list")


_old_register = register


def register(m):  # noqa: F811
    _old_register(m)
    _register_fields(m)
