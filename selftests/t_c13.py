AN = "symplyphysics/core/fields/analysis.py"
EL = "symplyphysics/core/geometry/elements.py"
NO = "symplyphysics/core/geometry/normals.py"


def register(m):
    m("C13", "c13-surface-normal-order", NO, "    return cross_cartesian_vectors(surface_element_vector_x, surface_element_vector_y)", "    return cross_cartesian_vectors(surface_element_vector_y, surface_element_vector_x)", ("J2", "J3"))
    m("C13", "c13-curve-normal-inward", NO, "    return cross_cartesian_vectors(curve_element_vector, k_vector)", "    return cross_cartesian_vectors(k_vector, curve_element_vector)", "J4")
    m("C13", "c13-limits-swapped", AN, "    flux_value = integrate(integrand, (parameter1, parameter1_from, parameter1_to),\n        (parameter2, parameter2_from, parameter2_to))",
      "    flux_value = integrate(integrand, (parameter1, parameter2_from, parameter2_to),\n        (parameter2, parameter1_from, parameter1_to))", ("J2", "J3"))
    m("C13", "c13-sph-volume-element", EL, "        return r**2 * sin(phi)", "        return r * sin(phi)", "J6")
    m("C13", "c13-cyl-volume-element", EL, "        r = coordinate_system.coord_system.base_scalars()[0]\n        return r\n", "        return S.One\n", "J6")
    m("C13", "c13-volume-limits-xy-swapped", AN, "(y, y_from, y_to), (x, x_from, x_to))", "(y, x_from, x_to), (x, y_from, y_to))", "J6")
    m("C13", "c13-stokes-uses-field-not-curl", AN, "    return flux_across_surface(field_rotor_vector_field, surface, parameter_and_limits1,", "    return flux_across_surface(field, surface, parameter_and_limits1,", "J3")
    m("C13", "c13-planar-flux-missing-element", AN, "    flux_value = integrate(field_dot_norm_value * curve_element_magnitude_value,", "    flux_value = integrate(field_dot_norm_value,", "J4")
    m("C13", "c13-divergence-without-area", AN, "    flux_value = integrate(field_divergence_applied * surface_element_magnitude,", "    flux_value = integrate(field_divergence_applied,", "J5")
    m("C13", "c13-curve-element-not-derivative", EL, "    trajectory_element_sympy_vector = diff(trajectory_sympy_vector, parameter)", "    trajectory_element_sympy_vector = trajectory_sympy_vector", ("J1", "J4"))
    m("C13", "c13-rewrite-ok", AN, "    integrand = dot_vectors(field_applied, curve_element_vector)\n    circulation_value = integrate(integrand, (parameter, parameter_from, parameter_to))",
      "    circulation_value = integrate(dot_vectors(curve_element_vector, field_applied), (parameter, parameter_from, parameter_to))", "SILENT")
