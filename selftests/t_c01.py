def register(m):
    m("C01", "c01-wrong-exponent", "symplyphysics/laws/dynamics/kinetic_energy_from_mass_and_speed.py",
      "speed**2", "speed**3", "H1")
    m("C01", "c01-symbol-wrong-dimension", "symplyphysics/symbols/classical_mechanics.py",
      'force = Symbol("F", units.force)', 'force = Symbol("F", units.energy)', ("H1", "H2"))
    m("C01", "c01-heat-source-regression", "symplyphysics/laws/thermodynamics/heat_transfer/general_equation_in_one_dimension.py",
      'heat_source_density = Function("q", [position, time], units.power / units.volume)',
      'heat_source_density = clone_as_function(symbols.energy_density, [position, time], display_symbol="q", display_latex="q")', "H2")
    m("C01", "c01-sphere-flux-regression", "symplyphysics/laws/nuclear/buckling/neutron_flux_for_uniform_sphere.py",
      "symbols.neutron_flux.dimension * units.length,", "symbols.neutron_flux.dimension,", "H1")
    m("C01", "c01-equivalent-rewrite-ok", "symplyphysics/laws/dynamics/kinetic_energy_from_mass_and_speed.py",
      "speed**2", "speed * speed", "SILENT")


_o = register


def register(m):
    _o(m)
    m("C01", "c01-vector-law-adds-force-to-acceleration", "symplyphysics/laws/dynamics/vector/relative_acceleration_from_force.py",
      "        scale_vector(1 / mass, force_),\n        coriolis_acceleration_,", "        force_,\n        coriolis_acceleration_,", "H5")
    m("C01", "c01-vector-law-wrong-power", "symplyphysics/laws/waves/vector/phase_velocity_from_angular_velocity_and_wavevector.py",
      "        angular_frequency / wavenumber_**2,", "        angular_frequency / wavenumber_,", "H5")
