Q = "symplyphysics/quantities/__init__.py"


def register(m):
    m("C20", "c20-digit-corruption", Q, "9.1093837015e-31 * units.kilogram", "9.1093837105e-31 * units.kilogram", "R2")
    m("C20", "c20-wrong-unit", Q, "0.529e-10 * units.meter", "0.529e-10 * units.centimeter", "R2")
    m("C20", "c20-wrong-dimension", Q, "3.0128e28 * units.watt", "3.0128e28 * units.joule", "R1")
    m("C20", "c20-wrong-sympy-constant", Q, "planck = Quantity(units.planck,", "planck = Quantity(units.hbar,", ("R2", "R3"))
    m("C20", "c20-gram-instead-of-kilogram", Q, "5.9722e24 * units.kilogram", "5.9722e24 * units.gram", "R2")
    m("C20", "c20-richardson-per-m2", Q, "units.ampere / units.kelvin**2 / units.centimeter**2", "units.ampere / units.kelvin**2 / units.meter**2", "R2")
    m("C20", "c20-faraday-identity", Q, "faraday_constant = Quantity(elementary_charge * avogadro_constant,", "faraday_constant = Quantity(elementary_charge * avogadro_constant * 1.001,", ("R2", "R3"))
    m("C20", "c20-impedance-literal", Q, "376.730313412 * units.ohm", "367.730313412 * units.ohm", ("R2", "R3"))
    m("C20", "c20-equivalent-unit-ok", Q, "3.0128e28 * units.watt", "3.0128e28 * units.joule / units.second", "SILENT")
    m("C20", "c20-undefined-export", Q, '    "speed_of_light",', '    "speed_of_light",\n    "speed_of_sound",', "R4")
