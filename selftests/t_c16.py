S = "symplyphysics/core/experimental/solvers/__init__.py"


def register(m):
    m("C16", "c16-sign-dropped", S, "        rhs = Add(*(v * (-1 * s / scale) for v, s in combination_rhs))", "        rhs = Add(*(v * (s / scale) for v, s in combination_rhs))", "Q3")
    m("C16", "c16-scale-not-divided", S, "        rhs = Add(*(v * (-1 * s / scale) for v, s in combination_rhs))", "        rhs = Add(*(v * (-1 * s) for v, s in combination_rhs))", "Q3")
    m("C16", "c16-noreduce-sign", S, "    return Eq(atomic * (-1 * scale), rhs)", "    return Eq(atomic * scale, rhs)", "Q3")
    m("C16", "c16-drops-last-term", S, "    combination_rhs = combination[:i] + combination[i + 1:]", "    combination_rhs = combination[:i] + combination[i + 2:]", "Q3")
    m("C16", "c16-wrong-scale", S, "    scale = combination[i][1]", "    scale = combination[0][1]", "Q3")
    m("C16", "c16-type-check-removed", S, "    if not is_vector_expr(expr):\n        raise TypeError(f\"Expected '{expr}' to be a vector.\")\n", "", "SILENT", note="into_terms refuses a non-vector itself (ValueError): still a refusal, which is all the property asks for")
    m("C16", "c16-missing-unknown-ignored", S, "    if i is None:\n        raise ValueError(f\"The expression {expr} does not contain the symbol {atomic}.\")\n", "    if i is None:\n        i = 0\n", "Q1")
    m("C16", "c16-eq-sum", S, "        expr = expr.lhs - expr.rhs", "        expr = expr.lhs + expr.rhs", ("Q1", "Q3"))
    m("C16", "c16-apply-one-side", S, "    return Eq(f(lhs), f(rhs), evaluate=False)", "    return Eq(f(lhs), rhs, evaluate=False)", "Q2")
    m("C16", "c16-equivalent-ok", S, "        rhs = Add(*(v * (-1 * s / scale) for v, s in combination_rhs))", "        rhs = Add(*(-v * s / scale for v, s in combination_rhs))", "SILENT")
