"""mutants for the rules added after the second batch of seeded changes"""
CSYS = "symplyphysics/core/coordinate_systems/coordinate_systems.py"
SF = "symplyphysics/core/fields/scalar_field.py"
GE = "symplyphysics/core/geometry/elements.py"
VE = "symplyphysics/core/experimental/vectors/__init__.py"
SOLV = "symplyphysics/core/experimental/solvers/__init__.py"
SC = "symplyphysics/core/experimental/coordinate_systems/express_base_scalars.py"
PL = "symplyphysics/docs/printer_latex.py"
SYM = "symplyphysics/core/symbols/symbols.py"
SR = "symplyphysics/docs/symbols_role.py"
QR = "symplyphysics/docs/quantity_notation_role.py"
CONV = "symplyphysics/core/convert.py"
IDG = "symplyphysics/core/symbols/id_generator.py"
QTY = "symplyphysics/core/symbols/quantities.py"
VFL = "symplyphysics/core/fields/vector_field.py"
VEC = "symplyphysics/core/vectors/vectors.py"


def register(m):
    FLT = "symplyphysics/laws/electricity/circuits/filters/filter_order_from_distortion_and_frequencies.py"
    m("C03", "b3-free-form-expression-in-one-dict-regression", FLT,
      "    applied_law = law.subs(filter_function, filter_function_)\n    result_expr = applied_law.subs({\n",
      "    result_expr = law.subs({\n        filter_function: filter_function_,\n", "I6", note="the genuine defect repaired in ea9c9e8")
    WLK = "symplyphysics/laws/electricity/circuits/couplers/impedances_for_wilkinson_microstrip_divider.py"
    m("C03", "b3-solve-dict-values-unpacked", WLK, "    result_z1 = result[first_impedance]\n    result_z2 = result[second_impedance]\n    result_z3 = result[third_impedance]\n    result_z4 = result[fourth_impedance]\n",
      "    result_z1, result_z2, result_z3, result_z4 = result.values()\n", "I7")
    m("C08", "b4-raw-scale-factors-regression", "symplyphysics/core/approx.py", "    lhs_value = convert_to_si(lhs)\n    rhs_value = convert_to_si(rhs)\n",
      "    lhs_value = lhs.scale_factor\n    rhs_value = rhs.scale_factor\n", "A2", note="the genuine defect repaired in 98cffce: gram-based scale factors under an SI absolute tolerance")
    m("C08", "b4-infinite-lhs-regression", "symplyphysics/core/approx.py", "    if abs(lhs) == inf or abs(rhs) == inf:\n        return bool(lhs == rhs)\n", "", "A4",
      note="the genuine defect repaired in 457d450: an infinite lhs equals everything")
    m("C08", "b4-infinite-guard-isinf-ok", "symplyphysics/core/approx.py", "    if abs(lhs) == inf or abs(rhs) == inf:\n        return bool(lhs == rhs)\n",
      "    if lhs in (inf, -inf) or rhs in (inf, -inf):\n        return lhs == rhs\n", "SILENT")
    CELS = "symplyphysics/core/symbols/celsius.py"
    m("C07", "b4-from-kelvin-unchecked-regression", CELS,
      "    assert_equivalent_dimension(value, \"value\", \"from_kelvin_quantity\", units.temperature)\n", "", "U5", note="the genuine defect repaired in 65139ff")
    m("C07", "b4-from-kelvin-through-library-convert-ok", CELS,
      "    assert_equivalent_dimension(value, \"value\", \"from_kelvin_quantity\", units.temperature)\n    kelvin_value = float(value.scale_factor / Quantity(units.kelvin).scale_factor)\n",
      "    kelvin_value = float(convert_to(value, units.kelvin))\n", "SILENT",
      extra=[(CELS, "from ..dimensions import assert_equivalent_dimension\n", "from ..dimensions import assert_equivalent_dimension\nfrom ..convert import convert_to\n", 1)])
    m("C07", "b4-evaluate-expression-prefix-regression", "symplyphysics/core/convert.py",
      "    for prefix in expr.atoms(Prefix):\n        expr = expr.subs(prefix, prefix.scale_factor)\n", "", "U6", note="the genuine defect repaired in d029f70")
    m("C06", "b4-indexed-element-dimensionless-regression", "symplyphysics/core/dimensions/collect_expression.py",
      "    if isinstance(expr, Indexed) and hasattr(expr.base, \"dimension\"):\n        return expr, getattr(expr.base, \"dimension\")\n", "", "S2",
      note="the genuine defect repaired in 403b95c")
    m("C14", "b4-dot-not-commutative-regression", "symplyphysics/core/experimental/vectors/__init__.py",
      "    # dot product is a scalar, see `VectorNorm` and `VectorMixedProduct`\n    is_real = True\n    is_commutative = True\n", "", "R2", note="the genuine defect repaired in 5e2e85e")
    m("C16", "b4-power-of-vector-is-scalar-regression", "symplyphysics/core/experimental/vectors/__init__.py",
      "            if isinstance(arg, SymPow) and arg.base != 0 and is_vector_expr(arg.base):\n                return False\n", "", "Q5", note="the genuine defect repaired in 24f6c73")
    m("C04", "b4-complex-infinity-not-any-dimension-regression", "symplyphysics/core/dimensions/miscellaneous.py",
      " or\n        getattr(factor, \"is_infinite\", None) is True)", ")", "K5", note="the genuine defect repaired in 7eadc17")
    m("C03", "b4-wrapper-cached-by-display-name-regression", "symplyphysics/core/operations/symbolic.py",
      "        cls._sanitize(assumptions, cls)\n        obj = SymSymbol.__xnew__(cls, display_name, **assumptions)\n        obj.factor = expr\n",
      "        obj = super().__new__(cls, display_name, **assumptions)\n", "I4", note="the genuine defect repaired in 6afdd9a")
    m("C05", "b4-float-exponent-ok", "symplyphysics/core/dimensions/collect_quantity.py", "        dim_exp = nsimplify(exp_factor, rational=True) if exp_factor.is_Float else exp_factor", "        dim_exp = nsimplify(exp_factor, rational=True)", "SILENT")
    m("C05", "b4-float-exponent-regression", "symplyphysics/core/dimensions/collect_quantity.py", "        dim_exp = nsimplify(exp_factor, rational=True) if exp_factor.is_Float else exp_factor", "        dim_exp = exp_factor", "S6",
      note="the genuine defect repaired in 42bd8dd")
    m("C06", "b4-float-exponent-regression-c06", "symplyphysics/core/dimensions/collect_expression.py", "    dim_exp = nsimplify(exp_expr, rational=True) if exp_expr.is_Float else exp_expr", "    dim_exp = exp_expr", "S6")
    m("C02", "b4-is-ge-guard-returns-none-regression", "symplyphysics/core/symbols/quantities.py",
      "        raise ValueError(f\"Dimension of '{rhs}' is {rhs.dimension}, but it should be {lhs.dimension}\")", "        return None", "P7",
      note="the first repair (ec63bf7) was incomplete; completed in 0b985b3")
    m("C05", "b4-explicit-dimension-relabels-regression", "symplyphysics/core/symbols/quantities.py",
      "            if not dimension_system.is_dimensionless(collected) and not dimension_system.equivalent_dims(\n                    collected, dimension.subs(\"angle\", S.One)):\n                raise ValueError(f\"Dimension of '{expr}' is {dimension_}, but it should be {dimension}\")\n",
      "            pass\n", "S4", note="the genuine defect repaired in 981b32b")
    SRL = "symplyphysics/docs/symbols_role.py"
    m("C19", "b4-role-dead-refusal-regression", SRL,
      "        exported = getattr(symbols, name, None)\n        for directory, collection in _symbols_by_module.items():\n            if name in collection and getattr(getattr(symbols, directory), name) is exported:\n                break\n        else:\n            raise ValueError(f\"Unknown symbol '{name}' in '{path}'.\")\n",
      "        directory = \"\"\n        for directory, collection in _symbols_by_module.items():\n            if name in collection:\n                break\n        if not directory:\n            raise ValueError(f\"Unknown symbol '{name}' in '{path}'.\")\n",
      "D8", note="the genuine defects repaired in 3a7d4d3")
    m("C19", "b4-exec-without-finally-regression", "symplyphysics/docs/parse.py",
      "    try:\n        exec(compiled, {}, context)  # pylint: disable=exec-used\n    finally:\n        # patched module disables SymPy evaluation, do not leave it disabled if the module fails\n        reset_sympy_evaluation()\n",
      "    exec(compiled, {}, context)  # pylint: disable=exec-used\n", ("D7", "ERROR"), note="repaired in 9fdd2c0 (the digest anchor of the replica also changes: a refusal is acceptable)")
    m("C16", "b4-solve-for-scalar-first-root-only-regression", "symplyphysics/core/experimental/solvers/__init__.py",
      "        if any(equation == False for equation in equations):  # pylint: disable=singleton-comparison\n            continue\n", "", "Q4", note="the genuine defect repaired in 5c7e12c")
    m("C15", "b4-convert-vector-rewrites-components-regression", "symplyphysics/core/experimental/coordinate_systems/convert.py",
      "    return vector.subs(conversion_at_point, simultaneous=True)\n", "    return vector.subs(conversion, simultaneous=True).subs(new_point.coordinates, simultaneous=True)\n", "X4",
      note="the genuine defect repaired in f48be70")
    QDEC = "symplyphysics/core/quantity_decorator.py"
    m("C04", "b4-zero-vector-condition-on-dimension", QDEC,
      "        elif isinstance(item, QuantityVector) and all(\n                is_any_dimension(c.scale_factor) for c in item.components):",
      "        elif isinstance(item, QuantityVector) and dimsys_SI.is_dimensionless(item.dimension):", "K3",
      extra=[(QDEC, "from sympy import S\n", "from sympy import S\nfrom sympy.physics.units.systems.si import dimsys_SI\n", 1)],
      note="the proxy of seed b3_C04_2: a unit-less non-zero vector is dimensionless too")
    m("C04", "b4-zero-vector-any-instead-of-all", QDEC, "        elif isinstance(item, QuantityVector) and all(\n", "        elif isinstance(item, QuantityVector) and any(\n", "K3")
    VECS = "symplyphysics/core/vectors/vectors.py"
    INFER = ("                if CoordinateSystem.is_angle_component(coordinate_system.coord_system_type, idx):\n                    continue\n"
             "                if not is_any_dimension(q.scale_factor):\n")
    m("C04", "b4-vector-dimension-from-nonzero-compare", VECS, INFER, "                if q.scale_factor != 0:\n", "K8",
      note="the genuine defect repaired in a0aff54")
    m("C04", "b4-vector-dimension-angle-slot-not-skipped", VECS,
      "                if CoordinateSystem.is_angle_component(coordinate_system.coord_system_type, idx):\n                    continue\n", "", "K8")
    m("C04", "b4-vector-dimension-is-zero-only", VECS, "                if not is_any_dimension(q.scale_factor):\n", "                if not q.scale_factor.is_zero:\n", "K8")
    m("C04", "b4-vector-dimension-one-condition-ok", VECS, INFER,
      "                if not (CoordinateSystem.is_angle_component(coordinate_system.coord_system_type, idx) or\n"
      "                        is_any_dimension(q.scale_factor)):\n", "SILENT")
    VFM, SFM = "symplyphysics/core/fields/vector_field.py", "symplyphysics/core/fields/scalar_field.py"
    m("C13", "b4-stored-vector-field-returned-unsubstituted", VFM,
      "            components = _subs_with_point(self._point_function, self._coordinate_system, point_)\n            return Vector(components, self._coordinate_system)\n",
      "            return Vector(self._point_function, self._coordinate_system)\n", "J8", note="the genuine defect repaired in 17ef1fb")
    m("C13", "b4-stored-scalar-field-returned-unsubstituted", SFM,
      "            return _subs_with_point(self._point_function, self._coordinate_system, point_)\n", "            return self._point_function\n", "J8")
    m("C13", "b4-stored-vector-field-inline-subs-ok", VFM,
      "            components = _subs_with_point(self._point_function, self._coordinate_system, point_)\n",
      "            scalars = self._coordinate_system.coord_system.base_scalars()\n            mapping = {s: point_.coordinate(i) for i, s in enumerate(scalars)}\n"
      "            components = [c.subs(mapping, simultaneous=True) for c in self._point_function]\n", "SILENT")
    m("C13", "b4-stored-vector-field-sequential-subs", VFM,
      "            components = _subs_with_point(self._point_function, self._coordinate_system, point_)\n",
      "            components = list(self._point_function)\n            for i, s in enumerate(self._coordinate_system.coord_system.base_scalars()):\n"
      "                components = [c.subs(s, point_.coordinate(i)) for c in components]\n", "J8")
    ELEM = "symplyphysics/core/geometry/elements.py"
    m("C13", "b4-curve-element-accepts-curvilinear", ELEM,
      "    if trajectory.coordinate_system.coord_system_type != CoordinateSystem.System.CARTESIAN:\n        coord_name_from", "    if False:\n        coord_name_from", "J1",
      note="the genuine defect repaired in 6b00d99")
    m("C13", "b4-curve-element-refuses-spherical-only", ELEM,
      "    if trajectory.coordinate_system.coord_system_type != CoordinateSystem.System.CARTESIAN:\n        coord_name_from",
      "    if trajectory.coordinate_system.coord_system_type == CoordinateSystem.System.SPHERICAL:\n        coord_name_from", "J1")
    TORS = "symplyphysics/laws/dynamics/period_of_torsion_pendulum_from_rotational_inertia.py"
    DERIV = ("from sympy import solve, cos\nfrom symplyphysics import clone_as_function\n"
             "from symplyphysics.laws.dynamics.deformation import rotational_stiffness_is_torque_over_angle as stiffness_law\n"
             "from symplyphysics.laws.dynamics import torque_via_rotational_inertia_and_angular_acceleration as torque_law\n"
             "_time = symbols.time\n_restoring_torque = clone_as_function(symbols.torque, [_time])\n_twist_angle = clone_as_function(symbols.angular_distance, [_time])\n"
             "_restoring_torque_expr = -1 * solve(stiffness_law.law, stiffness_law.torque)[0].subs({\n"
             "    stiffness_law.rotational_stiffness: torsion_stiffness,\n    stiffness_law.angular_distance: %s,\n})\n"
             "_applied = torque_law.law.subs(torque_law.torque, _restoring_torque(_time)).subs({\n"
             "    _restoring_torque(_time): _restoring_torque_expr,\n    _twist_angle(_time): cos(_time),\n}%s)\n")
    TODO = "# TODO: derive from relation between restoring torque and twist angle\n"
    m("C03", "b4-chain-through-solve-and-subs", TORS, TODO, DERIV % ("_twist_angle(_time)", ""), "I6",
      note="seed b3_C03_2 (missed until the must-contain expansion learnt subs of a certainly present key and solve of a read-once law)")
    m("C03", "b4-chain-through-solve-simultaneous-ok", TORS, TODO, DERIV % ("_twist_angle(_time)", ", simultaneous=True"), "SILENT")
    m("C03", "b4-chain-through-solve-other-value-ok", TORS, TODO, DERIV % ("symbols.angular_distance", ""), "SILENT",
      note="the value of the first entry does not contain the second key")
    PARSE = "symplyphysics/docs/parse.py"
    m("C19", "b4-title-underline-must-be-as-long-as-title", PARSE,
      "    def is_section_break(line: str, char: str) -> bool:\n        return all(c == char for c in line)\n\n    lines = doc.splitlines()\n",
      "    lines = doc.splitlines()\n\n    def is_section_break(line: str, char: str) -> bool:\n        return all(c == char for c in line) and len(line) >= len(lines[lines.index(line) - 1])\n", "D9",
      note="seeds C19_1 / b3_C19_1 (refused while the title function was mirrored by a digest-pinned replica; now the function itself is evaluated on every module docstring)")
    m("C19", "b4-title-function-loop-condition-ok", PARSE,
      "    while True:\n        if not description_lines or description_lines[0]:\n            break\n        description_lines.pop(0)\n",
      "    while description_lines and not description_lines[0]:\n        description_lines.pop(0)\n", "SILENT")
    SYMB = "symplyphysics/core/symbols/symbols.py"
    m("C09", "b4-indexed-symbol-rebuilt-by-doit-regression", SYMB,
      "    def doit(self, **_hints: Any) -> IndexedSymbol:\n        # There is nothing to evaluate in an indexed symbol. SymPy would rebuild it from its label\n"
      "        # otherwise, and the rebuilt object has neither the display names nor the dimension.\n        return self\n\n", "", "N5",
      note="the genuine defect repaired in 61d1010")
    m("C09", "b4-indexed-symbol-func-identity-ok", SYMB,
      "    def doit(self, **_hints: Any) -> IndexedSymbol:\n        # There is nothing to evaluate in an indexed symbol. SymPy would rebuild it from its label\n"
      "        # otherwise, and the rebuilt object has neither the display names nor the dimension.\n        return self\n",
      "    @property\n    def func(self) -> Any:\n        return lambda *_args: self\n", "SILENT")
    m("C09", "b4-dimension-keyword-leaks-into-assumptions-regression", SYMB,
      "        display_symbol: Optional[str] = None,\n        dimension: Dimension = Dimension(S.One),  # pylint: disable=unused-argument\n        *,\n        display_latex: Optional[str] = None,\n        **assumptions: Any) -> Symbol:",
      "        display_symbol: Optional[str] = None,\n        _dimension: Dimension = Dimension(S.One),\n        *,\n        display_latex: Optional[str] = None,\n        **assumptions: Any) -> Symbol:", "N6",
      note="the genuine defect repaired in efc1fd6")
    m("C09", "b4-clone-as-indexed-without-subscript-regression", SYMB,
      "    display_latex: Optional[str] = None,\n    subscript: Optional[str] = None,\n    **assumptions: Any,\n) -> IndexedSymbol:",
      "    display_latex: Optional[str] = None,\n    **assumptions: Any,\n) -> IndexedSymbol:", "N3",
      extra=[(SYMB, "    display_symbol, display_latex = _process_subscript_and_names(display_symbol, display_latex,\n        subscript)\n\n    return IndexedSymbol(", "    return IndexedSymbol(", 1)],
      note="the genuine defect repaired in f20626e")
    SYMBOLIC = "symplyphysics/core/operations/symbolic.py"
    m("C18", "b4-wrap-flags-outside-identity-regression", SYMBOLIC,
      "        return (*super()._hashable_content(), self.factor, getattr(self, \"wrap_code\", False),\n            getattr(self, \"wrap_latex\", False))",
      "        return (*super()._hashable_content(), self.factor)", "L11", note="the genuine defect repaired in 471510b")
    PLATEX = "symplyphysics/docs/printer_latex.py"
    m("C18", "b4-indexed-sum-body-unbracketed-regression", PLATEX, "{self.parenthesize(arg, PRECEDENCE['Mul'])}\"\n\n    # pylint: disable-next=invalid-name\n    def _print_IndexedProduct",
      "{self._print(arg)}\"\n\n    # pylint: disable-next=invalid-name\n    def _print_IndexedProduct", "L10", note="the genuine defect repaired in b7cd562")
    m("C18", "b4-indexed-product-atom-precedence-regression", "symplyphysics/core/operations/product_indexed.py", "    precedence = PRECEDENCE[\"Mul\"]\n", "", "L10")
    # C09 N1: factories hand out fresh systems
    m("C09", "b2-transform-returns-argument", CSYS,
      ") -> CoordinateSystem:\n    new_coord_system = from_system.coord_system.create_new(",
      ") -> CoordinateSystem:\n    if from_system.coord_system_type == coord_system_type:\n        return from_system\n    new_coord_system = from_system.coord_system.create_new(", "N1")
    m("C09", "b2-transform-local-rename-ok", CSYS,
      "    return CoordinateSystem(coord_system_type, new_coord_system)", "    result = CoordinateSystem(coord_system_type, new_coord_system)\n    return result", "SILENT")
    # C11 T5 / T7 / T8 (abstract evaluation of the substitution steps)
    NEWSUBS = "    substitutions = {scalar: point_.coordinate(i) for i, scalar in enumerate(base_scalars)}\n    return expression.subs(substitutions, simultaneous=True)\n"
    m("C11", "b2-subs-zip-truncates", SF, NEWSUBS, "    return expression.subs(dict(zip(base_scalars, point_.coordinates)), simultaneous=True)\n", "T7")
    m("C11", "b2-subs-sequential-regression", SF, NEWSUBS,
      "    for i, scalar in enumerate(base_scalars):\n        expression = expression.subs(scalar, point_.coordinate(i))\n    return expression\n", "T8",
      note="the genuine defect repaired in 34ab32b")
    m("C11", "b2-subs-dict-not-simultaneous", SF, "    return expression.subs(substitutions, simultaneous=True)\n", "    return expression.subs(substitutions)\n", "T8")
    m("C11", "b2-subs-shifted-index", SF, "{scalar: point_.coordinate(i) for i, scalar in enumerate(base_scalars)}", "{scalar: point_.coordinate(i + 1) for i, scalar in enumerate(base_scalars)}", "T7")
    m("C11", "b2-subs-loop-built-dict-ok", SF, NEWSUBS,
      "    substitutions = {}\n    for i, scalar in enumerate(base_scalars):\n        substitutions[scalar] = point_.coordinate(i)\n    return expression.subs(substitutions, simultaneous=True)\n", "SILENT")
    m("C11", "b2-vfield-sequential-regression", VFL, "        result.append(expression.subs(substitutions, simultaneous=True))",
      "        for i, scalar in enumerate(base_scalars):\n            expression = expression.subs(scalar, point_.coordinate(i))\n        result.append(expression)", "T8")
    m("C11", "b2-rebase-sequential-regression", VEC,
      "            new_scalars = [\n                old_scalar.subs(substitutions, simultaneous=True) for old_scalar in new_scalars\n            ]",
      "            for scalar, new_component in substitutions.items():\n                for j, old_scalar in enumerate(new_scalars):\n                    new_scalars[j] = old_scalar.subs(scalar, new_component)", "T5")
    m("C11", "b2-rebase-wrong-direction", VEC, "                self.coordinate_system.transformation_to_system(\n                coordinate_system.coord_system_type))",
      "                coordinate_system.transformation_to_system(\n                self.coordinate_system.coord_system_type))", "T5")
    m("C11", "b2-field-rebase-two-scalars", SF, "            for i, scalar in enumerate(self.coordinate_system.coord_system.base_scalars()):\n                field_space_expr = field_space_expr.subs(scalar, new_scalars[i])",
      "            for i, scalar in enumerate(self.coordinate_system.coord_system.base_scalars()[:2]):\n                field_space_expr = field_space_expr.subs(scalar, new_scalars[i])", "T5")
    # C13 J7
    m("C13", "b2-posify-magnitude", GE,
      "    return vector_magnitude(parametrized_curve_element(trajectory, parameter))",
      "    magnitude = vector_magnitude(parametrized_curve_element(trajectory, parameter))\n    (positive, reps) = posify(magnitude)\n    return positive.subs(reps)", "J7",
      extra=[(GE, "from sympy import Expr, diff, sin, S", "from sympy import Expr, diff, posify, sin, S", 1)])
    AN = "symplyphysics/core/fields/analysis.py"
    m("C13", "b2-green-divergence-not-evaluated-regression", AN, "    flux_value = integrate(field_divergence_applied * surface_element_magnitude,", "    flux_value = integrate(field_divergence * surface_element_magnitude,", "J5",
      note="the genuine defect repaired in 94f7f9a")
    m("C13", "b2-circulation-field-at-origin", AN, "    field_applied = field.apply(trajectory)\n    curve_element_vector", "    field_applied = field.apply([0 for _ in trajectory])\n    curve_element_vector", "J1")
    # C14 R2 key / R4 hooks
    m("C14", "b2-key-by-display", VE, "    key = key or id", "    key = key or str", "R2")
    m("C14", "b2-hook-rhs-swapped", VE, "            result = rhs._eval_vector_cross(lhs, rhs)", "            result = rhs._eval_vector_cross(rhs, lhs)", "R4")
    m("C14", "b2-hook-doit-order-swapped", VE, "        lhs, rhs = lhs.doit(), rhs.doit()\n\n        if isinstance(lhs, VectorExpr):\n            result = lhs._eval_vector_cross(lhs, rhs)",
      "        lhs, rhs = rhs.doit(), lhs.doit()\n\n        if isinstance(lhs, VectorExpr):\n            result = lhs._eval_vector_cross(lhs, rhs)", ("R4", "R2", "R1"))
    # C14 R5 termination (three genuine defects repaired in b778f65, 407cdd1, 5bb005f)
    m("C14", "b2-derivative-not-atomic-regression", VE, "    return isinstance(value, (VectorSymbol, AppliedVectorFunction, VectorDerivative))", "    return isinstance(value, (VectorSymbol, AppliedVectorFunction))", "R5")
    m("C14", "b2-mixed-derivative-via-dot-regression", VE,
      "        derived_a = VectorMixedProduct(a.diff(symbol), b, c)\n        derived_b = VectorMixedProduct(a, b.diff(symbol), c)\n        derived_c = VectorMixedProduct(a, b, c.diff(symbol))\n\n        return derived_a + derived_b + derived_c  # type: ignore[no-any-return]",
      "        return VectorDot(a, VectorCross(b, c)).diff(symbol)", "R5")
    m("C14", "b2-second-derivative-self-diff-regression", VE, "        return super()._eval_derivative(symbol)", "        return super().diff(symbol)", "R5")
    m("C14", "b2-norm-derivative-unguarded-doit", VE, "        if not isinstance(done, VectorNorm):\n            return done.diff(symbol)", "        if done != self:\n            return done.diff(symbol)", "R5",
      note="doit() can return an equal-class VectorNorm that differs structurally; only the class test guarantees progress")
    m("C14", "b2-cross-derivative-renamed-ok", VE, "        lhs, rhs = self.args\n\n        derived_lhs = VectorCross(lhs.diff(symbol), rhs)\n        derived_rhs = VectorCross(lhs, rhs.diff(symbol))",
      "        first, second = self.args\n\n        derived_lhs = VectorCross(first.diff(symbol), second)\n        derived_rhs = VectorCross(first, second.diff(symbol))", "SILENT")
    # C15 X1 grid / X6
    m("C15", "b2-mod-two-pi-one-site", SC, "        rho: sqrt(x**2 + y**2),\n        phi: atan2(y, x),", "        rho: sqrt(x**2 + y**2),\n        phi: Mod(atan2(y, x), 2 * pi),", "X6",
      extra=[(SC, "from sympy import Expr, atan2, cos, sin, sqrt, Symbol as SymSymbol", "from sympy import Expr, Mod, atan2, cos, pi, sin, sqrt, Symbol as SymSymbol", 1)])
    m("C15", "b2-mod-both-sites", SC, "        phi: atan2(y, x),", "        phi: Mod(atan2(y, x), 2 * pi),", "X6", count=2,
      extra=[(SC, "from sympy import Expr, atan2, cos, sin, sqrt, Symbol as SymSymbol", "from sympy import Expr, Mod, atan2, cos, pi, sin, sqrt, Symbol as SymSymbol", 1)],
      note="consistent between the two Cartesian tables, but the round trip cyl -> cart -> cyl leaves (-pi, pi]")
    m("C15", "b2-piecewise-x-only", SC, "        rho: sqrt(x**2 + y**2),\n        phi: atan2(y, x),", "        rho: sqrt(x**2 + y**2),\n        phi: Piecewise((S.Zero, Eq(x, 0)), (atan2(y, x), True)),", "X1",
      extra=[(SC, "from sympy import Expr, atan2, cos, sin, sqrt, Symbol as SymSymbol", "from sympy import Eq, Expr, Piecewise, S, atan2, cos, sin, sqrt, Symbol as SymSymbol", 1)])
    m("C15", "b2-piecewise-axis-only-refused", SC, "        rho: sqrt(x**2 + y**2),\n        phi: atan2(y, x),",
      "        rho: sqrt(x**2 + y**2),\n        phi: Piecewise((S.Zero, Eq(x, 0) & Eq(y, 0)), (atan2(y, x), True)),", "ERROR",
      extra=[(SC, "from sympy import Expr, atan2, cos, sin, sqrt, Symbol as SymSymbol", "from sympy import Eq, Expr, Piecewise, S, atan2, cos, sin, sqrt, Symbol as SymSymbol", 1)],
      note="a guard that only touches the z axis (outside the domain) keeps the property; the exact comparison cannot read it, so the analysis refuses - it must not report")
    m("C15", "b2-helper-inlined-ok", SC, "        rho: sqrt(x**2 + y**2),\n        phi: atan2(y, x),", "        rho: sqrt(x**2 + y**2),\n        phi: _azimuth(x, y),", "SILENT",
      extra=[(SC, "ScalarMapping: TypeAlias = Mapping[SymSymbol, Expr]\n", "ScalarMapping: TypeAlias = Mapping[SymSymbol, Expr]\n\n\ndef _azimuth(x: Expr, y: Expr) -> Expr:\n    return atan2(y, x)\n", 1)])
    CVT = "symplyphysics/core/experimental/coordinate_systems/convert.py"
    m("C15", "b2-convert-point-sequential-regression", CVT, "        expr.subs(point.coordinates, simultaneous=True) for expr in conversion.values()", "        expr.subs(point.coordinates) for expr in conversion.values()", "X4",
      note="the genuine defect repaired in f7b2249")
    m("C15", "b2-convert-vector-sequential-regression", CVT, "        old_vector: new_vectors.subs(new_point.coordinates, simultaneous=True)\n",
      "        old_vector: new_vectors.subs(new_point.coordinates)\n", "X4")
    m("C15", "b2-convert-point-loop-form-ok", CVT, "    new_coordinates = [\n        expr.subs(point.coordinates, simultaneous=True) for expr in conversion.values()\n    ]",
      "    new_coordinates = []\n    for expr in conversion.values():\n        new_coordinates.append(expr.subs(point.coordinates, simultaneous=True))", "SILENT")
    m("C15", "b2-convert-vector-old-point-coordinates", CVT, "        old_vector: new_vectors.subs(new_point.coordinates, simultaneous=True)\n", "        old_vector: new_vectors.subs(old_point.coordinates, simultaneous=True)\n", "X4")
    # C16 Q4 / Q5
    m("C16", "b2-solve-check-disabled", SOLV, '    flags["dict"] = True\n', '    flags["dict"] = True\n    flags.setdefault("check", False)\n', "Q4")
    m("C16", "b4-solve-check-disabled-for-vector-equations", SOLV, '    flags["dict"] = True\n',
      '    flags["dict"] = True\n    if sympify(f).has(VectorSymbol):\n        flags.setdefault("check", False)\n', "Q4",
      note="seed C16_3 as rebased: the flag is switched off on a path the evaluator cannot follow; the spelling rule decides before the evaluation refuses")
    m("C16", "b2-first-vector-decides", VE, "            if is_vector_expr(arg):\n                n_vectors += 1\n                continue\n", "            if is_vector_expr(arg):\n                return True\n", ("Q5", ))
    m("C16", "b2-no-refusal-of-products", VE, '            case _:\n                raise ValueError("A vector can only be multiplied by a scalar.")', "            case _:\n                return True", "Q5")
    # C18 L3..L6
    m("C18", "b2-name-surgery", SYM, '    return f"{code_name}_{subscript}", f"{latex_name}_{{{subscript}}}"',
      '    base, _, old = latex_name.rpartition("_")\n    if base:\n        return f"{code_name}_{subscript}", f"{base}_{{{old.strip(\'{}\')}, {subscript}}}"\n    return f"{code_name}_{subscript}", f"{latex_name}_{{{subscript}}}"', "L3")
    m("C18", "b2-exp-early-return", PL, '        args_str = self._print(expr.args[0])\n        name = f"{args_str}" if can_fold_brackets',
      '        args_str = self._print(expr.args[0])\n        if expr.args[0].is_Atom:\n            return f"e^{{{args_str}}}"\n        name = f"{args_str}" if can_fold_brackets', "L4")
    m("C18", "b2-log-guarded-early-return-ok", PL, '        return log_str if exp is None else f"{log_str}^{{{exp}}}"',
      '        if exp is None:\n            return log_str\n        return f"{log_str}^{{{exp}}}"', "SILENT")
    m("C18", "b2-float-six-digits", PL, "    # pylint: disable-next=invalid-name\n    def _print_IndexedSymbol(self, expr: Any) -> str:",
      '    def _print_Float(self, expr: Any) -> str:\n        return f"{float(expr):.6g}"\n\n    # pylint: disable-next=invalid-name\n    def _print_IndexedSymbol(self, expr: Any) -> str:', "L5")
    m("C18", "b2-literal-exp-placeholder", PL, '        return log_str if exp is None else f"{log_str}^{{{exp}}}"', '        return log_str if exp is None else f"{log_str}^{{exp}}"', ("L6", "L4"))
    # C19 D8
    m("C19", "b2-symbol-registered-once", SR, "            if isinstance(_sub_obj, Symbol):\n", "            if isinstance(_sub_obj, Symbol) and _sub_obj not in _seen:\n                _seen.add(_sub_obj)\n", "D8",
      extra=[(SR, "_unincluded: list[str] = []\n", "_unincluded: list[str] = []\n_seen: set[Symbol] = set()\n", 1)])
    m("C19", "b2-quantity-filter-private", QR, "    if isinstance(_obj, Quantity):\n", "    if isinstance(_obj, Quantity) and not _attr.endswith(\"_constant\"):\n", "D8")
    m("C19", "b2-view-literal-placeholder", PL, '        return log_str if exp is None else f"{log_str}^{{{exp}}}"', '        return log_str if exp is None else f"{log_str}^{{exp}}"', "D8")
    # C20 R5 / I3
    m("C20", "b2-evaluate-in-place", CONV, "    scale_factor_ = quantity.scale_factor.evalf(**kwargs)\n    dimension = quantity.dimension\n    return Quantity(scale_factor_, dimension=dimension)",
      "    SI.set_quantity_scale_factor(quantity, quantity.scale_factor.evalf(**kwargs))\n    return quantity", "R5",
      extra=[(CONV, "from sympy.physics.units import Quantity as SymQuantity\n", "from sympy.physics.units import Quantity as SymQuantity\nfrom sympy.physics.units.systems.si import SI\n", 1)])
    m("C20", "b2-setter-on-other-object", QTY, "        SI.set_quantity_scale_factor(self, scale)", "        SI.set_quantity_scale_factor(self, scale)\n        SI.set_quantity_scale_factor(expr, scale)", "R5")
    m("C20", "b2-thread-local-counters", IDG, "_ids: dict[str, int] = {}", "import threading\n_state = threading.local()\n_ids: dict[str, int] = {}", "I3")
    m("C03", "b2-thread-local-counters-c03", IDG, "_ids: dict[str, int] = {}", "import threading\n_state = threading.local()\n_ids: dict[str, int] = {}", "I3")
