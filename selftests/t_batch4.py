"""mutants for the rules added after the fourth round of seeded changes; alarms come with a behaviour-preserving twin where one exists"""
MS = "symplyphysics/laws/electricity/circuits/transmission_lines/microstrip_lines/short_circuit_inductance_of_microstrip_line.py"
QTY = "symplyphysics/core/symbols/quantities.py"
CONV = "symplyphysics/core/convert.py"
XCS = "symplyphysics/core/experimental/coordinate_systems/coordinate_systems.py"
VE = "symplyphysics/core/experimental/vectors/__init__.py"
PL = "symplyphysics/docs/printer_latex.py"
VIEW = "symplyphysics/docs/view.py"
QS = "symplyphysics/quantities/__init__.py"
SOLV = "symplyphysics/core/experimental/solvers/__init__.py"
QD = "symplyphysics/core/quantity_decorator.py"
VEC = "symplyphysics/core/vectors/vectors.py"
AR = "symplyphysics/core/vectors/arithmetics.py"
CQ = "symplyphysics/core/dimensions/collect_quantity.py"
CE = "symplyphysics/core/dimensions/collect_expression.py"


def register(m):
    # ---- C01: a mismatch inside a private intermediate of a published relation
    m("C01", "b6-mismatch-in-private-intermediate", MS, "    _third_expression = 1.5 * (radius - _first_expression)\n",
      "    _third_expression = 1.5 * (radius - _first_expression / substrate_thickness)\n", "H2", note="seed b4_C01_1")
    m("C01", "b6-private-intermediate-renamed-ok", MS, "_third_expression", "_last_term", "SILENT", count=2)
    # ---- C02-P7: every dispatch overload of _eval_is_ge
    OVER = ("\n\n@dispatch(Quantity, Number)  # type: ignore[misc,no-redef]\ndef _eval_is_ge(lhs: Quantity, rhs: Number) -> Optional[bool]:  # pylint: disable=function-redefined\n%s"
            "    return scale_factor(lhs) >= float(rhs)\n\n\ndef subs_list(\n")
    GUARD = ("    if not SI.get_dimension_system().is_dimensionless(lhs.dimension):\n        raise ValueError(f\"Dimension of '{lhs}' is {lhs.dimension}, but it should be dimensionless\")\n")
    m("C02", "b6-quantity-ordered-against-number-unguarded", QTY, "\n\ndef subs_list(\n", OVER % "", "P7", note="seed b4_C05_2",
      extra=[(QTY, "from sympy import S, Expr, sympify, Abs", "from sympy import S, Expr, Number, sympify, Abs", 1)])
    m("C02", "b6-quantity-ordered-against-number-guarded-ok", QTY, "\n\ndef subs_list(\n", OVER % GUARD, "SILENT",
      extra=[(QTY, "from sympy import S, Expr, sympify, Abs", "from sympy import S, Expr, Number, sympify, Abs", 1)])
    # ---- C07-U6: evalf options
    m("C07", "b6-evalf-chops-by-default", CONV, "    for qty in expr.atoms(SymQuantity):\n        si_value = convert_to_si(qty)\n",
      "    if evaluate:\n        kwargs.setdefault(\"chop\", True)\n\n    for qty in expr.atoms(SymQuantity):\n        si_value = convert_to_si(qty)\n", "U6", note="seed b4_C07_2")
    m("C07", "b6-evalf-options-through-a-copy-ok", CONV, "            si_value = si_value.evalf(**kwargs)\n", "            options = dict(kwargs)\n            si_value = si_value.evalf(**options)\n", "SILENT")
    # ---- C09-N7: memoised symbol makers
    m("C09", "b6-base-vectors-memoised", XCS, "    @staticmethod\n    def _generate_base_vectors() -> tuple[VectorFunction, VectorFunction, VectorSymbol]:\n",
      "    @staticmethod\n    @cache\n    def _generate_base_vectors() -> tuple[VectorFunction, VectorFunction, VectorSymbol]:\n", "N7", note="seed b4_C09_2",
      extra=[(XCS, "from __future__ import annotations\n", "from __future__ import annotations\nfrom functools import cache\n", 1)])
    # ---- C14-R6: absolute homogeneity of the norm
    m("C14", "b6-norm-loses-abs", VE, "        return cls(vector, evaluate=False) * abs(factor)\n", "        return cls(vector, evaluate=False) * factor\n", "R6")
    m("C14", "b6-norm-abs-spelled-Abs-ok", VE, "        return cls(vector, evaluate=False) * abs(factor)\n", "        scale = abs(factor)\n        return scale * cls(vector, evaluate=False)\n", "SILENT")
    # ---- C18-L12 / L13
    OVR = ("    def _needs_mul_brackets(self, expr: Expr, first: bool = False, last: bool = False) -> bool:\n%s\n    def _needs_add_brackets(self, expr: Expr) -> bool:\n")
    m("C18", "b6-mul-brackets-override-drops-brackets", PL, "    def _needs_add_brackets(self, expr: Expr) -> bool:\n",
      OVR % "        if expr.is_Relational:\n            return not last\n        return bool(super()._needs_mul_brackets(expr, first=first, last=last))\n", "L12", note="seed b4_C18_1")
    m("C18", "b6-mul-brackets-override-only-adds-ok", PL, "    def _needs_add_brackets(self, expr: Expr) -> bool:\n",
      OVR % "        if expr.is_Relational:\n            return True\n        return bool(super()._needs_mul_brackets(expr, first=first, last=last))\n", "SILENT")
    m("C18", "b6-printer-kept-across-calls", PL, "    printer = SymbolLatexPrinter(settings)\n",
      "    global _printer  # pylint: disable=global-statement\n    if _printer is None or settings:\n        _printer = SymbolLatexPrinter(settings)\n    printer = _printer\n", "L13", note="seed b4_C18_2",
      extra=[(PL, "\ndef latex_str(expr: Any, **settings: Any) -> str:\n", "\n_printer = None\n\n\ndef latex_str(expr: Any, **settings: Any) -> str:\n", 1)])
    m("C18", "b6-default-printer-kept-ok", PL, "    printer = SymbolLatexPrinter(settings)\n",
      "    global _default_printer  # pylint: disable=global-statement\n    if settings:\n        printer = SymbolLatexPrinter(settings)\n    else:\n        if _default_printer is None:\n"
      "            _default_printer = SymbolLatexPrinter({})\n        printer = _default_printer\n", "SILENT",
      extra=[(PL, "\ndef latex_str(expr: Any, **settings: Any) -> str:\n", "\n_default_printer = None\n\n\ndef latex_str(expr: Any, **settings: Any) -> str:\n", 1)])
    # ---- C19-D10: page composition
    m("C19", "b6-package-page-without-contents-loses-members", VIEW, "    footer = _FOOTER_TEMPLATE.format(\n        members=_members_to_doc(members, doc_name),\n        functions=_functions_to_doc(functions),\n    )\n    results.append(footer)\n",
      "    if not (packages or laws):\n        return header + \"\\n\"\n\n    footer = _FOOTER_TEMPLATE.format(\n        members=_members_to_doc(members, doc_name),\n        functions=_functions_to_doc(functions),\n    )\n    results.append(footer)\n",
      "D10", note="seed b4_C19_1")
    m("C19", "b6-package-page-joined-differently-ok", VIEW, "    return \"\\n\\n\".join(results)\n", "    text = results[0]\n    for part in results[1:]:\n        text = text + \"\\n\\n\" + part\n    return text\n", "SILENT")
    # ---- C20: constants added later
    NEW = ("\nvacuum_impedance = Quantity(376.730313412 * units.ohm, display_symbol=\"Z_0\")")
    m("C20", "b6-new-constant-wrong-value", QS, NEW, "\nproton_rest_mass = Quantity(1.67262192369e-27, dimension=units.mass, display_symbol=\"m_p\")\n\"\"\"proton.\"\"\"\n" + NEW, "R2",
      note="seed b4_C20_2 in one site: a bare number with dimension= is SymPy's gram-based scale factor")
    m("C20", "b6-new-constant-right-value-ok", QS, NEW, "\nproton_rest_mass = Quantity(1.67262192369e-27 * units.kilogram, display_symbol=\"m_p\")\n\"\"\"proton.\"\"\"\n" + NEW, "SILENT")
    m("C20", "b6-new-constant-unknown-name-refused", QS, NEW, "\nmuon_rest_mass = Quantity(1.883531627e-28 * units.kilogram, display_symbol=\"m_mu\")\n\"\"\"muon.\"\"\"\n" + NEW, "ERROR")
    # ---- C16-Q4: the caller's keywords
    m("C16", "b6-solve-flags-kept-in-module", SOLV, "    flags[\"dict\"] = True\n", "    _SOLVE_FLAGS.update(flags, dict=True)\n    flags = _SOLVE_FLAGS\n", "Q4", note="seed b4_C16_2",
      extra=[(SOLV, "\ndef apply(", "\n_SOLVE_FLAGS: dict = {\"dict\": True}\n\n\ndef apply(", 1)])
    m("C16", "b6-solve-flags-copied-ok", SOLV, "    flags[\"dict\"] = True\n", "    flags = dict(flags, dict=True)\n", "SILENT")
    # ---- C04-K3: vectors whose own dimension is angle
    m("C04", "b6-angular-components-do-not-count-for-zero-vector", QD, "is_any_dimension(c.scale_factor) for c in item.components):\n",
      "is_any_dimension(c.scale_factor) for c in item.components if c.dimension != angle_type):\n", "K3", note="seed b4_C04_1",
      extra=[(QD, "from .vectors.vectors import QuantityVector\n", "from .vectors.vectors import QuantityVector\nfrom .dimensions.miscellaneous import angle_type\n", 1)])
    # ---- C10: |x| of a generic component, silent re-expression
    m("C10", "b6-unit-vector-by-abs", AR, "def vector_unit(vector_: Vector) -> Vector:\n", "def vector_unit(vector_: Vector) -> Vector:\n    if len(vector_.components) == 1 and vector_.coordinate_system.coord_system_type == CoordinateSystem.System.CARTESIAN:\n"
      "        return scale_vector(1 / Abs(vector_.components[0]), vector_)\n", ("V2", "V3"), note="seed b4_C10_2",
      extra=[(AR, "from sympy import S, Expr, cos, sin, sqrt, sympify, diff, integrate", "from sympy import S, Abs, Expr, cos, sin, sqrt, sympify, diff, integrate", 1)])
    # ---- C05/C06: float exponents that are no small fraction
    m("C05", "b6-float-exponent-rounded-to-a-nice-fraction", CQ, "nsimplify(exp_factor, rational=True)", "nsimplify(exp_factor, rational=True, tolerance=1e-3)", ("S1", "S3"), note="seed b4_C02_2 (dimension part)")
    m("C06", "b6-float-exponent-by-binary-value", CE, "nsimplify(exp_expr, rational=True)", "Rational(exp_expr)", ("S1", "S3"), note="seed b4_C06_1",
      extra=[(CE, "from sympy import (", "from sympy import Rational\nfrom sympy import (", 1)])
