V = "symplyphysics/core/experimental/vectors/__init__.py"
MI = "symplyphysics/core/experimental/miscellaneous.py"


def register(m):
    m("C14", "c14-binet-cauchy-regression", V, "return VectorDot(a, c) * VectorDot(b, d) - VectorDot(b, c) * VectorDot(a, d)",
      "return VectorDot(a, b) * VectorDot(c, d) - VectorDot(b, c) * VectorDot(a, d)", "R1")
    m("C14", "c14-bac-cab-sign", V, "            return b * VectorDot(rhs, a) - a * VectorDot(rhs, b)", "            return a * VectorDot(rhs, b) - b * VectorDot(rhs, a)", "R1")
    m("C14", "c14-triple-cross-swapped", V, "            return c * VectorDot(lhs, d) - d * VectorDot(lhs, c)", "            return c * VectorDot(lhs, c) - d * VectorDot(lhs, d)", "R1")
    m("C14", "c14-mixed-order", V, "            return VectorMixedProduct(rhs, a, b)", "            return VectorMixedProduct(rhs, b, a)", "R1")
    m("C14", "c14-cross-cross", V, "return c * VectorMixedProduct(d, a, b) - d * VectorMixedProduct(c, a, b)", "return c * VectorMixedProduct(d, a, b) + d * VectorMixedProduct(c, a, b)", "R1")
    m("C14", "c14-equivalent-rule-ok", V, "            return VectorMixedProduct(rhs, a, b)", "            return VectorMixedProduct(a, b, rhs)", "SILENT")
    m("C14", "c14-cross-sign-dropped", V, "                result += cross * factor * sign", "                result += cross * factor", "R2")
    m("C14", "c14-dot-multiplied-by-sign", V, "                result += dot * factor\n\n        return result", "                result += dot * factor * sign\n\n        return result", "R2")
    m("C14", "c14-mixed-sign-dropped", V, "                result += mixed * factor * sign", "                result += mixed * factor", "R2")
    m("C14", "c14-mixed-expansion-order", V, "                    mixed = VectorDot(u, VectorCross(v, w))", "                    mixed = VectorDot(u, VectorCross(w, v))", "R2")
    m("C14", "c14-dot-self-not-squared", V, "                    dot = VectorNorm(v)**2", "                    dot = VectorNorm(v)", "R2")
    m("C14", "c14-cross-self-kept", V, "            # Cross product is zero when arguments are equal\n            if sign == 0:\n                continue\n", "", "SILENT",
      note="behaviour-preserving after all: the general branch multiplies the term by sign, which is 0 - the old shape rule demanded the explicit case")
    m("C14", "c14-sign-negated", MI, "        sign = Permutation(indices).signature()", "        sign = -Permutation(indices).signature()", "R2")
    m("C14", "c14-repeats-not-zero", MI, "    if len(set(indices)) != len(indices):\n        sign = 0\n    else:\n        sign = Permutation(indices).signature()", "    sign = Permutation(indices).signature()", "R2")
    m("C14", "c14-dot-derivative-one-sided", V, "        derived_rhs = VectorDot(lhs, rhs.diff(symbol))\n\n        return derived_lhs + derived_rhs", "        derived_rhs = VectorDot(lhs, rhs.diff(symbol))\n\n        return derived_lhs", "R3")
    m("C14", "c14-cross-derivative-minus", V, "        derived_rhs = VectorCross(lhs, rhs.diff(symbol))\n\n        return derived_lhs + derived_rhs", "        derived_rhs = VectorCross(lhs, rhs.diff(symbol))\n\n        return derived_lhs - derived_rhs", "R3")
    m("C14", "c14-norm-derivative", V, "        return VectorDot(vector, vector.diff(symbol)) / done", "        return VectorDot(vector, vector.diff(symbol)) / (2 * done)", "R3")
    m("C14", "c14-mixed-derivative", V, "        derived_b = VectorMixedProduct(a, b.diff(symbol), c)", "        derived_b = VectorMixedProduct(b.diff(symbol), a, c)", "R3")
