A = "symplyphysics/laws/dynamics/acceleration_is_force_over_mass.py"
V = "symplyphysics/laws/dynamics/vector/acceleration_from_force.py"
EXP = "symplyphysics/laws/thermodynamics/volumetric_and_linear_expansion_coefficients_in_isotropic_materials.py"
IDG = "symplyphysics/core/symbols/id_generator.py"
AVG = "symplyphysics/laws/thermodynamics/average_kinetic_energy_of_ideal_gas_from_temperature.py"


def register(m):
    m("C03", "c03-name-cycle", A, "from symplyphysics.core.expr_comparisons import expr_equals",
      "from symplyphysics.core.expr_comparisons import expr_equals\nfrom symplyphysics.laws.dynamics.vector.acceleration_from_force import acceleration_law as _al",
      "I1", extra=[(V, "from symplyphysics.core.expr_comparisons import expr_equals",
                    "from symplyphysics.core.expr_comparisons import expr_equals\nfrom symplyphysics.laws.dynamics.acceleration_is_force_over_mass import law as _scalar_law", 1)])
    m("C03", "c03-import-missing-name", A, "from symplyphysics.core.expr_comparisons import expr_equals", "from symplyphysics.core.expr_comparisons import expr_equal", "I1")
    m("C03", "c03-removed-attribute", A, "acceleration_law_vector.mass,", "acceleration_law_vector.body_mass,", "I2")
    m("C03", "c03-arity-regression", EXP, "volumetric_def.volume(volumetric_def.temperature, volumetric_def.parameters):",
      "volumetric_def.volume(volumetric_def.temperature):", "I5")
    m("C03", "c03-module-level-mutation", A, "\nlaw = Eq(", "\nsymbols.mass._dimension = symbols.force.dimension\n\nlaw = Eq(", "I3")
    m("C03", "c03-global-evaluate-off", A, "from sympy import (Eq, solve)", "from sympy import (Eq, solve)\nfrom sympy.core.parameters import global_parameters\nglobal_parameters.evaluate = False", "I3")
    m("C03", "c03-counter-reset", A, "\nlaw = Eq(", "\nfrom symplyphysics.core.symbols import id_generator as _g\n_g._ids['SYM'] = 0\n\nlaw = Eq(", "I3")
    m("C03", "c03-counter-not-incremented", IDG, "id_val = 1 if id_val is None else id_val + 1", "id_val = 1 if id_val is None else id_val", "I3")
    m("C03", "c03-counter-clear-fn", IDG, "def last_id(base: str) -> int:", "def reset_ids() -> None:\n    _ids.clear()\n\n\ndef last_id(base: str) -> int:", "I3")
    m("C03", "c03-wrapper-alias", AVG, "average_kinetic_energy = Average(symbols.kinetic_energy)",
      "average_kinetic_energy = Average(symbols.kinetic_energy)\n_other = Average(clone_as_symbol(symbols.kinetic_energy))", "SILENT",
      note="harmless since fix 6afdd9a: wrappers are told apart by their argument, not by its display string")
    m("C03", "c03-reorder-imports-ok", A, "from sympy import (Eq, solve)\n", "", "SILENT",
      extra=[(A, "from symplyphysics.core.expr_comparisons import expr_equals", "from symplyphysics.core.expr_comparisons import expr_equals\nfrom sympy import (Eq, solve)", 1)])


_o3 = register


def register(m):
    _o3(m)
    F = "symplyphysics/laws/optics/focal_length_of_a_concave_spherical_mirror.py"
    m("C03", "c03-chained-subs-regression", F, "    },\n    simultaneous=True)", "    })", "I6")
    m("C03", "c03-chained-subs-new-site", A, "    result_expr = result_force_expr.subs({mass: mass_, acceleration: acceleration_})",
      "    result_expr = result_force_expr.subs({mass: acceleration, acceleration: mass}).subs({mass: mass_, acceleration: acceleration_})", "I6")
    m("C03", "c03-sequential-subs-ok", F, "    },\n    simultaneous=True)", "    }, simultaneous=True).subs({})", "SILENT")
