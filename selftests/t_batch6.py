"""mutants for the rules added after the sixth round of seeded changes; alarms come with a behaviour-preserving twin where one exists"""
CS = "symplyphysics/core/coordinate_systems/coordinate_systems.py"
AR = "symplyphysics/core/vectors/arithmetics.py"
VEC = "symplyphysics/core/vectors/vectors.py"
OPS = "symplyphysics/core/fields/operators.py"
PL = "symplyphysics/docs/printer_latex.py"
SOLV = "symplyphysics/core/experimental/solvers/__init__.py"
CONV = "symplyphysics/core/convert.py"
XCONV = "symplyphysics/core/experimental/coordinate_systems/convert.py"
CE = "symplyphysics/core/dimensions/collect_expression.py"
CHEM = "symplyphysics/symbols/chemistry.py"
OPT = "symplyphysics/symbols/optics.py"

LEN = ("    def components(self) -> Sequence[Expr]:\n        return self._components\n",
       "    def components(self) -> Sequence[Expr]:\n        return self._components\n\n    def __len__(self) -> int:\n        return len(self._components)\n", 1)
LOOP_OLD = "    result = vectors[0]\n    for vector in vectors[1:]:\n        result = add_two_cartesian_vectors(result, vector)\n"
CART = "    if field.coordinate_system.coord_system_type == CoordinateSystem.System.CARTESIAN:\n"
PROP = ("    @property\n    def coord_system_type(self) -> System:\n        return self._coord_system_type\n",
        "    @property\n    def coord_system_type(self) -> System:\n        return self._coord_system_type\n\n    @property\n    def is_cartesian(self) -> bool:\n"
        "        return self._coord_system_type == self.System.CARTESIAN\n", 1)


def register(m):
    # ---- C16-Q3: the term that moves is the one vector_equals found, however it is written
    m("C16", "b8-moved-term-removed-by-structural-comparison", SOLV, "    combination_rhs = combination[:i] + combination[i + 1:]\n",
      "    combination_rhs = tuple(pair for pair in combination if pair != (atomic, combination[i][1]))\n", "Q3", note="seed b6_C16_1")
    m("C16", "b8-moved-term-removed-by-position-ok", SOLV, "    combination_rhs = combination[:i] + combination[i + 1:]\n",
      "    combination_rhs = tuple(pair for j, pair in enumerate(combination) if j != i)\n", "SILENT")
    # ---- C18-L16: -1 * (sum) keeps its brackets
    m("C18", "b8-bare-minus-one-leaves-no-factor", PL, "            if term_sign:\n                sign = not sign\n            terms.append(term)\n",
      "            if term_sign:\n                sign = not sign\n                if term == S.One:\n                    continue\n            terms.append(term)\n", "L16", note="seed b6_C18_1")
    m("C18", "b8-sign-toggled-by-xor-ok", PL, "            if term_sign:\n                sign = not sign\n            terms.append(term)\n",
      "            sign = sign != term_sign\n            terms.append(term)\n", "SILENT")
    # ---- C19-D12: the page a :symbols: role links to defines the name
    m("C19", "b8-symbol-kept-by-import-in-the-earlier-module", CHEM, "diffusion_coefficient = Symbol(\"D\", units.area / units.time)\n",
      "from symplyphysics.symbols.classical_mechanics import diffusion_coefficient\n", "D12", note="seed b6_C19_1")
    m("C19", "b8-symbol-kept-by-import-in-the-later-module-ok", OPT, "irradiance = Symbol(\"E_e\", units.power / units.area, display_latex=\"E_\\\\text{e}\")\n",
      "from symplyphysics.symbols.astronomy import irradiance\n", "SILENT", note="astronomy sorts before optics: the role resolves to the defining module")
    # ---- C20-R6: a submodule named like a constant
    m("C20", "b8-submodule-named-like-a-constant", "symplyphysics/quantities/planck.py", "", "\"\"\"Planck units\"\"\"\nfrom symplyphysics.quantities import hbar\n", "R6", count=0, note="seed b6_C20_1")
    m("C20", "b8-submodule-with-its-own-name-ok", "symplyphysics/quantities/planck_units.py", "", "\"\"\"Planck units\"\"\"\nfrom symplyphysics.quantities import hbar\n", "SILENT", count=0)
    # ---- C10-V1: len() and truth of a vector are what the class says
    m("C10", "b8-empty-vector-is-falsy", AR, LOOP_OLD,
      "    result = None\n    for vector in vectors:\n        result = add_two_cartesian_vectors(result, vector) if result else vector\n", "V1", extra=[(VEC, ) + LEN], note="seed b6_C10_1")
    m("C10", "b8-accumulator-tested-against-none-ok", AR, LOOP_OLD,
      "    result = None\n    for vector in vectors:\n        result = add_two_cartesian_vectors(result, vector) if result is not None else vector\n", "SILENT", extra=[(VEC, ) + LEN])
    # ---- C15-X4: three-valued assumptions of a generic coordinate
    m("C15", "b8-coordinate-zeroed-unless-known-real", XCONV, "        expr.subs(point.coordinates, simultaneous=True) for expr in conversion.values()\n",
      "        (expr.subs(point.coordinates, simultaneous=True) if expr.subs(point.coordinates, simultaneous=True).is_extended_real else 0) for expr in conversion.values()\n",
      "X4", note="seed b6_C15_1")
    # ---- C12: properties of CoordinateSystem the operators read are followed
    m("C12", "b8-system-kind-asked-through-a-property-ok", OPS, CART, "    if field.coordinate_system.is_cartesian:\n", "SILENT", count=3, extra=[(CS, ) + PROP])
    # ---- C06-S3: a derivative of symbolic order
    m("C06", "b8-derivative-counts-expanded", CE, "    for arg, n in args:\n        arg_expr, arg_dim = collect_expression_and_dimension(arg)\n        dim /= arg_dim**n\n        expr_ = expr_.diff((arg_expr, n))\n",
      "    for arg in expr.variables:\n        arg_expr, arg_dim = collect_expression_and_dimension(arg)\n        dim /= arg_dim\n        expr_ = expr_.diff(arg_expr)\n", "S3", note="seed b6_C06_1")
    m("C06", "b8-derivative-counts-from-variable-count-ok", CE, "    for arg, n in args:\n", "    for arg, n in expr.variable_count:\n", "SILENT")
    # ---- C07-U6: the numeric branch substitutes SI values too
    m("C07", "b8-numeric-branch-takes-the-raw-scale-factor", CONV, "            si_value = si_value.evalf(**kwargs)\n",
      "            si_value = evaluate_quantity(qty, **kwargs).scale_factor\n", "U6", note="seed b6_C07_1")
    m("C07", "b8-numeric-branch-converts-again-ok", CONV, "            si_value = si_value.evalf(**kwargs)\n",
      "            si_value = convert_to_si(qty).evalf(**kwargs)\n", "SILENT")
