#!/venv/bin/python
"""Behaviour-preserving refactorings (written by independent sub-agents, /verif/refactorings/<id>/patch.diff) against every check:
all must stay SILENT. The patches are applied to an in-memory overlay of /repo's sources (nothing is written to /repo, nothing is
executed) and analysed exactly like the real tree. NOT a registered check: a development-time measure of false alarms.

usage: tools/refcorpus.py [-k substring] [-j N] [-v]
Exit 0 when every (refactoring, check) pair is silent; 1 otherwise. `EXPECTED` lists pairs that are known not to be silent, with the reason.
"""
from __future__ import annotations

import argparse
import importlib
import multiprocessing
import os
import re
import sys
import time

VERIF = os.path.dirname(os.path.dirname(os.path.abspath(__file__)))
sys.path.insert(0, VERIF)

from sa.core import Source, Run, REPO, AnalysisError, load_known  # noqa: E402
from sa.cli import PROPERTIES  # noqa: E402

sys.setrecursionlimit(10000)

# (refactoring id, property) -> reason why the check is allowed not to be silent (a refusal, exit 2, that is documented in DESIGN.md)
EXPECTED: dict = {
    ("r3_C20_2", "C20"): "quantities.__all__ computed from vars() by a comprehension: which names are exported is no longer a list of string literals the check can read; "
                         "it refuses (exit 2) instead of guessing (DESIGN.md section 4)",
}


def apply_patch(diff_text: str) -> dict:
    """{relative path: new text} for a git-format unified diff against /repo's working tree (exact context required)"""
    out = {}
    files = re.split(r"(?m)^diff --git ", diff_text)[1:]
    for f in files:
        m = re.search(r"(?m)^\+\+\+ b/(.+)$", f)
        m_old = re.search(r"(?m)^--- (?:a/(.+)|/dev/null)$", f)
        if not m:
            raise ValueError("unsupported diff section (no +++ line)")
        rel = m.group(1)
        if m_old and m_old.group(1) is None:
            lines = []
        else:
            lines = (REPO / rel).read_text().split("\n")
        hunks = re.split(r"(?m)^@@ ", f)[1:]
        offset = 0
        for h in hunks:
            head, _, body = h.partition("\n")
            mm = re.match(r"-(\d+)(?:,(\d+))? \+(\d+)(?:,(\d+))? @@", head)
            start = int(mm.group(1))
            old_seg, new_seg = [], []
            for ln in body.split("\n"):
                if ln.startswith("\\"):
                    continue
                if ln.startswith("+"):
                    new_seg.append(ln[1:])
                elif ln.startswith("-"):
                    old_seg.append(ln[1:])
                elif ln.startswith(" "):
                    old_seg.append(ln[1:])
                    new_seg.append(ln[1:])
                elif ln == "":
                    # a blank context line may have lost its leading space; the trailing element of the split is not a line
                    continue
            pos = (start - 1 if start > 0 else 0) + offset
            if lines[pos:pos + len(old_seg)] != old_seg:
                # the file may have moved since the patch was taken (a later fix: commit): the same lines, nearest to where they were
                cands = [k for k in range(0, len(lines) - len(old_seg) + 1) if lines[k:k + len(old_seg)] == old_seg] if old_seg else []
                if not cands:
                    raise ValueError(f"hunk does not apply to {rel} at line {start}")
                new_pos = min(cands, key=lambda k: abs(k - pos))
                offset += new_pos - pos
                pos = new_pos
            lines[pos:pos + len(old_seg)] = new_seg
            offset += len(new_seg) - len(old_seg)
        out[rel] = "\n".join(lines)
    return out


def run_pair(job):
    rid, pid = job
    try:
        overlay = apply_patch(open(os.path.join(VERIF, "refactorings", rid, "patch.diff")).read())
    except Exception as e:  # the corpus entry is stale
        return rid, pid, "STALE", str(e)
    mod = importlib.import_module(f"sa.rules.{pid.lower()}")
    known = {(k["property"], k["key"]) for k in load_known().get("findings", [])}
    run = None
    try:
        run = Run(pid, Source(overlay=overlay), "quick")
        mod.check(run)
    except AnalysisError as e:
        new = [f for f in (run.findings if run else []) if (pid, f.key) not in known]
        if not new:
            return rid, pid, "REFUSED", str(e)[:300]
    except Exception:
        import traceback
        return rid, pid, "CRASH", traceback.format_exc()[-400:]
    new = [f for f in run.findings if (pid, f.key) not in known]
    if new:
        return rid, pid, "ALARM", "; ".join(f"{f.rule} {f.file}:{f.line} {f.message[:160]}" for f in new[:3])
    return rid, pid, "SILENT", ""


def main() -> int:
    ap = argparse.ArgumentParser()
    ap.add_argument("-k", default="")
    ap.add_argument("-j", type=int, default=min(16, os.cpu_count() or 4))
    ap.add_argument("-v", action="store_true")
    a = ap.parse_args()
    rids = sorted(d for d in os.listdir(os.path.join(VERIF, "refactorings")) if os.path.isfile(os.path.join(VERIF, "refactorings", d, "patch.diff")) and a.k in d)
    jobs = [(r, p) for r in rids for p in PROPERTIES]
    t0 = time.time()
    with multiprocessing.Pool(a.j) as pool:
        res = pool.map(run_pair, jobs, chunksize=4)
    bad = 0
    counts: dict = {}
    for rid, pid, status, detail in res:
        counts[status] = counts.get(status, 0) + 1
        if status == "SILENT":
            continue
        if (rid, pid) in EXPECTED and status == "REFUSED":
            if a.v:
                print(f"expected {status} {rid} {pid}: {EXPECTED[(rid, pid)]}")
            continue
        bad += 1
        print(f"{status} {rid} {pid}: {detail}")
    print(f"refcorpus: {len(rids)} refactorings x {len(PROPERTIES)} checks: {counts} in {time.time() - t0:.1f}s")
    return 1 if bad else 0


if __name__ == "__main__":
    sys.exit(main())
