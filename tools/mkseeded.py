#!/usr/bin/env python3
"""Copies confirmed seeded changes from the sub-agents' scratch directories into /verif/seeded/<id>/ and writes meta.json.

  tools/mkseeded.py <scratch root, e.g. /tmp> <results dir, e.g. /tmp/seedresults>

Inputs per seed: <root>/seed_<id>/{patch.diff, demo.py, notes.md[, patch.original.diff]},
<results>/seed_<id>.suite.json (demo on pristine / patched tree, full suite on the patched tree; tools/seedcheck.py --phase=suite)
and <results>/seed_<id>.checks.json (all registered checks against /repo with the patch applied, then reverted;
tools/seedcheck.py --phase=checks). A seed is kept only when: the patch applies to the current /repo, the demonstration exits 0 on
the pristine tree and non-zero on the patched one, and the unedited suite still passes on the patched tree.
"""
from __future__ import annotations

import json
import re
import shutil
import sys
from pathlib import Path

VERIF = Path(__file__).resolve().parent.parent

# how each seed fared against the checks AS THEY WERE when the seed arrived (before any strengthening it prompted)
def prop_of(sid: str) -> str:
    return re.search(r"C\d\d", sid).group(0)


HISTORY = {
    # first batch (C01-C08)
    "C01_1": "caught as built", "C01_2": "caught as built", "C01_3": "caught as built",
    "C02_1": "refused as built (exit 2: the abstract evaluator did not model list.append/insert); caught after the evaluator learnt list methods",
    "C02_2": "caught as built", "C02_3": "missed as built; rule C02-P7 added (patch rebased onto the dimension guard of fix ec63bf7)",
    "C03_1": "missed as built; rule C03-I6 added (the same shape turned out to be a genuine defect of the pinned tree, fixed in a691843)",
    "C03_2": "caught as built", "C03_3": "caught as built",
    "C04_1": "refused as built (exit 2: K5 did not understand the new predicate); caught after K5 classified numeric conversions (patch rebased onto fix cd6db15)",
    "C04_2": "caught as built", "C04_3": "caught as built",
    "C05_2": "caught as built", "C05_3": "refused as built (exit 2); caught after K5 understood assumption queries (membership of NaN is lost; patch rebased onto fix cd6db15)",
    "C06_1": "caught as built", "C06_2": "caught as built", "C06_3": "caught as built",
    "C07_1": "caught as built", "C07_2": "caught as built", "C07_3": "missed as built; rule C07-U7 added (patch rebased onto fix 83d038c)",
    "C08_1": "caught as built", "C08_2": "caught as built", "C08_3": "caught as built",
    # second batch (C09-C20)
    "C09_1": "missed as built; C09-N1 extended to the coordinate-system factories (every return derives from a fresh next_name)",
    "C09_2": "caught as built", "C09_3": "caught as built",
    "C10_1": "missed as built; caught after the abstract evaluator modelled list aliasing and call statements (in-place mutation of an operand)",
    "C10_2": "caught as built", "C10_3": "caught as built",
    "C11_1": "missed as built; T2 now also evaluated with numeric scalars (-2, 0, 1/2)",
    "C11_2": "caught as built", "C11_3": "missed as built; rule C11-T7 added, later rewritten as abstract evaluation (the seed itself repaired the sequential substitution that became fix 34ab32b, "
             "and truncated the mapping with zip; patch rebased onto that fix: only the truncation is left)",
    "C12_1": "missed as built (the reader only understood three-component straight-line branches); caught after C12 was rewritten as an abstract evaluation for component counts 0..3",
    "C12_2": "missed as built; caught after the C12 rewrite (constant-field family)",
    "C12_3": "caught as built",
    "C13_1": "missed as built; caught after the C12 rewrite (shared operator evaluation)",
    "C13_2": "caught as built", "C13_3": "refused as built (exit 2: posify outside the evaluator's subset); rule C13-J7 added",
    "C14_1": "missed as built; C14-R2 extended: the default ordering key is the builtin id",
    "C14_2": "caught as built", "C14_3": "missed as built; rule C14-R4 added (operand order at hook call sites, traced through helpers)",
    "C15_1": "caught as built",
    "C15_2": "refused as built (exit 2: Piecewise/helper call outside the reader's class); caught after the reader learnt helpers/Piecewise and X1 got its grid sweep",
    "C15_3": "refused as built (exit 2: Mod outside the reader's class); rule C15-X6 added",
    "C16_1": "caught as built", "C16_2": "missed as built; rule C16-Q5 added", "C16_3": "missed as built; C16-Q4 extended (check=False)",
    "C18_1": "missed as built (value clause not claimed); necessary condition C18-L5 added",
    "C18_2": "missed as built; rule C18-L3 added", "C18_3": "missed as built; necessary condition C18-L4 added",
    "C19_1": "refused (exit 2) as built (the title-detection logic was mirrored by a digest-pinned replica); caught after the replica was replaced by the evaluation of "
             "find_title_and_description itself on every module docstring (rule C19-D9)",
    "C19_2": "missed as built; rules C19-D8 / C18-L6 added (literal {name} of a variable in scope)",
    "C19_3": "missed as built; rule C19-D8 added (registration admits every Symbol)",
    "C20_1": "caught as built", "C20_2": "refused as built (exit 2 from C03/C09: next_id no longer stores into _ids); rule I3 'process-wide counters' added, also run under C20",
    "C20_3": "missed as built; rule C20-R5 added (who may write the unit system's tables)",
}
HISTORY.update({
    # third batch (all properties again, after the strengthening prompted by batches 1 and 2)
    "b3_C01_1": "missed as built (the dimension engine trusted the constructors); rule C01-H6 added",
    "b3_C01_2": "caught as built", "b3_C01_3": "caught as built",
    "b3_C02_1": "missed as built; rule C02-P8 added (forced-assumption rewrites, module level included)",
    "b3_C02_2": "missed as built (max() was whitelisted as value-preserving); C02-P2 now treats multi-argument min/max as a clamp",
    "b3_C02_3": "missed as built; rule C02-P9 added (Probability returns its argument)",
    "b3_C03_1": "missed as built; the import simulator now tracks attribute reads on partially initialised modules (I1)",
    "b3_C03_2": "missed as built (the chain runs through solve(law, s)[0].subs({...})); caught after the must-contain expansion of I6 learnt two sound steps: a .subs whose key "
                "the base certainly contains puts the value's content in its place, and the solution of an equation written with every symbol once depends on every other symbol "
                "(a may-contain expansion had reported seven false alarms on the pristine tree and was withdrawn)",
    "b3_C03_3": "missed as built; rule C03-I7 added (positional use of name-ordered collections)",
    "b3_C04_1": "caught as built", "b3_C04_2": "missed as built; C04-K3 extended (every checked component derives from the element)", "b3_C04_3": "caught as built",
    "b3_C05_1": "caught as built", "b3_C05_2": "caught as built", "b3_C05_3": "missed as built; rule S7 added (collected factor used on every path of the iteration)",
    "b3_C06_1": "caught as built", "b3_C06_2": "caught as built", "b3_C06_3": "missed as built; S1 now treats a loop behind an early return as conditional",
    "b3_C07_1": "caught as built (C04-K4)", "b3_C07_2": "caught as built", "b3_C07_3": "caught as built",
    "b3_C08_1": "missed as built; C05-S4 tightened (the registered scale passes through nothing but the collector)",
    "b3_C08_2": "missed as built; C04-K7 extended (zip truncation)", "b3_C08_3": "caught as built",
    "b3_C09_1": "caught as built", "b3_C09_2": "caught as built", "b3_C09_3": "missed as built; C09-N4 extended to __name__ reads in the printers' helpers",
    "b3_C10_1": "caught as built", "b3_C10_2": "caught as built", "b3_C10_3": "caught as built",
    "b3_C11_1": "refused as built (exit 2: undetermined assumption query in a conditional expression); caught after the evaluator adopted SymPy's three-valued falsiness there",
    "b3_C11_2": "caught as built", "b3_C11_3": "caught as built",
    "b3_C12_1": "REFUSED (exit 2), as built and now: the scale factors moved into CoordinateSystem and depend on how the system was constructed (SymPy's lame_coefficients for a "
                "wrapped CoordSys3D); the evaluator does not model construction paths",
    "b3_C12_2": "refused as built (exit 2: unknown attribute is_uniform); caught after fields are evaluated for both storage kinds with property lookup in the field classes",
    "b3_C12_3": "caught as built",
    "b3_C13_1": "missed as built (squares were compared, hiding the sign); J5 now demands a manifestly non-negative area element for two-component regions (patch rebased onto fix 94f7f9a)",
    "b3_C13_2": "caught as built (C12)", "b3_C13_3": "missed as built; J2/J5 evaluated with parameter-free integrands and dependent limits (patch rebased onto fix 94f7f9a)",
    "b3_C14_1": "caught as built", "b3_C14_2": "missed as built, then refused (a differentiation hook other than _eval_derivative ended the run with exit 2); caught after R3 learnt to evaluate "
                "_eval_derivative_n_times for orders 2 and 3 on generic, constant and linear operands",
    "b3_C14_3": "caught as built (C09-N1)",
    "b3_C15_1": "refused as built (exit 2: id() outside the evaluator's subset); rule C15-X7 added (the demonstration relied on CPython handing a dead point's address to the "
                "very next allocation, which stopped happening after fix f48be70 changed convert.py; it now searches for an address collision: demo.original.py kept)", "b3_C15_2": "caught as built",
    "b3_C15_3": "missed as built; rule C15-X7 (iterable traversed twice) added",
    "b3_C16_1": "refused as built (exit 2: anchors of the shape-bound Q1/Q3 gone); caught after Q1/Q3 were rewritten as whole-function evaluation",
    "b3_C16_2": "refused as built; caught after the rewrite (Expr.coeff modelled on the top-level sum)", "b3_C16_3": "refused as built; caught after the rewrite (scaled unknowns)",
    "b3_C18_1": "missed as built; rule C18-L7 added", "b3_C18_2": "missed as built; rule C18-L8 added", "b3_C18_3": "missed as built; rule C18-L9 added",
    "b3_C19_1": "refused (exit 2) as built: same change as batch-2 seed C19_1 (stricter title rule in parse.py); caught by C19-D9 after the replica was replaced by evaluation",
    "b3_C19_2": "missed as built; C19-D8 extended (an indexed symbol is applied to its own index)", "b3_C19_3": "caught as built",
    "b3_C20_1": "missed by C20 as built (caught by nothing); C09-N1 who-may-construct and C20-R5 re-initialisation added",
    "b3_C20_2": "caught as built", "b3_C20_3": "caught as built",
})
HISTORY.update({
    # fourth batch (two per property, after the evaluation rewrites prompted by the refactoring corpus): 14 caught, 10 refused, 14 missed as built
    "b4_C01_1": "missed as built: the mismatch sat in a private intermediate (`_second_expression = 3/2*(radius - _root)`), issues of private statements were dropped and the "
                "relation built from them counted as 'reported elsewhere'; such issues are now reported under the relation that depends on them",
    "b4_C01_2": "caught as built",
    "b4_C02_1": "caught as built (by C11-T2: scale_vector in a curvilinear system)",
    "b4_C02_2": "missed as built (the only float exponents of the tree family were 2.0-like); C05/C06 gained exponents that are no small fraction (1.6667, 0.1) and the model of "
                "nsimplify(tolerance=) / Rational(Float)",
    "b4_C03_1": "caught as built", "b4_C03_2": "MISSED, as built and now: a derivation check compares two solve() results with == instead of expr_equals; whether two such trees are "
                "identical depends on SymPy's name-ordered canonical forms, which nothing in the source bounds (the name-order clause of C03 is declared not applicable; 30 such "
                "asserts exist in the pinned tree)",
    "b4_C04_1": "refused as built (exit 2: unknown attribute has_any_dimension); caught after the gate reader followed properties of QuantityVector into vectors.py and K3 got "
                "vectors whose own dimension is angle",
    "b4_C04_2": "refused as built by C05 (exit 2: bool() of a predicate); caught by C05-S3 after the evaluator learnt bool()",
    "b4_C05_1": "caught as built", "b4_C05_2": "missed as built (P7 looked at one _eval_is_ge); C02-P7 now decides every dispatch overload: one that orders a quantity against a bare "
                "number must refuse a dimensional quantity",
    "b4_C06_1": "missed as built; caught after the model distinguished Rational(Float) (binary value) from nsimplify(rational=True) (decimal value) and the family got the exponent 0.1",
    "b4_C06_2": "caught as built (K5)",
    "b4_C07_1": "caught as built", "b4_C07_2": "missed as built (evalf was modelled without its options); U6 now keeps the options: chop=True nobody asked for is another function",
    "b4_C08_1": "caught as built (C05-S4)", "b4_C08_2": "refused as built (exit 2: Dimension ** n in the gate reader); caught by C04-K4 after dimension powers were modelled",
    "b4_C09_1": "caught as built (I3)", "b4_C09_2": "missed as built; rule C09-N7 added (a symbol-making function called from a constructor is not memoised)",
    "b4_C10_1": "refused as built (exit 2: Vector.rebase); caught after the reader modelled a successful re-expression in a related system",
    "b4_C10_2": "refused as built (exit 2: Abs of a symbol); caught after |x| became one more indeterminate of the generic components",
    "b4_C11_2": "refused as built (exit 2: CoordinateSystem.is_angle_component); caught after static methods of other modules were followed and every evaluated call was "
                "checked for operands changed in place",
    "b4_C12_1": "caught as built", "b4_C12_2": "caught as built",
    "b4_C13_1": "caught as built (C12)", "b4_C13_2": "caught as built",
    "b4_C14_1": "missed as built (the compound operand was only tried in first position); every position now",
    "b4_C14_2": "missed as built (VectorNorm.__new__ was not covered); rule C14-R6 added (absolute homogeneity by evaluation)",
    "b4_C15_1": "refused as built (exit 2: AppliedPoint.evaluate); caught after methods of AppliedPoint were followed into points/__init__.py",
    "b4_C15_2": "caught as built",
    "b4_C16_1": "refused as built (exit 2: getattr with a default); caught after the readers declared which model objects have .lhs/.rhs - and a bare dot product became one of the inputs",
    "b4_C16_2": "refused as built (exit 2: dict.update); caught after Q4 evaluated a call without keywords after one with keywords on the same reader",
    "b4_C18_1": "missed as built; rule C18-L12 added (an override of SymPy's bracket predicates only adds brackets)",
    "b4_C18_2": "missed as built; rule C18-L13 added (no printer built from a caller's settings is kept across calls)",
    "b4_C19_1": "missed as built (the page composer was not covered); rule C19-D10 added (print_law / print_package evaluated for every combination of empty and non-empty parts)",
    "b4_C19_2": "caught as built",
    "b4_C20_1": "missed as built (a constant without a reference value was skipped); the reference table now knows ~30 more CODATA names and an unknown constant makes the check refuse",
    "b4_C20_2": "REFUSED (exit 2), as built and now: constants defined through a new python helper (quantity_from_si) are not folded; the check refuses instead of passing them unseen",
})
HISTORY.update({
    # fifth batch (two per property; authors were told which mechanisms earlier rounds had leaned on and asked for others): 13 caught, 9 refused, 16 missed as built
    "b5_C01_1": "caught as built", "b5_C01_2": "missed as built (the mismatch sits in a private intermediate that ends up inside log(...), whose dimension is decided anyway); "
                "issues of private intermediates are now reported for every published relation that is built from them",
    "b5_C03_1": "MISSED, as built and now: a second derivation inserts dsolve's integration constants by the names C1/C2, which dsolve numbers in the name-ordered canonical order "
                "of the solution's terms (two counter states out of ten thousand swap them): the name-order clause of C03 is declared not applicable",
    "b5_C02_1": "MISSED, as built and now: substitutions built by zip(Matrix.vec(), chain.from_iterable(rows)) pair column-major symbols with row-major values; the pairing of two "
                "computed sequences is not decided",
    "b5_C02_2": "caught as built (P1)",
    "b5_C04_1": "caught as built (K7, by evaluation since the third refactoring corpus)",
    "b5_C04_2": "refused as built (exit 2: BoundArguments.apply_defaults); caught after K2 got a bare zero as the reference argument of validate_output_same",
    "b5_C05_1": "missed as built; P7 now compares one dimension written in two ways (energy vs force*length): structural == on dimensions refuses comparable quantities",
    "b5_C05_2": "refused as built (exit 2: itertools.pairwise); caught by S3 after the evaluator learnt it",
    "b5_C06_1": "REFUSED (exit 2), as built and now: the exponent is split with SymPy's free_symbols / as_independent, whose semantics the evaluator does not model",
    "b5_C06_2": "refused as built (exit 2: a helper in the sibling module); caught after helpers of dimensions/miscellaneous.py were followed and the family got an angle-typed symbol",
    "b5_C07_1": "refused as built (exit 2: ordering test on a symbolic temperature); caught after U5 evaluated from_kelvin at 0 K and below first (finding reported, then the refusal)",
    "b5_C07_2": "missed as built (the prefix table was under no rule); rule U8 added - the seed (values read from SymPy's PREFIXES by symbol) makes it REFUSE: not a literal table",
    "b5_C08_1": "caught as built (C04-K8)", "b5_C08_2": "caught as built",
    "b5_C09_1": "caught as built (C14-R2)", "b5_C09_2": "refused as built (exit 2 from C09 and C18); caught by C18-L3 after regular-expression match groups counted as cutting a name",
    "b5_C10_1": "refused as built (exit 2: is_nonzero); caught after the evaluator adopted SymPy's three-valued is_nonzero", "b5_C10_2": "caught as built",
    "b5_C11_1": "missed as built (magnitudes were compared by their squares); T2 now also demands a positive magnitude for a negative radial component",
    "b5_C11_2": "missed as built; rule C11-T9 added (the factories derive the new system from the given system's own CoordSys3D)",
    "b5_C12_1": "missed as built; rule C11-T10 added (a field applied twice) and map()/generator expressions became one-shot iterators in the evaluator",
    "b5_C12_2": "missed as built; C12 got fields whose components are the same expression (list.index finds the first)",
    "b5_C13_1": "caught as built (J7)", "b5_C13_2": "caught as built",
    "b5_C14_1": "refused as built (exit 2: atoms()); caught after atoms() was modelled and the compound-operand test used the sorted vectors as operands, with a case whose other "
                "operands are the cross product's own",
    "b5_C14_2": "MISSED, as built and now: VectorNorm._eval_derivative treats the scalar factor of an unevaluated norm(k(t)*v) as constant; the component model of R3 has no "
                "scalar-times-vector structure to split",
    "b5_C15_1": "missed as built; rule C15-X8 added (a point stores the coordinates it was given)", "b5_C15_2": "REFUSED (exit 2), as built and now: the scalar tables are built by a helper "
                "(dict(zip(system.base_scalars, exprs))) instead of dict literals",
    "b5_C16_1": "missed as built; rule C09-N8 added (no hard-coded assumption reaches the SymPy base constructor)",
    "b5_C16_2": "missed as built (the model's contradictory equation was Python's False); it is S.false now: equal to False, not identical with it",
    "b5_C18_1": "missed as built; rule C18-L14 added", "b5_C18_2": "missed as built; rule C18-L15 added",
    "b5_C19_1": "missed as built; rule C19-D11 added (_find_law_directives evaluated)", "b5_C19_2": "caught as built (C09-N4)",
    "b5_C20_1": "caught as built", "b5_C20_2": "caught as built",
})
HISTORY.update({
    "b6_C01_1": "caught as built (H4: the argument of exp in the private Mayer function, reported for the published law built from it)",
    "b6_C02_1": "caught as built (P1: the calculation writes sqrt(eps)*sqrt(mu) out by hand instead of solving the published law)",
    "b6_C04_1": "caught as built (K7: 3 of 4 components reach the dimension assertion)",
    "b6_C05_1": "caught as built (S1: Add(a, a) loses a term when the per-argument results are gathered in a dict)",
    "b6_C06_1": "refused as built (exit 2: Derivative.variables); caught by S3 after the tree family got a derivative of symbolic order and the derivative node its `.variables` "
                "(which raises for a symbolic count, as SymPy's does); derivative variable lists are compared in SymPy's canonical (variable, count) form",
    "b6_C07_1": "refused as built (exit 2: isinstance inside evaluate_quantity); caught by U6 after the evaluation followed evaluate_quantity: the scale factor of the re-wrapped "
                "quantity is SymPy's gram-based one, not the SI value",
    "b6_C08_1": "caught as built, by C04-K4 (assert_equivalent_dimension evaluated on its case table: `is_nonzero is not True` lets symbolic and complex factors through); C08 itself treats "
                "the dimension gate as a black box and is silent",
    "b6_C09_1": "caught as built (N1: the rebuild path hands IndexedBase.__new__ a name where the existing symbol was given)",
    "b6_C10_1": "refused as built (exit 2: len() of a Vector); caught by V1 after the reader asks the Vector class what len() and `if vector:` mean (__len__ / __bool__ evaluated from "
                "the class): an empty accumulator is falsy and skips the system check",
    "b6_C11_1": "caught as built (T2: scaling a cylindrical vector by -2)",
    "b6_C12_1": "refused as built (exit 2: a new CoordinateSystem property); caught by O3 after properties the operators read from a coordinate system are evaluated from their source: "
                "the generic curl formula is accepted for 3 components and reported for the 2-component spherical field",
    "b6_C13_1": "caught as built, by C12-O3/O4 (the curl of a 1- and 2-component Cartesian field against the zero-padded reference); C13's own Stokes rules take the curl operator as given",
    "b6_C14_1": "caught as built (R2: compound operand in the middle of the sorted triple)",
    "b6_C15_1": "refused as built (exit 2: .is_extended_real of a coordinate); caught by X4 after the reader answers SymPy's three-valued query for the generic coordinates (symbols "
                "without assumptions: None)",
    "b6_C16_1": "missed as built; Q3 now has the unknown occurring in another written form (vector_equals holds, structural equality does not): the moved term must be the one "
                "vector_equals found",
    "b6_C18_1": "missed as built; L16 evaluates _print_Mul on products with a factor -1 (unevaluated Mul of one argument is that argument): the sum must keep its brackets",
    "b6_C19_1": "missed as built; D12 models the role resolver's first-module-that-holds-the-object loop against the names each symbols sub-module assigns",
    "b6_C20_1": "missed as built; R6: no submodule of the constants package has the name of a constant",
})

DROPPED = {
    "b4_C11_1": "obsolete: the change (ScalarField.rebase returns a field that stores its value) broke C11 only through a genuine defect of the pinned tree it exposed - fields that "
                "store a value answered points of another kind instead of refusing them. That defect was repaired in 8988336 (C11-T4 now covers stored-value fields); on the "
                "repaired tree the demonstration passes with the patch applied. Self-test twins: b5-stored-value-field-answers-before-refusing-regression / b5-rebase-returns-stored-value-field-ok",
    "b3_C06_1": "obsolete: the change (Symbolic.__init__ keeps the dimension of the first initialisation of a cached instance) broke C06 only through the wrapper-alias "
                "defect of the pinned tree - two different arguments that print alike being ONE cached object. That defect was repaired in 6afdd9a; on the repaired tree "
                "every wrapper is initialised once and the demonstration passes with the patch applied",
    "C03_3": "obsolete: the change (a derivation building ExactDifferential(symbols.momentum) in a dynamics law) broke C03 only through the wrapper-alias defect of the "
             "pinned tree (Symbolic objects shared through SymPy's name-keyed cache). That defect was repaired in 6afdd9a; on the repaired tree the demonstration "
             "passes with the patch applied and the checks are rightly silent. The defect itself is re-introduced by self-test mutant b4-wrapper-cached-by-display-name-regression",
    "C05_1": "superseded: the agent's patch edited the running-extremum logic of _collect_min_max, which the repair of the genuine defect found through "
             "the same agent's notes (fix 2abe7fe) replaced; the patch no longer applies and its effect is covered by self-test mutant c05-running-sum-regression",
}


def needs_text(notes: str) -> str:
    lines = notes.splitlines()
    for i, l in enumerate(lines):
        if re.search(r"need(s|ed)?( to)?( manifest)?\b|manifests only", l, re.I) and not l.startswith("#"):
            out = [l.strip(" *-")]
            for m in lines[i + 1:i + 6]:
                if not m.strip() or re.match(r"\s*([*-]|\*\*|#)", m):
                    break
                out.append(m.strip())
            return re.sub(r"\s+", " ", " ".join(out))[:900]
    return re.sub(r"\s+", " ", notes)[:600]


def main() -> int:
    root, results = Path(sys.argv[1]), Path(sys.argv[2])
    out = VERIF / "seeded"
    out.mkdir(exist_ok=True)
    rows = []
    for sd in sorted(root.glob("seed_C??_?")) + sorted(root.glob("seed3_C??_?")) + sorted(root.glob("seed4_C??_?")) + sorted(root.glob("seed5_C??_?")) + sorted(root.glob("seed6_C??_?")):
        sid = sd.name[5:] if sd.name.startswith("seed_") else {"seed3_": "b3_", "seed4_": "b4_", "seed5_": "b5_", "seed6_": "b6_"}[sd.name[:6]] + sd.name[6:]
        if sid in DROPPED:
            rows.append((sid, "dropped", DROPPED[sid]))
            continue
        try:
            suite = json.loads((results / f"{sd.name}.suite.json").read_text())
            checks = json.loads((results / f"{sd.name}.checks.json").read_text())
        except (OSError, ValueError) as e:
            rows.append((sid, "unconfirmed", f"no results: {e}"))
            continue
        ok = suite.get("patch_applies") and suite.get("demo_pristine_exit") == 0 and suite.get("demo_patched_exit") not in (0, None) \
            and suite.get("suite_failed") == 0 and suite.get("suite_errors") == 0 and (suite.get("suite_passed") or 0) >= 2568
        if not ok:
            rows.append((sid, "unconfirmed", json.dumps({k: suite.get(k) for k in ("patch_applies", "demo_pristine_exit", "demo_patched_exit", "suite_passed", "suite_failed", "suite_errors")})))
            continue
        dst = out / sid
        dst.mkdir(exist_ok=True)
        for f in ("patch.diff", "demo.py", "notes.md", "patch.original.diff", "demo.original.py"):
            if (sd / f).exists():
                shutil.copy(sd / f, dst / f)
        caught = {k: {"exit": v["exit"], "rules": sorted({r.split(" ")[1] for r in v.get("reports", []) if r.startswith("[")}),
                      "first_report": (v.get("reports") or [""])[0][:400]} for k, v in checks.get("caught_by", {}).items()}
        verdict = "caught" if any(v["exit"] == 1 for v in caught.values()) else ("refused" if any(v["exit"] == 2 for v in caught.values()) else "missed")
        meta = {
            "seed": sid,
            "property": prop_of(sid),
            "origin": "independent sub-agent given only the property text and its own scratch worktree of /repo",
            "needs_to_manifest": needs_text((sd / "notes.md").read_text()),
            "rebased": (sd / "patch.original.diff").exists(),
            "confirmation": {
                "how": "tools/seedcheck.py <seed> --phase=suite in a scratch worktree of /repo HEAD: demo.py on the pristine tree, patch applied, demo.py again, "
                       "then the baseline suite command; tools/seedcheck.py <seed> --phase=checks: git -C /repo apply patch.diff, every registered quick check, "
                       "git -C /repo checkout -- .",
                "demo_pristine_exit": suite.get("demo_pristine_exit"),
                "demo_patched_exit": suite.get("demo_patched_exit"),
                "demo_patched_tail": (suite.get("demo_patched_tail") or "")[-600:],
                "suite_on_patched_tree": {"passed": suite.get("suite_passed"), "failed": suite.get("suite_failed"), "errors": suite.get("suite_errors")},
                "repo_clean_after_checks": checks.get("repo_clean_after"),
            },
            "verdict_now": verdict,
            "checks_reporting": caught,
            "history": HISTORY.get(sid, "?"),
        }
        (dst / "meta.json").write_text(json.dumps(meta, indent=1) + "\n")
        rows.append((sid, verdict, "; ".join(f"{k}-{'/'.join(v['rules']) or 'exit ' + str(v['exit'])}" for k, v in sorted(caught.items())) + " | " + HISTORY.get(sid, "?")))
    for r in rows:
        print(" | ".join(r))
    table = ["| seed | property | what it needs to manifest (short) | reported by | history |", "|---|---|---|---|---|"]
    for a, b, c in rows:
        if b in ("dropped", "unconfirmed"):
            table.append(f"| {a} | {prop_of(a)} | - | {b} | {c[:300]} |")
            continue
        meta = json.loads((out / a / "meta.json").read_text())
        rep = "; ".join(f"{k} {'/'.join(v['rules'])}" if v["exit"] == 1 else f"{k} refuses (exit 2)" for k, v in sorted(meta["checks_reporting"].items()))
        needs = meta["needs_to_manifest"].replace("|", "/")
        table.append(f"| {a} | {meta['property']} | {needs[:230]}{'…' if len(needs) > 230 else ''} | {rep} | {meta['history']} |")
    (out / "TABLE.md").write_text("\n".join(table) + "\n")
    (out / "INDEX.json").write_text(json.dumps([{"seed": a, "status": b, "detail": c} for a, b, c in rows], indent=1) + "\n")
    return 0


if __name__ == "__main__":
    sys.exit(main())
