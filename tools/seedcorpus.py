#!/venv/bin/python
"""The confirmed seeded changes (/verif/seeded/<id>/patch.diff, each breaks its property while the unedited suite passes) against the checks that
are recorded as reporting them (seeded/<id>/meta.json: checks_reporting): every recorded check must still report. The patches are applied to
an in-memory overlay of /repo's sources (nothing is written to /repo, nothing is executed) and analysed exactly like the real tree - the
counterpart of tools/refcorpus.py (which demands silence on behaviour-preserving refactorings). NOT a registered check: a development-time
regression test of the checks' detection; the authoritative record (patch applied to /repo, registered commands run, /repo restored) is
written by tools/seedcheck.py.

usage: tools/seedcorpus.py [-k substring] [-j N] [--all]     (--all: every check against every seed, prints the full picture)
Exit 0 when every recorded (seed, check) pair still reports (exit-1 records: a new finding; exit-2 records: a refusal or a finding).
"""
from __future__ import annotations

import argparse
import json
import multiprocessing
import os
import sys
import time

VERIF = os.path.dirname(os.path.dirname(os.path.abspath(__file__)))
sys.path.insert(0, VERIF)
sys.path.insert(0, os.path.join(VERIF, "tools"))

from refcorpus import apply_patch  # noqa: E402
from sa.core import Source, Run, AnalysisError, load_known  # noqa: E402
from sa.cli import PROPERTIES  # noqa: E402
import importlib  # noqa: E402

sys.setrecursionlimit(10000)


def run_pair(job):
    sid, pid = job
    try:
        overlay = apply_patch(open(os.path.join(VERIF, "seeded", sid, "patch.diff")).read())
    except Exception as e:
        return sid, pid, "STALE", str(e)
    mod = importlib.import_module(f"sa.rules.{pid.lower()}")
    known = {(k["property"], k["key"]) for k in load_known().get("findings", [])}
    run = None
    try:
        run = Run(pid, Source(overlay=overlay), "quick")
        mod.check(run)
    except AnalysisError as e:
        new = [f for f in (run.findings if run else []) if (pid, f.key) not in known]
        if not new:
            return sid, pid, "REFUSED", str(e)[:200]
    except Exception:
        import traceback
        return sid, pid, "CRASH", traceback.format_exc()[-400:]
    new = [f for f in run.findings if (pid, f.key) not in known]
    if new:
        return sid, pid, "ALARM", ",".join(sorted({f.rule for f in new}))
    return sid, pid, "SILENT", ""


def main() -> int:
    ap = argparse.ArgumentParser()
    ap.add_argument("-k", default="")
    ap.add_argument("-j", type=int, default=min(16, os.cpu_count() or 4))
    ap.add_argument("--all", action="store_true")
    a = ap.parse_args()
    root = os.path.join(VERIF, "seeded")
    seeds = sorted(d for d in os.listdir(root) if os.path.isfile(os.path.join(root, d, "meta.json")) and a.k in d)
    expect = {}
    for s in seeds:
        meta = json.load(open(os.path.join(root, s, "meta.json")))
        for pid, v in meta.get("checks_reporting", {}).items():
            expect[(s, pid)] = v["exit"]
    jobs = [(s, p) for s in seeds for p in PROPERTIES] if a.all else sorted(expect)
    t0 = time.time()
    with multiprocessing.Pool(a.j) as pool:
        res = pool.map(run_pair, jobs, chunksize=2)
    bad = 0
    counts: dict = {}
    for sid, pid, status, detail in res:
        counts[status] = counts.get(status, 0) + 1
        want = expect.get((sid, pid))
        ok = (want == 1 and status == "ALARM") or (want == 2 and status in ("REFUSED", "ALARM")) or (want is None and status == "SILENT")
        if status in ("CRASH", "STALE") or (want is not None and not ok):
            bad += 1
            print(f"REGRESSION {sid} {pid}: recorded exit {want}, now {status} {detail}")
        elif a.all and want is None and status != "SILENT":
            print(f"note: {sid} {pid}: {status} {detail} (not in the record)")
    print(f"seedcorpus: {len(seeds)} seeds, {len(jobs)} (seed, check) pairs: {counts} in {time.time() - t0:.1f}s")
    return 1 if bad else 0


if __name__ == "__main__":
    sys.exit(main())
