#!/usr/bin/env python3
"""Regenerates /verif/MANIFEST.json from the table below (the only place where claims are edited)."""
import json
import os

HERE = os.path.dirname(os.path.dirname(os.path.abspath(__file__)))
props = [json.loads(l) for l in open(os.path.join(HERE, "properties.jsonl"))]

CLAIMS = {
    "C01": dict(
        text="Static dimension type-check of every published relation of all 694 catalogue modules: an abstract interpreter over SI "
             "dimension vectors decides H1-H4 for each relation whose operands it can resolve (>= 92% enforced, ~98% today) and reports only "
             "definite mismatches. Dimension is a property of the formula, so a decided relation is decided for all values of its symbols; "
             "this is what per-law numeric tests cannot give, and it covers the modules that have no test at all.",
        note="Trusts SymPy's unit/dimension definition sources and that Symbol/Function/clone_* carry the dimension they are declared with "
             "(C09 checks the forwarding). Relations the evaluator cannot type (plain SymPy symbols, Laplacian, symbolic exponents of "
             "dimensional bases) are listed in the evidence, not decided. log() of a dimensional argument is deliberately not reported.",
        technique="abstract interpretation of module-level ASTs over dimension vectors (dimension type-check)", ref="DESIGN.md §2 C01"),
    "C02": dict(
        text="Structural necessary conditions, exhaustive over all 685 calculate_* functions: provenance of the returned value from the "
             "module's own law (slice), absence of arithmetic between the law-derived value and return (def-use path), dimension agreement of "
             "guard table vs substitution table and of solved-for symbol vs declared output (dimension engine). The numerical relation itself "
             "is not decided and is said so.",
        note="Decides the shape of the code, not SymPy's solve/subs/evaluation; swapping two same-dimension parameters or choosing another "
             "root is invisible. One frozen exception (unit tag `* units.radian`).",
        technique="backward slicing / taint over statement CFGs + dimension type-check of decorator and substitution tables", ref="DESIGN.md §2 C02"),
    "C04": dict(
        text="Exhaustive set comparison of every guard declaration against the decorated function's parameters (1751 guards) and typing of "
             "every guard expression (2398), plus must-pass-through / dominance / slice rules K1-K7 over the ~150 lines of gate code that "
             "every guarded call goes through. A guard that names no parameter is silently ignored at run time, so only this comparison "
             "finds it; the path rules hold for every argument tuple and call style because they are facts about all CFG paths.",
        note="Trusts SymPy's equivalent_dims/is_dimensionless and inspect.signature.bind. One recorded known finding (guard `position_vector` "
             "pinned by an existing test).",
        technique="decorator-table vs signature set comparison; CFG dominators, path conditions and backward slices on the gate code", ref="DESIGN.md §2 C04"),
    "C08": dict(
        text="Decision-dependence facts A1-A7 of the test oracle (dominance of the dimension assertion, conjunction of re/im verdicts, "
             "tolerance constant and default formula, unchanged forwarding of tolerances, strict zip). Every weakening of the oracle keeps "
             "all 2568 tests green by construction, so only an analysis of approx.py itself can notice; the facts are dataflow facts, not "
             "text, so renaming/reordering/extracting does not fire.",
        note="Trusts pytest.approx's documented contract and sympy re/im. Floating-point behaviour exactly at the tolerance boundary is not decided.",
        technique="CFG dominators + reaching definitions + backward slices (decision dependence)", ref="DESIGN.md §2 C08"),
    "C20": dict(
        text="Finite table decided exhaustively: all 27 constants are folded from their source expressions over SymPy's unit tables "
             "(parsed from SymPy's source) to an SI value and a dimension vector and compared with a CODATA-2018/IAU reference table at "
             "the precision each literal states; the seven identities of the property are evaluated on the folded values.",
        note="Reference table and tolerances are hard-coded in sa/rules/c20.py; corruption below the stated precision is invisible.",
        technique="static constant folding over unit tables read from source", ref="DESIGN.md §2 C20"),
}

NA_REASONS = {
    "C13": "agreement of two sympy.integrate-based computations for all fields/regions: no structural clause carries it (DESIGN.md §4)",
    "C17": "bracket/sign logic over an unbounded space of run-time expression shapes; needs a parse round-trip, i.e. execution (DESIGN.md §4)",
}

checks = []
for pid, c in CLAIMS.items():
    checks.append({
        "property_id": pid,
        "quick_cmd": f"./check {pid} --tier quick",
        "thorough_cmd": f"./check {pid} --tier thorough",
        "evidence_file": f"/verif/evidence/{pid}.json",
        "replay_cmd_template": f"./check {pid} --replay {{path}}",
        "engine": "sa",
        "level_claimed": {"category": "other", "text": c["text"], "design_ref": c["ref"]},
        "level_note": c["note"],
        "technique": c["technique"],
    })
na = [{"property_id": p["id"], "reason": NA_REASONS.get(p["id"], "check not built yet (work in progress; DESIGN.md §5)")}
      for p in props if p["id"] not in CLAIMS]
m = {
    "version": 1,
    "setup_cmd": "true",
    "hooks": {
        "guard": "SYMPLYPHYSICS_VERIF",
        "enable": "none needed: every check reads /repo sources only; no instrumentation exists in /repo",
        "baseline_off_cmd": "cd /repo && /venv/bin/python -m pytest -q -p no:cacheprovider --timeout=900 -n 16",
        "source_commits": [],
        "add_only": True,
    },
    "engines": [{
        "name": "sa", "path": "/verif/sa", "serves_properties": sorted(CLAIMS),
        "kind_free_text": "repository-specific static analysis over python ASTs (pure stdlib, run with /venv/bin/python): source model with "
                          "overlays, dimension abstract interpreter, statement CFG/dataflow, import simulator, exact algebra for closed-form tables",
    }],
    "checks": checks,
    "not_applicable": na,
    "notes": "All checks are static: they parse /repo (and the pinned SymPy unit sources) and never import or run repository code. "
             "exit 0 = held, 1 = VIOLATION line, 2 = ANALYSIS-ERROR (analysis broken, no verdict). Known findings: /verif/known_findings.json. "
             "Checker self-test (not a check): ./selftest.py.",
}
json.dump(m, open(os.path.join(HERE, "MANIFEST.json"), "w"), indent=1)
print("claimed:", sorted(CLAIMS), "n/a:", [x["property_id"] for x in na])
