#!/usr/bin/env python3
"""Regenerates /verif/MANIFEST.json from the table below (the only place where claims are edited)."""
import json
import os

HERE = os.path.dirname(os.path.dirname(os.path.abspath(__file__)))
props = [json.loads(l) for l in open(os.path.join(HERE, "properties.jsonl"))]

CLAIMS = {
    "C01": dict(
        text="Static dimension type-check of every published relation of all 694 catalogue modules: an abstract interpreter over SI "
             "dimension vectors decides H1-H4 for each relation whose operands it can resolve (>= 92% enforced, ~98% today) and reports only "
             "definite mismatches. Dimension is a property of the formula, so a decided relation is decided for all values of its symbols; "
             "this is what per-law numeric tests cannot give, and it covers the modules that have no test at all. H6 ties the engine's reading of "
             "declarations to the constructors: Symbol/Function/IndexedSymbol store their `dimension` argument unchanged.",
        note="Trusts SymPy's unit/dimension definition sources and that Symbol/Function/clone_* carry the dimension they are declared with "
             "(C09 checks the forwarding). Relations the evaluator cannot type (plain SymPy symbols, Laplacian, symbolic exponents of "
             "dimensional bases) are listed in the evidence, not decided. log() of a dimensional argument is deliberately not reported.",
        technique="abstract interpretation of module-level ASTs over dimension vectors (dimension type-check)", ref="DESIGN.md §2 C01"),
    "C02": dict(
        text="Structural necessary conditions, exhaustive over all 685 calculate_* functions: provenance of the returned value from the "
             "module's own law (slice), absence of arithmetic between the law-derived value and return (def-use path), dimension agreement of "
             "guard table vs substitution table and of solved-for symbol vs declared output (dimension engine); clamps (multi-argument min/max), "
             "assumption-forcing rewrites (force=True, posify) anywhere on the way to a result, and a snapping Probability wrapper are reported. "
             "The numerical relation itself is not decided and is said so.",
        note="Decides the shape of the code, not SymPy's solve/subs/evaluation; swapping two same-dimension parameters or choosing another "
             "root is invisible. One frozen exception (unit tag `* units.radian`).",
        technique="backward slicing / taint over statement CFGs + dimension type-check of decorator and substitution tables", ref="DESIGN.md §2 C02"),
    "C04": dict(
        text="Exhaustive set comparison of every guard declaration against the decorated function's parameters (1751 guards) and typing of "
             "every guard expression (2398), plus must-pass-through / dominance / slice rules K1-K8 over the ~150 lines of gate code that "
             "every guarded call goes through (every checked component derives from its element; no truncating zip over vector components; the dimension a QuantityVector infers for itself comes only from a non-angle component whose scale factor is not zero/infinite/NaN). A guard that names no parameter is silently ignored at run time, so only this comparison "
             "finds it; the path rules hold for every argument tuple and call style because they are facts about all CFG paths.",
        note="Trusts SymPy's equivalent_dims/is_dimensionless and inspect.signature.bind. One recorded known finding (guard `position_vector` "
             "pinned by an existing test).",
        technique="decorator-table vs signature set comparison; abstract evaluation of the gate functions on gate objects against the outcome table; CFG dominators and path conditions on the wrappers", ref="DESIGN.md §2 C04"),
    "C08": dict(
        text="core/approx.py is evaluated abstractly with symbolic numbers, quantities and tolerances; `x == pytest.approx(y, rel=, abs=)` becomes a symbolic verdict and wherever the code branches on a verdict both truth values are explored, so each function's result is a truth table over its verdicts whatever the shape of the code. Decided: the dimension assertion on (lhs, rhs) is passed on every run (A1); the result is the conjunction of the re- and im-comparisons of the operands' SI values (A2); the default relative tolerance is the constant 0.001, re-bound nowhere (A3); rel/abs defaults and an exact comparison for infinite operands (A4); tolerances and dimension reach the number comparison unchanged through all four functions (A5); assert_equal fails exactly when the verdict is false and wraps only bare operands (A6); every component pair of a vector is asserted and unequal lengths are refused (A7). Every weakening of the oracle keeps all 2568 tests green by construction, so only an analysis of approx.py itself can notice.",
        note="Trusts pytest.approx's documented contract and sympy re/im. Floating-point behaviour exactly at the tolerance boundary is not decided.",
        technique="abstract evaluation of the oracle's source with symbolic verdicts, all truth assignments explored", ref='DESIGN.md §2 C08'),
    "C03": dict(
        text="Static necessary conditions, exhaustive over the package: the name-dependency graph between all 846 modules is acyclic and an "
             "exact simulation of CPython's import algorithm, started from every module as the first import of a fresh interpreter, finds "
             "every imported name bound (I1); every module-level attribute read on an imported library module resolves (I2); no catalogue "
             "module has an import-time effect on foreign objects or global SymPy state and the name counters have a single +1 writer "
             "(I3); symbolic wrappers cannot alias through SymPy's display-string-keyed symbol cache (I4); every function symbol is applied "
             "with its declared arity at import (I5); no .subs mapping of a catalogue module chains two plain-symbol replacements whose "
             "order SymPy derives from generated names (I6, also for applied functions, values reached through constructions and a caller's "
             "free-form expression); no positional use of name-ordered collections such as solve(..., dict=True)[k].values() (I7); the import simulator "
             "also replays attribute reads on partially initialised sub-modules; the counter table is process-wide. These are statements about all import orders / histories that one test order cannot "
             "give; six catalogue modules are imported by no test at all.",
        note="Does NOT decide that derivation asserts and solve(...)[k]/simplify pick the same branch under every state of the SYM<n> "
             "counters (SymPy's name-driven ordering); imports inside functions are not import-time dependencies; foreign packages are "
             "assumed importable.",
        technique="import-graph SCCs + simulated import algorithm over static imports; module-level effect scan; arity/attribute resolution by abstract interpretation", ref="DESIGN.md §2 C03"),
    "C05": dict(
        text="collect_quantity.py is evaluated abstractly on ~470 expression trees (every node kind the property names at depth one and two, over quantities of several dimensions, a zero-valued quantity, a prefix, exact and floating point numbers, a free symbol, an unevaluated derivative); each answer - (scale factor term, dimension) or a refusal - is compared with the property: the scale factor is the value of the expression on the leaves' SI values (exact normal form), the dimension the dimensional product of the parts with exponents taken exactly, and a tree is refused exactly when a sum/min/max has terms of inequivalent dimensions (zero-valued terms aside), an exponent or function argument is dimensional, or a symbol/derivative remains. Quantity.__init__ is evaluated on gate objects: the registered scale is the collected one itself, the dimension the explicit-or-collected one, nothing is registered for a non-numeric scale, a contradicting explicit dimension is refused. Only answers are judged, so any code shape with this meaning passes.",
        note="Decided for the tree family, not for all SymPy expression kinds; SymPy's own arithmetic on numeric scale factors is trusted. The any-dimension predicate is decided by K5.",
        technique="abstract evaluation of the collector's source on a family of expression trees, answers compared with a specification function in an exact normal form", ref='DESIGN.md §2 C05/C06'),
    "C06": dict(
        text="collect_expression.py is evaluated abstractly on ~1100 expression trees over dimensioned symbols, applied functions, elements of indexed symbols, quantities (one zero-valued) and numbers, every node kind of the property (products, powers, sums, min/max, absolute value, derivatives, elementary functions) at depth one and two; each answer is compared with the property: the dimension is the combination of the leaves' declared dimensions (exponents exactly, a derivative divides by its variables' dimensions), the returned expression is value-equal to the input, and an error is reported exactly for inequivalent sum/min/max terms (zero-valued excepted) or a dimensional exponent. Symbolic.__init__ stores the inferred dimension of its argument.",
        note='The run-time clause (replace symbols by quantities, construct the quantity) follows from S1 here and S1 of C05 for the tree family, not for all SymPy expression kinds.',
        technique="abstract evaluation of the collector's source on a family of expression trees, answers compared with a specification function in an exact normal form", ref='DESIGN.md §2 C05/C06'),
    "C07": dict(
        text="convert_to (evaluated from its source on quantity and non-quantity operands, twice in a row) is decided to be the ratio value.scale_factor/target.scale_factor guarded by the dimension "
             "assertion on exactly its two operands - composition, inversion and SI agreement then follow algebraically given C05; the SI base table is "
             "checked against SymPy's unit tables read from source (total, right dimension, SI value 1) and the product formula over "
             "dimensional dependencies; the Celsius helpers are affine with one shared constant 273.15, keep the temperature dimension at 0 K "
             "and are stateless (no memoisation, no stores into arguments). The Celsius helpers, evaluate_expression and dimension_to_si_unit are "
             "evaluated from their source on symbolic inputs (whatever the shape of the code).",
        note="Exactness of Fraction/float division and SymPy's subs inside evaluate_expression are not decided; scale factors are assumed to be SI scale factors (C05).",
        technique="abstract evaluation of convert_to / convert_to_si / convert_to_float and the helpers, table check against SymPy unit sources", ref="DESIGN.md §2 C07"),
    "C09": dict(
        text="Fresh-name provenance for every constructor that creates a SymPy object (the name is next_name(<literal>) on every path, never "
             "data-dependent on display names), injectivity of (prefix, counter) -> name, single monotone writer of the counters, clone "
             "helpers forwarding dimension / both display names / subscript / assumptions (sibling cross-check), printers showing display "
             "names (also no `__name__` of a library function in the printers' helpers); no identity override or constructor cache on the symbol classes; "
             "coordinate-system factories return a fresh object on every path; every other call of a name-keyed SymPy base constructor in core/docs is held to the same rule; no symbol-making function called from a constructor is memoised. These quantify over all creation sequences because they are facts about every path of the constructors.",
        note="Trusts that SymPy treats differently named symbols as distinct under subs/solve/diff. One frozen exception (IndexedSymbol re-created "
             "from an existing SymPy symbol). One defect found and repaired (clone_as_function dropped assumptions).",
        technique="abstract evaluation of the constructors and of the clone helpers on model symbols (what reaches the SymPy base constructor / the new symbol is compared with the property); who-may-write; class-level rules for identity overrides", ref="DESIGN.md §2 C09"),
    "C10": dict(
        text="core/vectors/arithmetics.py is evaluated abstractly over generic component indeterminates for every length combination "
             "0..3 x 0..3 (x 0..3) and every coordinate-system identity/kind combination - exactly the property's quantifier. Component "
             "formulas equal the reference on zero-extended operands in exact normal form, the listed vector-space / dot / cross / "
             "projection / unit laws are decided on the evaluated results themselves, and the refusals end in a raise. 521 obligations.",
        note="Not decided: what SymPy does to symbolic components (sympify, automatic evaluation). The abstract evaluator supports the "
             "python subset used by this file; anything else is ANALYSIS-ERROR.",
        technique="abstract evaluation of the source over symbolic components + exact polynomial/rational normal form", ref="DESIGN.md §2 C10"),
    "C11": dict(
        text="The five transformation tuples are read from the source and decided equal to the library's documented convention in exact normal "
             "form (angles via sine and cosine), Cartesian->curvilinear->Cartesian is the identity; the curvilinear dot/scale/magnitude "
             "formulas equal the Cartesian operation on the re-expressed components for lengths 0..3; cylindrical<->spherical falls through "
             "to a raise; the fields' (point class, system) refusal table is complete and dominates the evaluation; Vector.rebase, "
             "ScalarField.rebase and the fields' point evaluation are evaluated abstractly: what they hand to sympy is the table with every base "
             "scalar replaced at once by the matching component/coordinate (0 for a missing one), also for points written in the system's own scalars.",
        note="sympy.vector.express and singular points are not decided; radial coordinates assumed non-negative.",
        technique="transformation_to_system and the fields' __call__ evaluated abstractly (tables, refusals per point class and system kind); exact algebra; abstract evaluation of the substitution steps", ref="DESIGN.md §2 C11"),
    "C12": dict(
        text="operators.py is evaluated abstractly for every component count 0..3 and two families of component functions (GENERIC undefined "
             "functions of the three base scalars - hence every twice-differentiable field - and constants): every component of grad/div/curl "
             "in the three systems equals the orthogonal-curvilinear (Lame) reference in an exact differential normal form; curl(grad f)=0 "
             "and div(curl F)=0 are decided by composing the repository's own formulas; short fields behave as zero-padded ones.",
        note="Trusted: the Lame-coefficient form of the operators and this library's coordinate orderings (cross-checked against its own "
             "transformation table by C11/T6). Behaviour-preserving algebraic rewrites do not fire.",
        technique="abstract evaluation of the operator code over generic fields + formal derivation + exact normal form of rational functions with sin^2+cos^2=1", ref="DESIGN.md §2 C12"),
    "C13": dict(
        text="Only the structural clause: the six circulation/flux routines are evaluated abstractly with field values, curls and divergences that are "
             "generic functions OF THE POINT and generic parametrisations (undefined functions of t / (u, v)), so that where a field is evaluated is decided too; every sympy.integrate call is captured and its integrand and limits are "
             "decided, in exact normal form, to be the differential forms Stokes', Green's and Gauss' theorems are about (A.dr, A.(r_u x r_v), "
             "flux of curl over the same surface, A_x y' - A_y x', div F |r_u x r_v|, div F h1h2h3 with each variable paired with its own "
             "limits); no assumption-forcing simplification (posify, force=True) touches an integrand factor; a curvilinear field is refused by the line integral or integrated with the system's line element; a field that stores a value is substituted at the point when applied (the same function of the point the operators differentiate). A wrong integrand, normal "
             "orientation, area/volume element or limit pairing breaks the theorems for every field.",
        note="NOT decided: that sympy.integrate/simplify evaluate the integrals correctly, i.e. the numerical agreement of the two sides; the "
             "theorems themselves are trusted mathematics; curl/div correctness is C12.",
        technique="abstract evaluation of the integral-building code over generic fields/parametrisations + exact normal form of captured integrands", ref="DESIGN.md §2 C13"),
    "C14": dict(
        text="The six product-rewrite rules, the repeated-operand shortcuts and the mixed-product expansion are decided as polynomial "
             "identities in the components of generic real 3-vectors (so for every assignment), the permutation-sign discipline of the three "
             "products is checked (operands ordered by object identity), operand hooks are always called with (left, right) of the product "
             "being evaluated, every _eval_derivative equals the formal derivative for generic vector functions, and differentiation / "
             "re-evaluation is well-founded (R5: irreducible vector classes are atomic or hooked; _eval_derivative recurses on strict sub-expressions only); a higher-order "
             "derivative hook, where defined, is the n-th formal derivative (orders 2, 3); the norm is absolutely homogeneous (R6: a product of manifestly non-negative factors whose square is v.v).",
        note="Not decided: the multilinear expansion engine (_ordered_mul/into_terms/split_factor run SymPy's expand), termination inside SymPy, "
             "id()-order independence beyond the sign rule. Four defects found and repaired (Binet-Cauchy term; three non-terminating derivative paths).",
        technique="the operand hooks, the three product constructors (against a stand-in for _ordered_mul, shared when it is memoised) and sort_with_sign (on every order pattern of up to three operands) evaluated abstractly on generic component vectors; exact polynomial identity test", ref="DESIGN.md §2 C14"),
    "C15": dict(
        text="The twelve conversion tables and three Lame triples are decided mutually consistent: position maps commute with every scalar "
             "conversion (gives direct = via third system and round trips on the charts), base-vector tables are orthonormal rotations, "
             "inverse to each other and equal to the normalised position derivatives, Lame coefficients are the lengths of the position "
             "derivatives; angle entries stay on one branch (direct = via the third system and A->B->A = identity entry by entry: exact modulo 2 pi, "
             "the branch on a grid covering every sign pattern and the coordinate planes); convert_point/convert_vector are evaluated abstractly "
             "against these tables for all nine ordered pairs (coordinates inserted at once); no identity-keyed result cache, no iterable traversed twice; "
             "TypeError fall-through.",
        note="Behaviour ON the singular sets (z axis, origin, azimuth cut) is not decided; inequalities are reported only with a numeric witness "
             "computed on the terms read from the source.",
        technique="dict/tuple literals (through helpers, Mod, Piecewise) read into terms; exact algebra with radicals and sin/cos of atan2/acos; "
                  "abstract evaluation of convert.py", ref="DESIGN.md §2 C15"),
    "C16": dict(
        text="solve_for_vector is evaluated abstractly as a whole in a finite-sum abstraction: for every length 1..4 and every position of the unknown, "
             "for vectors occurring in several terms, coefficients that mention the unknown and Eq inputs, with generic vectors and coefficients, the "
             "returned equation satisfies lhs - rhs = expr/scale (or -expr), i.e. it is equivalent to the input for all coefficient values; non-vector "
             "inputs (a bare dot product included, although its class names its operands lhs/rhs) and missing unknowns end in a raise; solve_for_scalar never disables SymPy's verification of "
             "solutions and keeps no caller's keywords for the next call; is_vector_expr refuses products of two or more vectors.",
        note="Assumes into_terms/split_factor return the (vector, coefficient) decomposition; solve_for_scalar's solver and vector_equals' simplify are trusted.",
        technique="abstract evaluation of the whole function over generic (vector, coefficient) terms + exact normal form; structural rules for apply/solve_for_scalar/is_vector_expr", ref="DESIGN.md §2 C16"),
    "C18": dict(
        text="The well-formedness clause: by induction over the custom LaTeX printer, every emitted template (26) and every display_latex/"
             "subscript literal embedded verbatim (870+) is brace- and \\left/\\right-balanced, and LaTeX strings are only composed, never cut, "
             "so concatenations of balanced sub-results stay balanced. Plus three necessary conditions of the value clause that are visible in "
             "the code: an outer exponent passed to a printer method is used on every path, numbers are never rounded/re-formatted, no f-string "
             "emits an unsubstituted {placeholder}, subscripts are attached as braced groups, the number separator is decided on rendered text, "
             "no sign is taken out of a power base without an odd-exponent test, an override of SymPy's bracket predicates only adds brackets, no printer built from one caller's settings is kept for the next call, and "
             "_print_Mul (evaluated from its source on eight products that carry a factor -1) writes the sign once and keeps a remaining sum in brackets.",
        note="Meaning preservation as a whole is NOT claimed (depends on SymPy predicates over run-time trees); SymPy's own LatexPrinter is trusted to be balanced.",
        technique="template extraction from f-strings/%-formats/literals + balance check (structural induction)", ref="DESIGN.md §2 C18"),
    "C19": dict(
        text="The suite never runs the generator. Decided statically over all ~735 documented modules and the generator's own code: exec-compatibility "
             "of the kept prefix under exec(code, {}, context), no __future__ imports, page uniqueness, placeholder discipline, resolvability "
             "of every :symbols:/:quantity_notation: role, absence of order-visible iteration over unordered collections, pairing of the "
             "evaluation disable/reset nodes and the value reset restores, the role resolvers' registration admitting every Symbol/Quantity, "
             "no unsubstituted {placeholder} in the generator's f-strings, every :symbols: role linked to a sub-module page that defines (not merely imports) the name, and the page composers print_law / print_package (evaluated for every combination of empty and "
             "non-empty members, functions, laws and sub-packages) putting every part on the page.",
        note="Does not decide that Sphinx/exec/printing actually succeed on every module. No replica of the generator is kept: patch_sympy_evaluate, "
             "find_title_and_description and find_members_and_functions (up to compile) are evaluated from their source on every module's real syntax tree. "
             "One defect found and repaired (hash-seed dependent role resolution).",
        technique="concrete evaluation of the generator's own functions on each module's ast (kept prefix, inserted nodes, titles, documented members); scope analysis of module-level nested scopes, table checks, unordered-iteration dataflow", ref="DESIGN.md §2 C19"),
    "C20": dict(
        text="Finite table decided exhaustively: all 27 constants are folded from their source expressions over SymPy's unit tables "
             "(parsed from SymPy's source) to an SI value and a dimension vector and compared with a CODATA-2018/IAU reference table at "
             "the precision each literal states; the seven identities of the property are evaluated on the folded values; the unit system's "
             "per-quantity tables are written only by Quantity.__init__ for self (who-may-call), the initialiser is never re-run explicitly, quantity "
             "names come from one process-wide counter, and no submodule of the constants package has the name of a constant (importing it would rebind the exported name).",
        note="Reference table and tolerances are hard-coded in sa/rules/c20.py (the 27 constants plus ~30 CODATA names a maintainer may add); corruption below the stated precision is invisible; a constant under an unknown name or defined through an unknown helper makes the check refuse (exit 2).",
        technique="static constant folding over unit tables read from source; who-may-call scan of the unit-system setters", ref="DESIGN.md §2 C20"),
}

NA_REASONS = {
    "C17": "bracket/sign logic over an unbounded space of run-time expression shapes; needs a parse round-trip, i.e. execution (DESIGN.md §4)",
}

checks = []
for pid, c in CLAIMS.items():
    checks.append({
        "property_id": pid,
        "quick_cmd": f"./check {pid} --tier quick",
        "thorough_cmd": f"./check {pid} --tier thorough",
        "evidence_file": f"/verif/evidence/{pid}.json",
        "replay_cmd_template": f"./check {pid} --replay {{path}}",
        "engine": "sa",
        "level_claimed": {"category": "other", "text": c["text"], "design_ref": c["ref"]},
        "level_note": c["note"],
        "technique": c["technique"],
    })
na = [{"property_id": p["id"], "reason": NA_REASONS.get(p["id"], "check not built yet (work in progress; DESIGN.md §5)")}
      for p in props if p["id"] not in CLAIMS]
m = {
    "version": 1,
    "setup_cmd": "true",
    "hooks": {
        "guard": "SYMPLYPHYSICS_VERIF",
        "enable": "none needed: every check reads /repo sources only; no instrumentation exists in /repo",
        "baseline_off_cmd": "cd /repo && /venv/bin/python -m pytest -q -p no:cacheprovider --timeout=900 -n 16",
        "source_commits": [],
        "add_only": True,
    },
    "engines": [{
        "name": "sa", "path": "/verif/sa", "serves_properties": sorted(CLAIMS),
        "kind_free_text": "repository-specific static analysis over python ASTs (pure stdlib, run with /venv/bin/python): source model with "
                          "overlays, dimension abstract interpreter, statement CFG/dataflow, import simulator, exact algebra for closed-form tables",
    }],
    "checks": checks,
    "not_applicable": na,
    "notes": "All checks are static: they parse /repo (and the pinned SymPy unit sources) and never import or run repository code. "
             "exit 0 = held, 1 = VIOLATION line, 2 = ANALYSIS-ERROR (analysis broken, no verdict). Known findings: /verif/known_findings.json. "
             "Checker self-test (not a check): ./selftest.py.",
}
json.dump(m, open(os.path.join(HERE, "MANIFEST.json"), "w"), indent=1)
print("claimed:", sorted(CLAIMS), "n/a:", [x["property_id"] for x in na])
