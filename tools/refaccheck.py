#!/usr/bin/env python3
"""Runs every registered quick check against /repo with a BEHAVIOUR-PRESERVING refactoring applied: each must stay silent.

usage: tools/refaccheck.py <refactoring dir with patch.diff> [...]

For every directory: git -C /repo apply patch.diff, run all quick commands of MANIFEST.json, git -C /repo checkout -- . ; prints one
line per directory: SILENT, or the checks that exited 1 (a false alarm unless the refactoring is not behaviour-preserving after all) or 2
(a refusal). Evidence files are regenerated on the clean tree afterwards.
"""
import json
import os
import re
import subprocess
import sys

REPO = "/repo"
VERIF = os.path.dirname(os.path.dirname(os.path.abspath(__file__)))


def sh(cmd, cwd=None, timeout=900):
    p = subprocess.run(cmd, shell=True, cwd=cwd, capture_output=True, text=True, timeout=timeout)
    return p.returncode, p.stdout + p.stderr


def main() -> int:
    manifest = json.load(open(os.path.join(VERIF, "MANIFEST.json")))
    results = {}
    dirty_props = set()
    for d in sys.argv[1:]:
        d = os.path.abspath(d)
        patch = os.path.join(d, "patch.diff")
        rc, o = sh(f"git -C {REPO} status --porcelain")
        if o.strip():
            print("REFUSING: /repo is not clean:\n" + o)
            return 2
        rc, o = sh(f"git -C {REPO} apply {patch}")
        if rc:
            results[d] = {"applies": False, "error": o[-300:]}
            print(os.path.basename(d), "PATCH DOES NOT APPLY", o[-200:].replace("\n", " "), flush=True)
            continue
        out = {}
        try:
            for c in manifest["checks"]:
                pid = c["property_id"]
                rc, o = sh(c["quick_cmd"], cwd=VERIF)
                if rc != 0:
                    dirty_props.add(pid)
                    lines = [l for l in o.splitlines() if (l.startswith(f"[{pid}] ") and re.match(r"\[\w+\] [A-Z]\d ", l)) or "ANALYSIS-ERROR" in l or "ANALYSIS-INCOMPLETE" in l]
                    out[pid] = {"exit": rc, "reports": [l[:500] for l in lines[:4]]}
        finally:
            sh(f"git -C {REPO} checkout -- . && git -C {REPO} clean -fdq")
        results[d] = {"applies": True, "alarms": out}
        print(os.path.basename(d), "SILENT" if not out else json.dumps(out)[:1500], flush=True)
    for c in manifest["checks"]:
        if c["property_id"] in dirty_props:
            sh(c["quick_cmd"], cwd=VERIF)
    json.dump(results, open("/tmp/refaccheck_last.json", "w"), indent=1)
    return 0


if __name__ == "__main__":
    sys.exit(main())
