#!/usr/bin/env python3
"""Rewrites the seed table at the end of DESIGN.md section 7 from seeded/INDEX.json and seeded/<id>/meta.json, and prints the per-round counts."""
import json
import re
from pathlib import Path

VERIF = Path(__file__).resolve().parent.parent
idx = json.loads((VERIF / "seeded" / "INDEX.json").read_text())
rows = ["| seed | reported by (check-rule) | now | as built / what changed |", "|---|---|---|---|"]
counts: dict = {}
for e in idx:
    sid, status, detail = e["seed"], e["status"], e["detail"]
    rnd = "b6" if sid.startswith("b6_") else "b5" if sid.startswith("b5_") else "b4" if sid.startswith("b4_") else ("b3" if sid.startswith("b3_") else ("b1" if int(sid[1:3]) <= 8 else "b2"))
    c = counts.setdefault(rnd, {"kept": 0, "as built": 0, "after strengthening": 0, "refused now": 0, "missed now": 0, "dropped": 0})
    if status in ("dropped", "unconfirmed"):
        c["dropped"] += 1
        rows.append(f"| {sid} | – | {status} | {detail[:330]} |")
        continue
    meta = json.loads((VERIF / "seeded" / sid / "meta.json").read_text())
    rep = "; ".join(f"{k}-{'/'.join(v['rules'])}" if v["exit"] == 1 else f"{k} exit 2" for k, v in sorted(meta["checks_reporting"].items())) or "–"
    hist = meta["history"]
    c["kept"] += 1
    if status == "caught":
        c["as built" if hist.startswith("caught as built") else "after strengthening"] += 1
    elif status == "refused":
        c["refused now"] += 1
    else:
        c["missed now"] += 1
    rows.append(f"| {sid} | {rep} | {status} | {hist[:330]} |")
text = (VERIF / "DESIGN.md").read_text()
m = re.search(r"\| seed \| reported by \(check-rule\) \| now \| as built / what changed \|\n(\|.*\n)+", text)
if not m:
    raise SystemExit("table not found in DESIGN.md")
text = text[:m.start()] + "\n".join(rows) + "\n" + text[m.end():]
(VERIF / "DESIGN.md").write_text(text)
print(json.dumps(counts, indent=1))
