#!/usr/bin/env python3
"""Confirms a seeded change and records which checks catch it.

usage: tools/seedcheck.py <seed_dir> [--skip-suite] [--only C01,C02]

1. in a scratch worktree (/tmp/wt_verify): demo.py exits 0 on the pristine tree, non-zero with patch.diff applied, and the
   full baseline suite still passes with the patch;
2. applies the patch to /repo, runs every claimed check (quick), collects exit codes and VIOLATION lines, reverts /repo.
Prints a JSON summary (also usable as the basis of seeded/<id>/meta.json).
"""
import json
import os
import re
import subprocess
import sys

REPO = "/repo"
WT = "/tmp/wt_verify"
VERIF = os.path.dirname(os.path.dirname(os.path.abspath(__file__)))
PY = "/venv/bin/python"


def sh(cmd, cwd=None, timeout=1800):
    p = subprocess.run(cmd, shell=True, cwd=cwd, capture_output=True, text=True, timeout=timeout)
    return p.returncode, p.stdout + p.stderr


def main():
    seed = os.path.abspath(sys.argv[1])
    skip_suite = "--skip-suite" in sys.argv
    phase = "all"
    for a in sys.argv[2:]:
        if a.startswith("--phase="):
            phase = a.split("=", 1)[1]
    only = None
    for a in sys.argv[2:]:
        if a.startswith("--only"):
            only = a.split("=", 1)[1].split(",") if "=" in a else None
    patch = os.path.join(seed, "patch.diff")
    demo = os.path.join(seed, "demo.py")
    out = {"seed": seed}
    if phase == "checks":
        return checks_phase(out, patch, only)
    if not os.path.isdir(WT):
        rc, o = sh(f"git -C {REPO} worktree add -q {WT} HEAD")
        if rc:
            print(o)
            return 2
    sh("git checkout -q -- . && git clean -fdq", cwd=WT)
    sh(f"git -C {WT} checkout -q --detach $(git -C {REPO} rev-parse HEAD)")
    rc, o = sh(f"PYTHONPATH={WT} {PY} {demo}", cwd=WT, timeout=900)  # the worktree package, whatever the demo does with sys.path
    out["demo_pristine_exit"] = rc
    out["demo_pristine_tail"] = o[-400:]
    rc, o = sh(f"git apply {patch}", cwd=WT)
    out["patch_applies"] = rc == 0
    if rc:
        out["apply_error"] = o[-400:]
        print(json.dumps(out, indent=1))
        return 1
    rc, o = sh(f"PYTHONPATH={WT} {PY} {demo}", cwd=WT, timeout=900)
    out["demo_patched_exit"] = rc
    out["demo_patched_tail"] = o[-600:]
    if not skip_suite:
        rc, o = sh(f"{PY} -m pytest -q -p no:cacheprovider --timeout=900 -n 16 test", cwd=WT, timeout=3600)
        m = re.search(r"(\d+) passed", o)
        f = re.search(r"(\d+) failed", o)
        e = re.search(r"(\d+) error", o)
        out["suite_passed"] = int(m.group(1)) if m else 0
        out["suite_failed"] = int(f.group(1)) if f else 0
        out["suite_errors"] = int(e.group(1)) if e else 0
        out["suite_tail"] = o[-300:]
    sh("git checkout -q -- . && git clean -fdq", cwd=WT)
    if phase == "suite":
        print(json.dumps(out, indent=1))
        return 0
    return checks_phase(out, patch, only)


def checks_phase(out, patch, only):
    # --- checks against /repo with the patch applied
    rc, o = sh(f"git -C {REPO} status --porcelain")
    if o.strip():
        print("REFUSING: /repo is not clean:\n" + o)
        return 2
    rc, o = sh(f"git -C {REPO} apply {patch}")
    if rc:
        rc, o2 = sh(f"git -C {REPO} apply --3way {patch}")
        out["applied_with_3way"] = rc == 0
        if rc:
            out["repo_apply_error"] = (o + o2)[-500:]
            sh(f"git -C {REPO} reset -q --hard HEAD")
            print(json.dumps(out, indent=1))
            return 1
        sh(f"git -C {REPO} reset -q")
        sh(f"git -C {REPO} diff > {patch}.rebased")
        out["rebased_patch"] = patch + ".rebased"
    try:
        manifest = json.load(open(os.path.join(VERIF, "MANIFEST.json")))
        caught = {}
        todo = [c for c in manifest["checks"] if not only or c["property_id"] in only]

        def one(c):
            return c["property_id"], sh(c["quick_cmd"], cwd=VERIF, timeout=900)

        from concurrent.futures import ThreadPoolExecutor
        with ThreadPoolExecutor(16) as ex:
            for pid, (rc, o) in ex.map(one, todo):
                if rc != 0:
                    lines = [l for l in o.splitlines() if l.startswith(f"[{pid}] ") and re.match(r"\[\w+\] [A-Z]\d+ ", l)]
                    caught[pid] = {"exit": rc, "reports": [l[:300] for l in lines[:4]] or [l for l in o.splitlines() if "ANALYSIS-ERROR" in l][:2]}
        out["caught_by"] = caught
    finally:
        sh(f"git -C {REPO} checkout -- . && git -C {REPO} clean -fdq")
        rc, o = sh(f"git -C {REPO} status --porcelain")
        if o.strip():
            sh(f"git -C {REPO} checkout -- . && git -C {REPO} clean -fdq")
        out["repo_clean_after"] = not sh(f"git -C {REPO} status --porcelain")[1].strip()
    # evidence files were rewritten by the runs on the patched tree: regenerate them on the clean tree
    if "--no-regen" not in sys.argv:
        for c in manifest["checks"]:
            if not only or c["property_id"] in only:
                sh(c["quick_cmd"], cwd=VERIF)
    print(json.dumps(out, indent=1))
    return 0


if __name__ == "__main__":
    sys.exit(main())
