import ast, pathlib, re, collections
root = pathlib.Path('/repo/symplyphysics')
symmods = {}
for p in (root/'symbols').glob('*.py'):
    if p.name=='__init__.py': continue
    t = ast.parse(p.read_text())
    names=set()
    for s in t.body:
        if isinstance(s, ast.Assign) and isinstance(s.value, ast.Call) and ast.unparse(s.value.func) in ('Symbol','clone_as_symbol','SymbolNew','IndexedSymbol','clone_as_indexed'):
            for tg in s.targets: names.add(tg.id)
    symmods[p.stem]=names
allsyms = set().union(*symmods.values())
t = ast.parse((root/'symbols/__init__.py').read_text())
allv=None
for s in t.body:
    if isinstance(s, ast.Assign) and s.targets[0].id=='__all__': allv=[e.value for e in s.value.elts]
print('symbols defined', len(allsyms), '__all__', len(allv), len(set(allv)))
print('defined not in __all__', sorted(allsyms-set(allv)))
print('__all__ not defined', sorted(set(allv)-allsyms))
dups = [k for k,v in collections.Counter(allv).items() if v>1]; print('dup in __all__', dups)
# name defined in two modules?
cnt = collections.Counter(n for v in symmods.values() for n in v); print('multi-def', [k for k,v in cnt.items() if v>1])
qt = ast.parse((root/'quantities/__init__.py').read_text())
qnames = {tg.id for s in qt.body if isinstance(s, ast.Assign) and isinstance(s.value, ast.Call) and ast.unparse(s.value.func)=='Quantity' for tg in s.targets}
pat_s = re.compile(r":symbols:`(\w*)`"); pat_q = re.compile(r":quantity_notation:`(\w*)`")
bad=[]; ns=nq=0
anyrole = re.compile(r":(symbols|quantity_notation):`([^`]*)`")
for p in root.rglob('*.py'):
    src = p.read_text()
    for m in anyrole.finditer(src):
        role, name = m.groups()
        if role=='symbols':
            ns+=1
            if name not in allsyms: bad.append((str(p.relative_to(root)), role, name))
        else:
            nq+=1
            if name not in qnames: bad.append((str(p.relative_to(root)), role, name))
print(ns, nq, 'BAD', bad)
# malformed roles that the regex of the processor would not match (e.g. with dots)
weird = re.compile(r":(symbols|quantity_notation):`([^`]*[^\w`][^`]*)`")
for p in root.rglob('*.py'):
    for m in weird.finditer(p.read_text()): print('WEIRD', p.relative_to(root), m.group(0))
