import ast, pathlib, collections
root = pathlib.Path('/repo/symplyphysics')
files = [p for d in ('laws','definitions','conditions') for p in (root/d).rglob('*.py') if p.name != '__init__.py']
calls = collections.Counter(); meths = collections.Counter(); binops=[]; stm = collections.Counter()
retforms = collections.Counter()
for p in files:
    t = ast.parse(p.read_text())
    for s in t.body:
        if isinstance(s, ast.FunctionDef) and s.name.startswith('calculate'):
            for n in ast.walk(s):
                if isinstance(n, ast.Call):
                    if isinstance(n.func, ast.Name): calls[n.func.id]+=1
                    elif isinstance(n.func, ast.Attribute): meths[n.func.attr]+=1
            for b in s.body: stm[type(b).__name__]+=1
            # tainted-binop: simple forward taint within function
            tainted=set()
            def is_t(e):
                for n in ast.walk(e):
                    if isinstance(n, ast.Name) and (n.id in tainted or n.id in ('law','definition') or n.id.endswith('_law') ):
                        return True
                    if isinstance(n, ast.Attribute) and n.attr in ('law','definition'): return True
                return False
            for b in ast.walk(s):
                if isinstance(b, ast.Assign) and is_t(b.value):
                    for tg in b.targets:
                        for n in ast.walk(tg):
                            if isinstance(n, ast.Name): tainted.add(n.id)
            for b in ast.walk(s):
                if isinstance(b, ast.BinOp) and (is_t(b.left) or is_t(b.right)):
                    binops.append((str(p.relative_to(root)), s.name, ast.unparse(b)[:110]))
                if isinstance(b, ast.Return) and b.value is not None:
                    v=b.value
                    retforms[ast.unparse(v.func) if isinstance(v, ast.Call) else type(v).__name__]+=1
print('CALLS', calls.most_common(70))
print('METHS', meths.most_common(50))
print('STMTS', stm.most_common())
print('RET', retforms.most_common(40))
print('TAINTED BINOPS', len(binops))
for b in binops: print(b)
