import ast, sys, collections, pathlib
root = pathlib.Path('/repo/symplyphysics')
cat_dirs = ['laws','definitions','conditions']
files = [p for d in cat_dirs for p in (root/d).rglob('*.py') if p.name != '__init__.py']
deco = collections.Counter()
mism = []
unguarded = collections.Counter()
unguarded_list=[]
nfun=0
annot = collections.Counter()
for p in files:
    t = ast.parse(p.read_text())
    for s in t.body:
        if isinstance(s, ast.FunctionDef):
            decs = [ast.unparse(d.func) if isinstance(d, ast.Call) else ast.unparse(d) for d in s.decorator_list]
            for d in decs: deco[d]+=1
            if not decs: deco['<none>:'+('calc' if s.name.startswith('calculate') else 'other')]+=1
            params = [a.arg for a in s.args.posonlyargs+s.args.args+s.args.kwonlyargs]
            if s.args.vararg: params.append('*'+s.args.vararg.arg)
            for d in s.decorator_list:
                if isinstance(d, ast.Call) and ast.unparse(d.func)=='validate_input':
                    nfun+=1
                    keys=[k.arg for k in d.keywords]
                    if d.args or any(k is None for k in keys): mism.append((str(p),s.name,'positional/**'))
                    for k in keys:
                        if k not in params: mism.append((str(p.relative_to(root)),s.name,k,params))
                    for a in s.args.args:
                        if a.arg not in keys:
                            an = ast.unparse(a.annotation) if a.annotation else None
                            unguarded[an]+=1
                            unguarded_list.append((str(p.relative_to(root)),s.name,a.arg,an))
print(deco.most_common())
print('validate_input fns',nfun)
print('MISMATCH',mism)
print('UNGUARDED by annotation', unguarded.most_common())
for u in unguarded_list:
    if u[3] in ('Quantity','QuantityVector','Sequence[Quantity]','Vector', None): print(u)
