import ast, pathlib, collections, re
root = pathlib.Path('/repo/symplyphysics')
names = collections.Counter(); latex=collections.Counter(); subs=collections.Counter()
for p in root.rglob('*.py'):
    t = ast.parse(p.read_text())
    for n in ast.walk(t):
        if isinstance(n, ast.Call):
            f = ast.unparse(n.func)
            if f in ('Symbol','Function','IndexedSymbol','clone_as_symbol','clone_as_function','clone_as_indexed','Quantity','VectorSymbol','VectorFunction','SymbolNew'):
                if f in ('Symbol','Function','IndexedSymbol','VectorSymbol','VectorFunction') and n.args and isinstance(n.args[0], ast.Constant) and isinstance(n.args[0].value,str):
                    names[n.args[0].value]+=1
                for k in n.keywords:
                    if k.arg in ('display_symbol','display_name') and isinstance(k.value, ast.Constant): names[k.value.value]+=1
                    if k.arg=='display_latex' and isinstance(k.value, ast.Constant): latex[k.value.value]+=1
                    if k.arg=='subscript' and isinstance(k.value, ast.Constant): subs[k.value.value]+=1
                    if k.arg in ('display_symbol','display_latex','subscript','display_name') and not isinstance(k.value, ast.Constant): print('NONCONST', p.name, ast.unparse(k))
ident = re.compile(r'^[A-Za-z_][A-Za-z0-9_]*$')
print('names', len(names), 'non-ident:', [n for n in names if not ident.match(n)])
print('subs', [s for s in subs if not re.match(r'^[A-Za-z0-9_]+$', s)])
def bal(s):
    d=0
    i=0
    while i<len(s):
        ch=s[i]
        if ch=='\\': i+=2; continue
        if ch=='{': d+=1
        if ch=='}': d-=1
        if d<0: return False
        i+=1
    return d==0 and s.count('\\left')==s.count('\\right')
print('latex', len(latex), 'unbalanced', [l for l in latex if not bal(l)])
