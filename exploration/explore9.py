import ast, pathlib, collections, symtable, builtins
root = pathlib.Path('/repo/symplyphysics')
# emulate patch truncation: find last documented node
def last_documented(t):
    cur=-1; last=0
    for idx, s in enumerate(t.body):
        if isinstance(s, ast.FunctionDef):
            if ast.get_docstring(s) is None: continue
            cur=idx; last=idx; continue
        if isinstance(s, ast.Assign):
            for tg in s.targets:
                n = getattr(tg,'id',None)
                if n is None or str(n).startswith('_'): continue
                cur = idx
            continue
        if isinstance(s, ast.Expr) and cur>=0 and isinstance(s.value, ast.Constant):
            last = idx
    return last
cnt=collections.Counter()
for p in sorted(root.rglob('*.py')):
    rel = p.relative_to(root)
    if rel.parts[0] in ('core','docs'): continue
    src = p.read_text(); t = ast.parse(src)
    if ast.get_docstring(t) is None:
        cnt['nodoc']+=1; continue
    last = last_documented(t)
    # __future__ position
    for i,s in enumerate(t.body):
        if isinstance(s, ast.ImportFrom) and s.module=='__future__' and i>=1: print('FUTURE', rel, i)
    kept = t.body[:last+1]
    dropped = t.body[last+1:]
    cnt['kept_stmts']+=len(kept)
    # nested scopes executed at module level in kept region
    for s in kept:
        if isinstance(s, (ast.FunctionDef, ast.ClassDef)): 
            # decorators & defaults evaluated at module level
            nodes = list(s.decorator_list) + (list(s.args.defaults)+[d for d in s.args.kw_defaults if d] if isinstance(s, ast.FunctionDef) else [])
        else:
            nodes=[s]
        for root_node in nodes:
            for n in ast.walk(root_node):
                if isinstance(n, (ast.Lambda, ast.GeneratorExp)):
                    print('NESTED', type(n).__name__, rel, n.lineno, ast.unparse(n)[:90])
                    cnt['nested']+=1
                if isinstance(n, ast.Call) and isinstance(n.func, ast.Name):
                    # call to locally defined python function?
                    pass
    # local function calls at module level
    localfuncs = {s.name for s in t.body if isinstance(s, ast.FunctionDef)}
    for s in kept:
        if isinstance(s, (ast.FunctionDef, ast.ClassDef)): continue
        for n in ast.walk(s):
            if isinstance(n, ast.Call) and isinstance(n.func, ast.Name) and n.func.id in localfuncs:
                print('LOCALCALL', rel, n.lineno, n.func.id); cnt['localcall']+=1
print(cnt)
