import ast, sys, collections, pathlib
root = pathlib.Path('/repo/symplyphysics')
cat_dirs = ['laws','definitions','conditions']
files = [p for d in cat_dirs for p in (root/d).rglob('*.py') if p.name != '__init__.py']
pub = collections.Counter()
noeq = []
for p in files:
    t = ast.parse(p.read_text())
    names = {}
    for s in t.body:
        if isinstance(s, ast.Assign):
            for tg in s.targets:
                if isinstance(tg, ast.Name) and not tg.id.startswith('_'):
                    v = s.value
                    kind = ast.unparse(v.func) if isinstance(v, ast.Call) else type(v).__name__
                    names[tg.id]=kind
    if not any(k=='Eq' for k in names.values()):
        noeq.append((str(p.relative_to(root)), {k:v for k,v in names.items() if k in('law','definition','condition') or v not in ('clone_as_symbol','Symbol','Attribute','clone_as_function')}))
    for k,v in names.items():
        if k in ('law','definition','condition'): pub[(k,v)]+=1
print(pub.most_common())
print(len(noeq))
for x in noeq: print(x)
