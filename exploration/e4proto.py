"""E4 spike: exact rational-function algebra with trig quotient + formal derivation,
and a reader for symplyphysics/core/fields/operators.py. Exploration only."""
import ast, pathlib, itertools
from fractions import Fraction

# ---------- polynomials: dict{monomial: Fraction}; monomial = tuple(sorted((atom, exp))) ----------
# atoms: ('v', name) coordinate ; ('sin', name) ; ('cos', name) ; ('f', fname, derivs_tuple_sorted)

def mono_mul(a, b):
    d = dict(a)
    for k, e in b:
        d[k] = d.get(k, 0) + e
    return tuple(sorted((k, e) for k, e in d.items() if e))


class P:
    __slots__ = ('t',)

    def __init__(self, t=None):
        self.t = {m: c for m, c in (t or {}).items() if c != 0}

    @staticmethod
    def const(c):
        return P({(): Fraction(c)})

    @staticmethod
    def atom(a):
        return P({((a, 1),): Fraction(1)})

    def __add__(self, o):
        d = dict(self.t)
        for m, c in o.t.items():
            d[m] = d.get(m, 0) + c
        return P(d)

    def __neg__(self):
        return P({m: -c for m, c in self.t.items()})

    def __sub__(self, o):
        return self + (-o)

    def __mul__(self, o):
        d = {}
        for m1, c1 in self.t.items():
            for m2, c2 in o.t.items():
                m = mono_mul(m1, m2)
                d[m] = d.get(m, 0) + c1 * c2
        return P(d).reduce()

    def reduce(self):
        """sin(x)^2 -> 1 - cos(x)^2"""
        changed = True
        cur = self
        while changed:
            changed = False
            out = {}
            for m, c in cur.t.items():
                hit = None
                for k, e in m:
                    if k[0] == 'sin' and e >= 2:
                        hit = (k, e)
                        break
                if hit is None:
                    out[m] = out.get(m, 0) + c
                    continue
                changed = True
                k, e = hit
                rest = tuple((kk, ee) for kk, ee in m if kk != k)
                lower = mono_mul(rest, ((k, e - 2),) if e - 2 else ())
                # lower * (1 - cos^2)
                out[lower] = out.get(lower, 0) + c
                m2 = mono_mul(lower, ((('cos', k[1]), 2),))
                out[m2] = out.get(m2, 0) - c
            cur = P(out)
        return cur

    def is_zero(self):
        return not self.reduce().t

    def __repr__(self):
        return ' + '.join(f'{c}*{m}' for m, c in self.t.items()) or '0'


class R:
    """rational function num/den"""
    __slots__ = ('n', 'd')

    def __init__(self, n, d=None):
        self.n = n
        self.d = d if d is not None else P.const(1)

    def __add__(self, o):
        return R(self.n * o.d + o.n * self.d, self.d * o.d)

    def __neg__(self):
        return R(-self.n, self.d)

    def __sub__(self, o):
        return self + (-o)

    def __mul__(self, o):
        return R(self.n * o.n, self.d * o.d)

    def __truediv__(self, o):
        return R(self.n * o.d, self.d * o.n)

    def eq(self, o):
        return (self.n * o.d - o.n * self.d).is_zero()

    def is_zero(self):
        return self.n.is_zero()


def C(c):
    return R(P.const(c))


def A(a):
    return R(P.atom(a))


# ---------- derivation ----------

def d_atom(a, v):
    """derivative of atom a wrt coordinate name v -> R"""
    kind = a[0]
    if kind == 'v':
        return C(1) if a[1] == v else C(0)
    if kind == 'sin':
        return A(('cos', a[1])) if a[1] == v else C(0)
    if kind == 'cos':
        return -A(('sin', a[1])) if a[1] == v else C(0)
    if kind == 'f':
        return A(('f', a[1], tuple(sorted(a[2] + (v,)))))
    raise ValueError(a)


def d_poly(p, v):
    res = C(0)
    for m, c in p.t.items():
        for i, (k, e) in enumerate(m):
            rest = tuple((kk, ee) for j, (kk, ee) in enumerate(m) if j != i)
            lower = mono_mul(rest, ((k, e - 1),) if e - 1 else ())
            term = R(P({lower: c * e})) * d_atom(k, v)
            res = res + term
    return res


def diff(r, v):
    # (n/d)' = (n' d - n d') / d^2
    dn, dd = d_poly(r.n, v), d_poly(r.d, v)
    return (dn * R(r.d) - R(r.n) * dd) / R(r.d * r.d)


# ---------- reader for operators.py ----------

SRC = pathlib.Path('/repo/symplyphysics/core/fields/operators.py')


class Reader:

    def __init__(self, coords):
        self.coords = coords  # names of 3 coordinates by index
        self.env = {}

    def ev(self, n):
        if isinstance(n, ast.Constant):
            return C(n.value)
        if isinstance(n, ast.Name):
            if n.id in self.env:
                return self.env[n.id]
            raise KeyError(n.id)
        if isinstance(n, ast.Attribute) and ast.unparse(n) == 'S.Zero':
            return C(0)
        if isinstance(n, ast.BinOp):
            l, r = self.ev(n.left), self.ev(n.right)
            if isinstance(n.op, ast.Add):
                return l + r
            if isinstance(n.op, ast.Sub):
                return l - r
            if isinstance(n.op, ast.Mult):
                return l * r
            if isinstance(n.op, ast.Div):
                return l / r
            raise ValueError(ast.dump(n.op))
        if isinstance(n, ast.UnaryOp) and isinstance(n.op, ast.USub):
            return -self.ev(n.operand)
        if isinstance(n, ast.Call):
            f = ast.unparse(n.func)
            if f == 'diff':
                e = self.ev(n.args[0])
                v = n.args[1]
                assert isinstance(v, ast.Name)
                vv = self.env[v.id]
                # must be a coordinate atom
                (m, c), = vv.n.t.items()
                ((a, e1),) = m
                assert a[0] == 'v' and e1 == 1 and c == 1
                return diff(e, a[1])
            if f in ('sin', 'cos', 'tan'):
                arg = n.args[0]
                assert isinstance(arg, ast.Name)
                (m, c), = self.env[arg.id].n.t.items()
                ((a, e1),) = m
                assert a[0] == 'v'
                if f == 'sin':
                    return A(('sin', a[1]))
                if f == 'cos':
                    return A(('cos', a[1]))
                return A(('sin', a[1])) / A(('cos', a[1]))
            # base_scalars()[k] handled in Subscript
        if isinstance(n, ast.Subscript):
            base = ast.unparse(n.value)
            k = ast.literal_eval(n.slice)
            if base.endswith('base_scalars()'):
                return A(('v', self.coords[k]))
            if base == 'field_components':
                return self.env['__F'][k]
        raise ValueError('cannot read ' + ast.unparse(n))


def branches(fn):
    """yield (system_name, [stmts]) for `if ...coord_system_type == CoordinateSystem.System.X:` blocks"""
    for s in fn.body:
        if isinstance(s, ast.If):
            t = ast.unparse(s.test)
            for name in ('CARTESIAN', 'CYLINDRICAL', 'SPHERICAL'):
                if t.endswith('CoordinateSystem.System.' + name):
                    yield name, s.body


def read_function(fn, ncomp=3, scalar=False):
    out = {}
    for sysname, body in branches(fn):
        coords = {'CARTESIAN': ['x', 'y', 'z'], 'CYLINDRICAL': ['r', 'theta', 'z'], 'SPHERICAL': ['r', 'theta', 'phi']}[sysname]
        rd = Reader(coords)
        if scalar:
            rd.env['field_space'] = A(('f', 'f', ()))
        else:
            rd.env['__F'] = [A(('f', f'F{k}', ())) for k in range(3)]
        result = None
        for s in body:
            if isinstance(s, ast.Assign):
                tgt = s.targets[0].id
                v = s.value
                if isinstance(v, ast.Call) and ast.unparse(v.func) == 'Vector':
                    result = [rd.ev(e) for e in v.args[0].elts]
                    continue
                rd.env[tgt] = rd.ev(v)
            elif isinstance(s, ast.Return):
                if result is None:
                    result = rd.ev(s.value)
        out[sysname] = (coords, result)
    return out


def main():
    t = ast.parse(SRC.read_text())
    fns = {s.name: s for s in t.body if isinstance(s, ast.FunctionDef)}
    grad = read_function(fns['gradient_operator'], scalar=True)
    div = read_function(fns['divergence_operator'])
    curl = read_function(fns['curl_operator'])
    # reference via Lame coefficients; library ordering; for spherical (r, theta=az, phi=polar): h=(1, r sin(phi), r), left-handed
    for sysname in ('CARTESIAN', 'CYLINDRICAL', 'SPHERICAL'):
        coords, g = grad[sysname]
        q = coords
        h = {'CARTESIAN': [C(1), C(1), C(1)], 'CYLINDRICAL': [C(1), A(('v', 'r')), C(1)],
             'SPHERICAL': [C(1), A(('v', 'r')) * A(('sin', 'phi')), A(('v', 'r'))]}[sysname]
        orient = -1 if sysname == 'SPHERICAL' else 1
        f = A(('f', 'f', ()))
        F = [A(('f', f'F{k}', ())) for k in range(3)]
        ref_g = [diff(f, q[i]) / h[i] for i in range(3)]
        print(sysname, 'grad', [a.eq(b) for a, b in zip(g, ref_g)])
        J = h[0] * h[1] * h[2]
        ref_div = C(0)
        for i in range(3):
            j, k = (i + 1) % 3, (i + 2) % 3
            ref_div = ref_div + diff(F[i] * h[j] * h[k], q[i]) / J
        print(sysname, 'div', div[sysname][1].eq(ref_div))
        ref_curl = []
        for i in range(3):
            j, k = (i + 1) % 3, (i + 2) % 3
            comp = (diff(h[k] * F[k], q[j]) - diff(h[j] * F[j], q[k])) / (h[j] * h[k])
            ref_curl.append(comp * C(orient))
        print(sysname, 'curl', [a.eq(b) for a, b in zip(curl[sysname][1], ref_curl)])
        # identities: curl(grad f) = 0, div(curl F) = 0 using the repo's own formulas re-instantiated
    print('done')


if __name__ == '__main__':
    main()
