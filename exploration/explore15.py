import ast, pathlib, re
p = pathlib.Path('/repo/symplyphysics/docs/printer_latex.py')
t = ast.parse(p.read_text())
def template_of(node):
    if isinstance(node, ast.Constant) and isinstance(node.value, str): return node.value
    if isinstance(node, ast.JoinedStr):
        return ''.join(v.value if isinstance(v, ast.Constant) else '\x00' for v in node.values)
    return None
def bal(s):
    s = re.sub(r'%\(?\w*\)?[sdr]', '\x00', s)
    d=0; i=0
    while i<len(s):
        ch=s[i]
        if ch=='\\' and i+1<len(s) and s[i+1] in '{}\\': i+=2; continue
        if ch=='{': d+=1
        elif ch=='}':
            d-=1
            if d<0: return False
        i+=1
    return d==0 and len(re.findall(r'\\left\b', s))==len(re.findall(r'\\right\b', s))
n=0
for node in ast.walk(t):
    s = template_of(node)
    if s is None: continue
    # skip docstrings
    n+=1
    if not bal(s): print('UNBALANCED', getattr(node,'lineno',0), repr(s))
print('templates', n)
