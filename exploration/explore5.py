import ast, sys, collections, pathlib
root = pathlib.Path('/repo/symplyphysics')
files = [p for p in root.rglob('*.py') if 'core' not in p.parts and 'docs' not in p.parts]
dims = collections.Counter()
kw = collections.Counter()
for p in files:
    t = ast.parse(p.read_text())
    for n in ast.walk(t):
        if isinstance(n, ast.Call):
            f = ast.unparse(n.func)
            if f in ('Symbol','Function','IndexedSymbol','SymbolNew'):
                # dimension position
                idx = {'Symbol':1,'Function':2,'IndexedSymbol':2}[f]
                d = None
                if len(n.args)>idx: d = n.args[idx]
                for k in n.keywords:
                    kw[(f,k.arg)]+=1
                    if k.arg=='dimension': d=k.value
                dims[(f, ast.unparse(d) if d is not None else None)]+=1
for k,v in sorted(dims.items(), key=lambda x:-x[1]): print(v,k)
print(kw)
