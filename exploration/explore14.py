import ast, pathlib, collections, sys
REPO = pathlib.Path('/repo')
mods = {}
for p in (REPO/'symplyphysics').rglob('*.py'):
    rel = p.relative_to(REPO).with_suffix('')
    parts = list(rel.parts); ispkg = parts[-1]=='__init__'
    if ispkg: parts=parts[:-1]
    mods['.'.join(parts)] = (p, ispkg)
# name-dependency edges only: from X import n (n not submodule) => M -> X ; from X import sub => M -> X.sub (and needs X package init'd, but that's a parent relation)
edges = collections.defaultdict(set)
def top_imports(t):
    # include imports nested in with/if/try at module level
    stack=list(t.body)
    while stack:
        s=stack.pop(0)
        if isinstance(s,(ast.FunctionDef,ast.ClassDef,ast.AsyncFunctionDef)): continue
        if isinstance(s,(ast.Import,ast.ImportFrom)): yield s
        for f in ('body','orelse','finalbody'):
            stack[0:0]=getattr(s,f,[]) or []
for m,(p,ispkg) in mods.items():
    t=ast.parse(p.read_text())
    for s in top_imports(t):
        if isinstance(s, ast.ImportFrom):
            base=s.module or ''
            if s.level:
                parts=m.split('.')
                if not ispkg: parts=parts[:-1]
                parts=parts[:len(parts)-(s.level-1)]
                base='.'.join(parts+([s.module] if s.module else []))
            if base not in mods: continue
            for a in s.names:
                sub=base+'.'+a.name
                if sub in mods: edges[m].add(sub)
                else: edges[m].add(base)
        else:
            for a in s.names:
                if a.name in mods: edges[m].add(a.name)
# also: importing X.sub requires executing X/__init__ first: parent init edges sub -> parent are ordering not name deps. Add edge M -> parent(pkg) for each target too? No.
# Tarjan
sys.setrecursionlimit(10000)
index={}; low={}; st=[]; on=set(); out=[]; c=[0]
def sc(v):
    index[v]=low[v]=c[0]; c[0]+=1; st.append(v); on.add(v)
    for w in edges.get(v,()):
        if w not in index: sc(w); low[v]=min(low[v],low[w])
        elif w in on: low[v]=min(low[v],index[w])
    if low[v]==index[v]:
        comp=[]
        while True:
            w=st.pop(); on.discard(w); comp.append(w)
            if w==v: break
        if len(comp)>1 or v in edges.get(v,()): out.append(comp)
for v in mods:
    if v not in index: sc(v)
print('name-dep SCCs:', out)
# which __init__ packages import which children (parent executes child during init):
for m,(p,ispkg) in mods.items():
    if ispkg:
        ch=[e for e in edges.get(m,()) if e.startswith(m+'.')]
        if ch: print('PKG-INIT imports children:', m, len(ch))
# children that read names from their parent package (from parent import name)
for m in mods:
    for e in edges.get(m,()):
        if m.startswith(e+'.') : print('CHILD reads parent names:', m, '->', e)
