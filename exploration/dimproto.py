"""Prototype: static dimensional type-checker for the catalogue (exploration only)."""
import ast, sys, pathlib, collections, json
from fractions import Fraction

REPO = pathlib.Path('/repo')
PKG = REPO / 'symplyphysics'
SYMPY_UNITS = pathlib.Path('/venv/lib/python3.12/site-packages/sympy/physics/units')

BASE = ['length', 'mass', 'time', 'current', 'temperature', 'amount_of_substance', 'luminous_intensity']


class Dim:
    """known dimension vector"""
    __slots__ = ('v',)

    def __init__(self, v=None):
        self.v = {k: Fraction(x) for k, x in (v or {}).items() if x != 0}

    def __mul__(self, o):
        d = dict(self.v)
        for k, x in o.v.items():
            d[k] = d.get(k, 0) + x
        return Dim(d)

    def __truediv__(self, o):
        return self * (o ** -1)

    def __pow__(self, n):
        n = Fraction(n)
        return Dim({k: x * n for k, x in self.v.items()})

    def __eq__(self, o):
        return isinstance(o, Dim) and self.v == o.v

    def __hash__(self):
        return hash(tuple(sorted(self.v.items())))

    @property
    def dimensionless(self):
        return not self.v

    def __repr__(self):
        if not self.v:
            return '1'
        return '*'.join(f'{k}^{x}' if x != 1 else k for k, x in sorted(self.v.items()))


ONE = Dim()


class Val:
    """abstract value: kind in {'dim' (expression with dimension), 'any', 'unknown', 'dimobj' (a Dimension object),
    'module', 'func' (Function symbol: dim + is callable), 'num' }"""

    def __init__(self, kind, dim=None, num=None, extra=None, why=None):
        self.kind, self.dim, self.num, self.extra, self.why = kind, dim, num, extra, why

    def __repr__(self):
        return f'Val({self.kind},{self.dim},{self.num},{self.why})'


def UNKNOWN(why=''):
    return Val('unknown', why=why)


ANY = Val('any')


def NUM(x=None):
    return Val('expr', ONE, num=x)


def EXPR(d):
    return Val('expr', d)


# ---------------- sympy tables (parsed statically from sympy source) ----------------

def load_sympy_dims():
    dims = {}  # name -> Dim
    alias = {}
    t = ast.parse((SYMPY_UNITS / 'definitions/dimension_definitions.py').read_text())
    names = {}
    for s in t.body:
        tgt = None
        val = None
        if isinstance(s, ast.Assign) and len(s.targets) == 1 and isinstance(s.targets[0], ast.Name):
            tgt, val = s.targets[0].id, s.value
        elif isinstance(s, ast.AnnAssign) and isinstance(s.target, ast.Name):
            tgt, val = s.target.id, s.value
        if tgt is None:
            continue
        if isinstance(val, ast.Call) and ast.unparse(val.func) == 'Dimension':
            nm = None
            if val.args:
                nm = val.args[0].value
            for k in val.keywords:
                if k.arg == 'name':
                    nm = k.value.value
            names[tgt] = nm
        elif isinstance(val, ast.Name):
            alias[tgt] = val.id
    deps = {}
    for f in ['systems/length_weight_time.py', 'systems/mksa.py', 'systems/si.py']:
        t = ast.parse((SYMPY_UNITS / f).read_text())
        for n in ast.walk(t):
            if isinstance(n, ast.Call):
                for k in n.keywords:
                    if k.arg in ('dimensional_dependencies', 'new_dim_deps') and isinstance(k.value, ast.Dict):
                        for kk, vv in zip(k.value.keys, k.value.values):
                            deps[kk.value] = {a.value: ast.literal_eval(b) for a, b in zip(vv.keys, vv.values)}
    for var, nm in names.items():
        if nm in BASE:
            dims[var] = Dim({nm: 1})
        elif nm in deps:
            dims[var] = Dim(deps[nm])
        elif nm == 'angle':
            dims[var] = ONE
    for a, b in alias.items():
        if b in dims:
            dims[a] = dims[b]
    return dims


SYMPY_DIMS = load_sympy_dims()
SYMPY_DIMS['speed'] = SYMPY_DIMS['velocity']; SYMPY_DIMS['magnetic_flux_density'] = SYMPY_DIMS['magnetic_density']


def load_sympy_units():
    """unit name -> Dim, parsed from sympy sources (dimension only)"""
    alias = {}   # name -> canonical
    dimexpr = {}  # canonical -> ast of dimension expr
    ref = {}     # canonical -> ast of reference expr (same dimension)
    def canon(x):
        return alias.get(x, x)
    t = ast.parse((SYMPY_UNITS / 'definitions/unit_definitions.py').read_text())
    for s_ in t.body:
        if isinstance(s_, ast.Assign):
            names = [x.id for x in s_.targets if isinstance(x, ast.Name)]
            if isinstance(s_.value, ast.Call) and ast.unparse(s_.value.func) in ('Quantity', 'PhysicalConstant'):
                c = names[-1]
                for nme in names:
                    alias[nme] = c
            elif isinstance(s_.value, ast.Name):
                for nme in names:
                    alias[nme] = canon(s_.value.id)
    files = ['definitions/unit_definitions.py', 'systems/length_weight_time.py', 'systems/mks.py', 'systems/mksa.py', 'systems/si.py']
    for f in files:
        t = ast.parse((SYMPY_UNITS / f).read_text())
        for n in ast.walk(t):
            if isinstance(n, ast.Call) and isinstance(n.func, ast.Attribute):
                m = n.func.attr
                if m == 'set_global_dimension' and isinstance(n.func.value, ast.Name):
                    dimexpr[canon(n.func.value.id)] = n.args[0]
                elif m == 'set_global_relative_scale_factor' and isinstance(n.func.value, ast.Name):
                    ref.setdefault(canon(n.func.value.id), n.args[1])
                elif m == 'set_quantity_dimension' and isinstance(n.args[0], ast.Name):
                    dimexpr[canon(n.args[0].id)] = n.args[1]
    out = {}
    def ev(node):
        if isinstance(node, ast.Name):
            if node.id in SYMPY_DIMS:
                return SYMPY_DIMS[node.id]
            if node.id == 'One':
                return ONE
            c = canon(node.id)
            return unit(c)
        if isinstance(node, ast.Constant):
            return ONE
        if isinstance(node, ast.BinOp):
            l = ev(node.left)
            if isinstance(node.op, ast.Pow):
                return l ** Fraction(ast.literal_eval(node.right)) if l is not None else None
            r = ev(node.right)
            if l is None or r is None:
                return None
            if isinstance(node.op, ast.Mult):
                return l * r
            if isinstance(node.op, ast.Div):
                return l / r
        if isinstance(node, ast.UnaryOp):
            return ev(node.operand)
        return None
    def unit(c):
        if c in out:
            return out[c]
        out[c] = None
        if c in dimexpr:
            out[c] = ev(dimexpr[c])
        elif c in ref:
            out[c] = ev(ref[c])
        return out[c]
    base = {'meter': Dim({'length': 1}), 'gram': Dim({'mass': 1}), 'second': Dim({'time': 1})}
    out.update(base)
    for c in set(alias.values()):
        unit(c)
    return {nme: out.get(c) for nme, c in alias.items()}


SYMPY_UNITS_DIM = load_sympy_units()

# ---------------- module environments ----------------

_mod_cache = {}
_mod_ast = {}


def mod_path(modname):
    parts = modname.split('.')
    p = REPO.joinpath(*parts)
    if p.is_dir():
        return p / '__init__.py'
    q = p.with_suffix('.py')
    return q if q.exists() else None


def get_ast(modname):
    if modname not in _mod_ast:
        p = mod_path(modname)
        _mod_ast[modname] = ast.parse(p.read_text()) if p and p.exists() else None
    return _mod_ast[modname]


class ModEnv:

    def __init__(self, modname):
        self.modname = modname
        self.names = {}  # name -> Val (final binding)
        self.issues = []
        self.is_pkg = mod_path(modname) is not None and mod_path(modname).name == '__init__.py'


SPECIAL_IMPORTS = {
    ('sympy.physics', 'units'): Val('module', extra='sympy.units'),
    ('symplyphysics', 'units'): Val('module', extra='sympy.units'),
    ('symplyphysics', 'symbols'): Val('module', extra='symplyphysics.symbols'),
    ('symplyphysics', 'quantities'): Val('module', extra='symplyphysics.quantities'),
    ('symplyphysics', 'dimensionless'): Val('dimobj', ONE),
    ('symplyphysics.core.dimensions', 'dimensionless'): Val('dimobj', ONE),
    ('symplyphysics.core.dimensions.miscellaneous', 'dimensionless'): Val('dimobj', ONE),
    ('symplyphysics', 'angle_type'): Val('dimobj', ONE),
    ('sympy.physics.units.definitions.dimension_definitions', 'angle'): Val('dimobj', ONE),
    ('symplyphysics.core.dimensions', 'any_dimension'): Val('dimobj', None, extra='any'),
    ('symplyphysics.core.dimensions.dimensions', 'any_dimension'): Val('dimobj', None, extra='any'),
}

SYMPY_NUMS = {'pi', 'E', 'I', 'oo', 'zoo', 'nan', 'EulerGamma', 'GoldenRatio'}
DIMLESS_ARG_FUNCS = {
    'exp', 'log', 'ln', 'sin', 'cos', 'tan', 'cot', 'sec', 'csc', 'asin', 'acos', 'atan', 'acot', 'sinh', 'cosh',
    'tanh', 'coth', 'asinh', 'acosh', 'atanh', 'acoth', 'erf', 'erfc', 'factorial', 'gamma', 'besselj', 'besselk',
    'bessely', 'besseli', 'hermite', 'legendre', 'assoc_legendre', 'Ynm', 'binomial', 'floor', 'ceiling', 'log10', 'log2', 'sign', 'atan2', 'sinc', 'LambertW', 'zeta', 'polylog', 'loggamma', 'airyai','airybi','jn','yn','spherical_jn',
}
SAME_DIM_FUNCS = {'abs', 'Abs', 're', 'im', 'conjugate', 'simplify', 'expand', 'factor', 'N', 'nsimplify', 'together', 'cancel', 'trigsimp', 'radsimp', 'powsimp', 'collect', 'apart','evaluate_expression'}

counts = collections.Counter()


def resolve_module(modname):
    if modname in _mod_cache:
        return _mod_cache[modname]
    env = ModEnv(modname)
    _mod_cache[modname] = env
    tree = get_ast(modname)
    if tree is None:
        return env
    Interp(env).run(tree)
    return env


class Interp:

    def __init__(self, env):
        self.env = env
        self.imports = {}  # local name -> (kind, payload)
        self.eq_reports = []

    # ----- statements
    def run(self, tree):
        for s in tree.body:
            self.stmt(s)

    def stmt(self, s):
        if isinstance(s, ast.ImportFrom):
            self.import_from(s)
        elif isinstance(s, ast.Import):
            for a in s.names:
                self.env.names[(a.asname or a.name).split('.')[0]] = UNKNOWN('import')
        elif isinstance(s, ast.Assign):
            v = self.ev(s.value)
            for t in s.targets:
                self.bind(t, v, s.value)
        elif isinstance(s, ast.AnnAssign) and s.value is not None:
            self.bind(s.target, self.ev(s.value), s.value)
        elif isinstance(s, ast.FunctionDef):
            self.env.names[s.name] = Val('pyfunc', extra=s)
        elif isinstance(s, ast.With):
            for b in s.body:
                self.stmt(b)
        # ignore others

    def bind(self, target, v, valnode):
        if isinstance(target, ast.Name):
            self.env.names[target.id] = v
        elif isinstance(target, (ast.Tuple, ast.List)):
            for el in target.elts:
                self.bind(el, UNKNOWN('tuple-unpack'), valnode)

    def import_from(self, s):
        base = s.module or ''
        if s.level:
            parts = self.env.modname.split('.')
            if not self.env.is_pkg:
                parts = parts[:-1]
            parts = parts[:len(parts) - (s.level - 1)]
            base = '.'.join(parts + ([s.module] if s.module else []))
        for a in s.names:
            local = a.asname or a.name
            if a.name == '*':
                sub = resolve_module(base)
                for k, v in sub.names.items():
                    if not k.startswith('_'):
                        self.env.names[k] = v
                continue
            key = (base, a.name)
            if key in SPECIAL_IMPORTS:
                self.env.names[local] = SPECIAL_IMPORTS[key]
                continue
            if base.startswith('sympy'):
                if base == 'sympy.physics.units' and a.name in SYMPY_DIMS:
                    self.env.names[local] = Val('dimobj', SYMPY_DIMS[a.name])
                else:
                    self.env.names[local] = Val('sympy', extra=a.name)
                continue
            if base.startswith('symplyphysics'):
                # submodule?
                sub = base + '.' + a.name
                if mod_path(sub) is not None:
                    self.env.names[local] = Val('module', extra=sub)
                    continue
                if base == 'symplyphysics':
                    self.env.names[local] = Val('spy', extra=a.name)
                    continue
                m = resolve_module(base)
                if a.name in m.names:
                    self.env.names[local] = m.names[a.name]
                else:
                    self.env.names[local] = Val('spy', extra=a.name)
                continue
            self.env.names[local] = UNKNOWN('foreign import')

    # ----- expressions
    def ev(self, n):
        try:
            return self._ev(n)
        except RecursionError:
            raise
        except Exception as e:  # prototype
            return UNKNOWN(f'exc {type(e).__name__}: {e}')

    def issue(self, node, msg):
        self.env.issues.append((getattr(node, 'lineno', 0), msg, ast.unparse(node)[:160]))

    def unify(self, a, b, node, what):
        """dimension of a sum/compare"""
        if a.kind == 'unknown' or b.kind == 'unknown':
            return a if a.kind == 'unknown' else b
        if a.kind == 'any':
            return b
        if b.kind == 'any':
            return a
        if a.kind != 'expr' or b.kind != 'expr':
            return UNKNOWN(f'unify {a.kind}/{b.kind}')
        if a.dim != b.dim:
            self.issue(node, f'{what}: {a.dim} vs {b.dim}')
            return UNKNOWN('mismatch')
        num = None
        return EXPR(a.dim)

    def as_dimobj(self, v):
        """interpret value used as a dimension argument"""
        if v.kind == 'dimobj':
            return v
        if v.kind == 'expr' and v.extra == 'dimexpr':
            return Val('dimobj', v.dim)
        if v.kind == 'expr' and v.num is not None and v.dim.dimensionless:
            return Val('dimobj', ONE)
        return None

    def _ev(self, n):
        if isinstance(n, ast.Constant):
            if isinstance(n.value, (int, float)) and not isinstance(n.value, bool):
                if n.value == 0:
                    return Val('any', num=0)
                return NUM(Fraction(n.value) if isinstance(n.value, int) else Fraction(str(n.value)) if abs(n.value) < 1e15 and abs(n.value) > 1e-15 else None)
            if isinstance(n.value, complex):
                return NUM()
            return Val('pyconst', extra=n.value)
        if isinstance(n, ast.Name):
            if n.id in self.env.names:
                v = self.env.names[n.id]
                if v.kind == 'sympy' and v.extra in ('pi', 'E', 'I', 'EulerGamma', 'GoldenRatio'):
                    return NUM()
                if v.kind == 'sympy' and v.extra in ('oo', 'zoo', 'nan'):
                    return ANY
                return v
            if n.id in ('abs', 'sum', 'min', 'max', 'float', 'int', 'len', 'range', 'getattr', 'list', 'tuple'):
                return Val('builtin', extra=n.id)
            return UNKNOWN(f'unbound {n.id}')
        if isinstance(n, ast.Attribute):
            return self.attr(n)
        if isinstance(n, ast.UnaryOp):
            v = self.ev(n.operand)
            if v.kind == 'expr' and v.num is not None and isinstance(n.op, ast.USub):
                return Val('expr', v.dim, num=-v.num)
            return v
        if isinstance(n, ast.BinOp):
            return self.binop(n)
        if isinstance(n, ast.Call):
            return self.call(n)
        if isinstance(n, ast.Subscript):
            v = self.ev(n.value)
            if v.kind == 'indexed':
                return EXPR(v.dim)
            if v.kind == 'any':
                return ANY
            if v.kind == 'expr' and v.extra == 'matrix':
                return v
            return UNKNOWN('subscript')
        if isinstance(n, (ast.List, ast.Tuple)):
            return Val('seq', extra=[self.ev(e) for e in n.elts])
        if isinstance(n, ast.IfExp):
            return self.unify(self.ev(n.body), self.ev(n.orelse), n, 'ifexp')
        return UNKNOWN(type(n).__name__)

    def attr(self, n):
        base = self.ev(n.value)
        a = n.attr
        if base.kind == 'module':
            m = base.extra
            if m == 'sympy.units':
                if a in SYMPY_DIMS:
                    return Val('dimobj', SYMPY_DIMS[a])
                if SYMPY_UNITS_DIM.get(a) is not None:
                    return Val('expr', SYMPY_UNITS_DIM[a], extra='dimexpr')
                return Val('unit', extra=a)
            sub = m + '.' + a
            env = resolve_module(m)
            if a in env.names:
                return env.names[a]
            if mod_path(sub) is not None:
                return Val('module', extra=sub)
            return UNKNOWN(f'no attr {m}.{a}')
        if base.kind in ('expr', 'func', 'indexed', 'any') and a == 'dimension':
            if base.kind == 'any':
                return Val('dimobj', None, extra='any')
            return Val('dimobj', base.dim)
        if base.kind == 'eq':
            if a in ('lhs', 'rhs'):
                return base.extra
        if base.kind == 'sympy' and base.extra == 'S':
            if a in ('Zero',):
                return Val('any', num=0)
            if a in ('Infinity', 'NegativeInfinity', 'NaN', 'ComplexInfinity'):
                return ANY
            if a in ('One', 'Half', 'NegativeOne', 'Pi', 'ImaginaryUnit', 'Exp1'):
                return NUM({'One': Fraction(1), 'Half': Fraction(1, 2), 'NegativeOne': Fraction(-1)}.get(a))
        if base.kind == 'sympy' and base.extra == 'abc':
            return UNKNOWN('abc symbol')
        if base.kind == 'spy' and base.extra == 'prefixes':
            return NUM()
        return UNKNOWN(f'attr .{a} of {base.kind}')

    def binop(self, n):
        l, r = self.ev(n.left), self.ev(n.right)
        op = n.op
        # dimension-object arithmetic
        ld, rd = self.as_dimobj(l), self.as_dimobj(r)
        if (l.kind == 'dimobj' or r.kind == 'dimobj') and ld is not None and rd is not None or (l.kind == 'dimobj' and isinstance(op, ast.Pow)):
            if (ld and ld.extra == 'any') or (rd and rd.extra == 'any'):
                return Val('dimobj', None, extra='any')
            if isinstance(op, ast.Mult):
                return Val('dimobj', ld.dim * rd.dim)
            if isinstance(op, ast.Div):
                return Val('dimobj', ld.dim / rd.dim)
            if isinstance(op, ast.Pow):
                if r.kind == 'expr' and r.num is not None:
                    return Val('dimobj', ld.dim ** r.num)
                return UNKNOWN('dim pow non-numeric')
        if isinstance(op, (ast.Add, ast.Sub)):
            return self.unify(l, r, n, 'add/sub')
        if isinstance(op, (ast.Mult, ast.Div, ast.MatMult)):
            if l.kind == 'unknown' or r.kind == 'unknown':
                return l if l.kind == 'unknown' else r
            if l.kind == 'any' and l.num == 0 and isinstance(op, ast.Mult):
                return l
            if r.kind == 'any' and r.num == 0 and isinstance(op, ast.Mult):
                return r
            if l.kind == 'any' or r.kind == 'any':
                return ANY
            if l.kind != 'expr' or r.kind != 'expr':
                return UNKNOWN(f'mul {l.kind}*{r.kind}')
            d = l.dim * r.dim if not isinstance(op, ast.Div) else l.dim / r.dim
            num = None
            if l.num is not None and r.num is not None:
                try:
                    num = l.num * r.num if not isinstance(op, ast.Div) else l.num / r.num
                except ZeroDivisionError:
                    num = None
            return Val('expr', d, num=num)
        if isinstance(op, ast.Pow):
            return self.pow(l, r, n)
        return UNKNOWN('binop')

    def pow(self, l, r, n):
        if r.kind == 'unknown':
            return UNKNOWN('pow exp unknown')
        if r.kind == 'expr' and not r.dim.dimensionless:
            self.issue(n, f'exponent has dimension {r.dim}')
            return UNKNOWN('bad exp')
        if l.kind == 'unknown':
            return l
        if l.kind == 'any':
            return ANY
        if l.kind != 'expr':
            return UNKNOWN(f'pow base {l.kind}')
        if l.dim.dimensionless:
            num = None
            if l.num is not None and r.kind == 'expr' and r.num is not None and r.num.denominator == 1 and abs(r.num) < 64:
                try:
                    num = l.num ** int(r.num)
                except ZeroDivisionError:
                    num = None
            return Val('expr', ONE, num=num)
        if r.kind == 'expr' and r.num is not None:
            return EXPR(l.dim ** r.num)
        if r.kind == 'any' and r.num == 0:
            return NUM(Fraction(1))
        return UNKNOWN('dimensional base with symbolic exponent')

    def dim_from_arg(self, node):
        v = self.ev(node)
        d = self.as_dimobj(v)
        if d is None:
            return UNKNOWN(f'dimension arg {v.kind}')
        return d

    def kw(self, n, name):
        for k in n.keywords:
            if k.arg == name:
                return k.value
        return None

    def mk_symbol(self, dimval, kind='expr'):
        if dimval.kind == 'unknown':
            return dimval
        if dimval.extra == 'any':
            return ANY
        return Val(kind, dimval.dim)

    def call(self, n):
        f = n.func
        fname = None
        fv = None
        if isinstance(f, ast.Name):
            fv = self.env.names.get(f.id)
            fname = f.id
            if fv is not None and fv.kind in ('spy', 'sympy'):
                fname = fv.extra
            elif fv is not None and fv.kind == 'func':
                for a in n.args:
                    self.ev(a)
                return EXPR(fv.dim)
            elif fv is not None and fv.kind == 'any' and False:
                return ANY
            elif fv is not None and fv.kind == 'pyfunc':
                return UNKNOWN('local python function call')
            elif fv is not None and fv.kind not in ('builtin',):
                if fv.kind == 'any':
                    return ANY
                return UNKNOWN(f'call of {fv.kind}')
        elif isinstance(f, ast.Attribute):
            return self.method_call(n, f)
        else:
            return UNKNOWN('call of complex func')
        args = n.args
        # --- symplyphysics constructors
        if fname == 'Symbol' and (fv is None or fv.kind == 'spy' or True) and fv is not None and fv.kind in ('spy',) or (fname == 'Symbol' and fv is not None and fv.kind != 'sympy' and fv.kind != 'spy'):
            pass
        if fv is not None and fv.kind == 'spy' or (fv is not None and fv.kind not in ('sympy', 'builtin') and fname in ('Symbol',)):
            pass
        kind = fv.kind if fv is not None else None
        if fname in ('Symbol', 'SymbolNew') and kind != 'sympy':
            dn = args[1] if len(args) > 1 else self.kw(n, 'dimension')
            return self.mk_symbol(self.dim_from_arg(dn)) if dn is not None else EXPR(ONE)
        if fname == 'Symbol' and kind == 'sympy':
            return UNKNOWN('plain sympy symbol')
        if fname in ('symbols', 'Dummy', 'Wild', 'Idx') and kind == 'sympy':
            return UNKNOWN('plain sympy symbol')
        if fname == 'Function' and kind != 'sympy':
            dn = args[2] if len(args) > 2 else self.kw(n, 'dimension')
            return self.mk_symbol(self.dim_from_arg(dn), 'func') if dn is not None else Val('func', ONE)
        if fname == 'Function' and kind == 'sympy':
            return UNKNOWN('plain sympy function')
        if fname == 'IndexedSymbol':
            dn = args[2] if len(args) > 2 else self.kw(n, 'dimension')
            return self.mk_symbol(self.dim_from_arg(dn), 'indexed') if dn is not None else Val('indexed', ONE)
        if fname in ('clone_as_symbol', 'clone_as_function', 'clone_as_indexed'):
            src = self.ev(args[0])
            k = {'clone_as_symbol': 'expr', 'clone_as_function': 'func', 'clone_as_indexed': 'indexed'}[fname]
            if src.kind in ('expr', 'func', 'indexed'):
                return Val(k, src.dim)
            if src.kind == 'any':
                return ANY
            return UNKNOWN(f'clone of {src.kind}:{src.why}')
        if fname in ('Average', 'FiniteDifference', 'ExactDifferential', 'InexactDifferential'):
            return self.ev(args[0])
        if fname == 'Quantity' and kind != 'sympy':
            dn = self.kw(n, 'dimension')
            if dn is not None:
                return self.mk_symbol(self.dim_from_arg(dn))
            if not args:
                return NUM(Fraction(1))
            v = self.ev(args[0])
            return v
        if fname == 'Eq':
            l, r = self.ev(args[0]), self.ev(args[1])
            res = self.unify(l, r, n, 'Eq sides')
            return Val('eq', extra=res, dim=(l, r))
        if fname in ('Ne', 'Lt', 'Le', 'Gt', 'Ge'):
            l, r = self.ev(args[0]), self.ev(args[1])
            self.unify(l, r, n, 'relation sides')
            return Val('rel')
        if fname in SYMPY_NUMS and False:
            return NUM()
        if fname == 'Rational':
            try:
                vals = [ast.literal_eval(a) for a in args]
                return NUM(Fraction(*vals))
            except Exception:
                return NUM()
        if fname in ('Integer', 'Float'):
            return NUM()
        if fname == 'sqrt':
            return self.pow(self.ev(args[0]), NUM(Fraction(1, 2)), n)
        if fname == 'cbrt':
            return self.pow(self.ev(args[0]), NUM(Fraction(1, 3)), n)
        if fname == 'root':
            k = self.ev(args[1])
            if k.kind == 'expr' and k.num:
                return self.pow(self.ev(args[0]), NUM(1 / k.num), n)
            return UNKNOWN('root')
        if fname == 'Pow':
            return self.pow(self.ev(args[0]), self.ev(args[1]), n)
        if fname in DIMLESS_ARG_FUNCS:
            for a in args:
                v = self.ev(a)
                if v.kind == 'expr' and not v.dim.dimensionless:
                    self.issue(n, f'argument of {fname} has dimension {v.dim}')
            return NUM()
        if fname in SAME_DIM_FUNCS:
            return self.ev(args[0]) if args else UNKNOWN('noargs')
        if fname in ('Derivative', 'diff'):
            return self.derivative(self.ev(args[0]), args[1:], n)
        if fname in ('Integral', 'integrate'):
            return self.integral(self.ev(args[0]), args[1:], n)
        if fname in ('IndexedSum', 'IndexedProduct', 'Sum', 'Product', 'SumIndexed'):
            v = self.ev(args[0])
            if fname in ('IndexedProduct', 'Product'):
                return v if (v.kind == 'expr' and v.dim.dimensionless) else UNKNOWN('product')
            return v
        if fname in ('Min', 'Max', 'min', 'max'):
            vs = [self.ev(a) for a in args]
            if len(vs) == 1 and vs[0].kind == 'seq':
                vs = vs[0].extra
            r = vs[0]
            for v in vs[1:]:
                r = self.unify(r, v, n, f'{fname} args')
            return r
        if fname == 'Piecewise':
            r = None
            for a in args:
                if isinstance(a, ast.Tuple) and a.elts:
                    v = self.ev(a.elts[0])
                    self.ev(a.elts[1])
                    r = v if r is None else self.unify(r, v, n, 'Piecewise branches')
            return r or UNKNOWN('piecewise')
        if fname == 'Mul':
            r = NUM(Fraction(1))
            for a in args:
                r = self.binop_vals(r, self.ev(a))
            return r
        if fname == 'Add':
            r = None
            for a in args:
                v = self.ev(a)
                r = v if r is None else self.unify(r, v, n, 'Add args')
            return r or UNKNOWN('add')
        if fname in ('solve', 'dsolve', 'Matrix', 'dot_vectors', 'Vector', 'cross_cartesian_vectors', 'vector_magnitude', 'expr_equals'):
            for a in args:
                self.ev(a)
            return UNKNOWN(fname)
        if fname == 'O':
            return ANY
        if fname == 'convert_to':
            return UNKNOWN('convert_to')
        if fname == 'getattr':
            return UNKNOWN('getattr')
        if fname == 'sum':
            return UNKNOWN('sum')
        counts['call:' + str(fname)] += 1
        return UNKNOWN(f'call {fname}')

    def binop_vals(self, l, r):
        if l.kind == 'expr' and r.kind == 'expr':
            return EXPR(l.dim * r.dim)
        return UNKNOWN('mul')

    def derivative(self, fval, rest, n):
        if fval.kind in ('unknown',):
            for a in rest:
                self.ev(a)
            return fval
        d = fval
        i = 0
        vars_ = []
        while i < len(rest):
            a = rest[i]
            if isinstance(a, ast.Tuple):
                v = self.ev(a.elts[0])
                k = self.ev(a.elts[1])
                vars_.append((v, k.num if k.kind == 'expr' else None))
                i += 1
                continue
            v = self.ev(a)
            if v.kind == 'expr' and v.num is not None and vars_:
                pv, _ = vars_[-1]
                vars_[-1] = (pv, v.num)
                i += 1
                continue
            vars_.append((v, Fraction(1)))
            i += 1
        if d.kind == 'any':
            return ANY
        if d.kind != 'expr':
            return UNKNOWN(f'derivative of {d.kind}')
        dim = d.dim
        for v, k in vars_:
            if v.kind != 'expr' or k is None:
                return UNKNOWN(f'derivative var {v.kind}')
            dim = dim / (v.dim ** k)
        return EXPR(dim)

    def integral(self, fval, rest, n):
        if fval.kind == 'unknown':
            return fval
        if fval.kind == 'any':
            return ANY
        if fval.kind != 'expr':
            return UNKNOWN(f'integral of {fval.kind}')
        dim = fval.dim
        for a in rest:
            if isinstance(a, ast.Tuple):
                v = self.ev(a.elts[0])
                for lim in a.elts[1:]:
                    lv = self.ev(lim)
                    self.unify(v, lv, n, 'integration limit vs variable')
            else:
                v = self.ev(a)
            if v.kind != 'expr':
                return UNKNOWN(f'integral var {v.kind}')
            dim = dim * v.dim
        return EXPR(dim)

    def method_call(self, n, f):
        a = f.attr
        # sympy function via module attr, e.g. sympy.sqrt ? rare
        base = self.ev(f.value)
        if base.kind == 'module':
            v = self.attr(f)
            if v.kind == 'func':
                return EXPR(v.dim)
            return UNKNOWN(f'module call {a}')
        if a == 'diff':
            return self.derivative(base, n.args, n)
        if a in ('doit', 'simplify', 'expand', 'evalf', 'n', 'factor', 'subs', 'replace', 'xreplace', 'rewrite', 'together', 'cancel', 'trigsimp', 'collect', 'conjugate', 'removeO', 'as_real_imag', 'applyfunc', 'transpose', 'T'):
            for x in n.args:
                self.ev(x)
            if base.kind == 'eq':
                return Val('eq', extra=base.extra, dim=base.dim)
            if a == 'subs':
                return base if base.kind in ('expr', 'any') else UNKNOWN('subs')
            return base
        if a == 'integrate' and False:
            return self.integral(base, n.args, n)
        return UNKNOWN(f'method .{a}')


def main():
    cat = [p for d in ('laws', 'definitions', 'conditions') for p in (PKG / d).rglob('*.py') if p.name != '__init__.py']
    stats = collections.Counter()
    unknown_why = collections.Counter()
    all_issues = []
    for p in sorted(cat):
        modname = '.'.join(p.relative_to(REPO).with_suffix('').parts)
        env = resolve_module(modname)
        for name, v in env.names.items():
            if v.kind == 'eq' and not name.startswith('_'):
                stats['eq'] += 1
                l, r = v.dim
                if v.extra.kind == 'expr' or v.extra.kind == 'any':
                    stats['eq_decided'] += 1
                else:
                    stats['eq_undecided'] += 1
                    for side in (l, r):
                        if side.kind == 'unknown':
                            unknown_why[side.why] += 1
        for i in env.issues:
            all_issues.append((modname, ) + i)
    print(stats)
    print('UNKNOWN reasons', unknown_why.most_common(40))
    print('unhandled calls', [(k, v) for k, v in counts.most_common(40)])
    print('ISSUES', len(all_issues))
    for i in all_issues:
        print(i)


if __name__ == '__main__':
    sys.setrecursionlimit(10000)
    main()
