import ast, pathlib, collections
root = pathlib.Path('/repo/symplyphysics')
c = collections.Counter()
for p in root.rglob('*.py'):
    rel = str(p.relative_to(root))
    t = ast.parse(p.read_text())
    def walk_module_level(body, depth=0):
        for s in body:
            if isinstance(s, (ast.FunctionDef, ast.ClassDef, ast.AsyncFunctionDef)): continue
            yield s
            for f in ('body','orelse','finalbody','handlers'):
                sub = getattr(s, f, None)
                if isinstance(sub, list):
                    items = []
                    for x in sub:
                        if isinstance(x, ast.ExceptHandler): items += x.body
                        else: items.append(x)
                    yield from walk_module_level(items, depth+1)
    for s in walk_module_level(t.body):
        if isinstance(s, (ast.Assign, ast.AugAssign, ast.AnnAssign)):
            tg = s.targets if isinstance(s, ast.Assign) else [s.target]
            for x in tg:
                if isinstance(x, (ast.Attribute, ast.Subscript)):
                    print('MODLEVEL-MUTATION', rel, s.lineno, ast.unparse(s)[:100])
        if isinstance(s, ast.With):
            c['with:'+ast.unparse(s.items[0].context_expr)] += 1
        if isinstance(s, ast.Expr) and isinstance(s.value, ast.Call):
            c['exprcall:'+ast.unparse(s.value.func)] += 1
        if isinstance(s, (ast.Delete, ast.Global, ast.Try, ast.While, ast.If)):
            print(type(s).__name__, rel, s.lineno)
    for n in ast.walk(t):
        if isinstance(n, ast.Attribute) and n.attr in ('evaluate',) and isinstance(n.ctx, ast.Store): print('EVAL-STORE', rel, n.lineno)
        if isinstance(n, ast.Name) and n.id in ('_ids',) : c['_ids:'+rel]+=1
        if isinstance(n, ast.Call) and ast.unparse(n.func) in ('disable_sympy_evaluation','enable_sympy_evaluation','reset_sympy_evaluation','clear_cache','init_printing'): print('TOGGLE', rel, n.lineno, ast.unparse(n.func))
        if isinstance(n, ast.Global): print('GLOBAL', rel, n.lineno, n.names)
print(c.most_common())
