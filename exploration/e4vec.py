import ast, pathlib
from e4proto import P, R, C, A
SRC = pathlib.Path('/repo/symplyphysics/core/experimental/vectors/__init__.py')
def vec(name): return [A(('v', f'{name}{i}')) for i in range(3)]
def dot(u,v):
    r=C(0)
    for a,b in zip(u,v): r = r + a*b
    return r
def cross(u,v): return [u[1]*v[2]-u[2]*v[1], u[2]*v[0]-u[0]*v[2], u[0]*v[1]-u[1]*v[0]]
def mixed(a,b,c): return dot(a, cross(b,c))
def scale(s, v): return [s*x for x in v]
def vadd(u,v): return [a+b for a,b in zip(u,v)]
def vneg(v): return [-x for x in v]
def is_vec(x): return isinstance(x, list)
def ev(n, env):
    if isinstance(n, ast.Name): return env[n.id]
    if isinstance(n, ast.Call):
        f = ast.unparse(n.func); args=[ev(a, env) for a in n.args]
        if f=='VectorDot': return dot(*args)
        if f=='VectorCross': return cross(*args)
        if f=='VectorMixedProduct': return mixed(*args)
    if isinstance(n, ast.BinOp):
        l, r = ev(n.left, env), ev(n.right, env)
        if isinstance(n.op, ast.Mult):
            if is_vec(l) and not is_vec(r): return scale(r,l)
            if is_vec(r) and not is_vec(l): return scale(l,r)
            return l*r
        if isinstance(n.op, ast.Sub):
            return vadd(l, vneg(r)) if is_vec(l) else l-r
        if isinstance(n.op, ast.Add):
            return vadd(l, r) if is_vec(l) else l+r
    raise ValueError(ast.unparse(n))
t = ast.parse(SRC.read_text())
cls = next(s for s in t.body if isinstance(s, ast.ClassDef) and s.name=='VectorCross')
for m in cls.body:
    if isinstance(m, ast.FunctionDef) and m.name in ('_eval_vector_dot','_eval_vector_cross'):
        op = dot if m.name.endswith('dot') else cross
        for s in m.body:
            if isinstance(s, ast.If):
                cond = ast.unparse(s.test)
                lhs_cross = 'lhs_is_cross' in cond and 'not lhs_is_cross' not in cond
                rhs_cross = 'rhs_is_cross' in cond and 'not rhs_is_cross' not in cond
                env = {}
                gen = iter('pqrstu')
                L = vec('L'); Rr = vec('R')
                if lhs_cross:
                    la, lb = vec('la'), vec('lb'); L = cross(la, lb)
                if rhs_cross:
                    ra, rb = vec('ra'), vec('rb'); Rr = cross(ra, rb)
                env['lhs']=L; env['rhs']=Rr
                ret=None
                for b in s.body:
                    if isinstance(b, ast.Assign) and isinstance(b.targets[0], ast.Tuple):
                        src = ast.unparse(b.value)
                        n1, n2 = [e.id for e in b.targets[0].elts]
                        if src=='lhs.args': env[n1], env[n2] = la, lb
                        elif src=='rhs.args': env[n1], env[n2] = ra, rb
                    if isinstance(b, ast.Return): ret = ev(b.value, env)
                want = op(L, Rr)
                if is_vec(want): ok = all(a.eq(b) for a,b in zip(want, ret))
                else: ok = want.eq(ret)
                print(m.name, '|', cond, '|', 'IDENTITY' if ok else 'NOT AN IDENTITY', '| line', s.lineno)
