import ast, pathlib, collections
REPO = pathlib.Path('/repo'); root = REPO/'symplyphysics'
def modname(p): 
    parts=list(p.relative_to(REPO).with_suffix('').parts)
    if parts[-1]=='__init__': parts=parts[:-1]
    return '.'.join(parts)
arity = {}   # (module, name) -> n or None
trees={}
for p in root.rglob('*.py'):
    m = modname(p); t = ast.parse(p.read_text()); trees[m]=t
    def visit(body):
        for s in body:
            if isinstance(s, ast.With): visit(s.body)
            if isinstance(s, ast.Assign) and isinstance(s.value, ast.Call):
                f = ast.unparse(s.value.func)
                if f in ('clone_as_function','Function'):
                    argn = None
                    pos = 1
                    a = s.value.args[pos] if len(s.value.args)>pos else None
                    for k in s.value.keywords:
                        if k.arg=='arguments': a=k.value
                    if isinstance(a,(ast.List,ast.Tuple)): argn=len(a.elts)
                    for tg in s.targets:
                        if isinstance(tg, ast.Name): arity[(m,tg.id)] = argn
    visit(t.body)
print('function symbols', len(arity), 'with known arity', sum(v is not None for v in arity.values()))
# now check applications
bad=[]; napp=0
for m,t in trees.items():
    # import aliases -> module
    alias={}
    for s in t.body:
        if isinstance(s, ast.ImportFrom) and s.module and s.module.startswith('symplyphysics'):
            for a in s.names:
                sub = s.module+'.'+a.name
                if sub in trees: alias[a.asname or a.name]=sub
    for n in ast.walk(t):
        if isinstance(n, ast.Call):
            key=None
            if isinstance(n.func, ast.Name) and (m,n.func.id) in arity: key=(m,n.func.id)
            elif isinstance(n.func, ast.Attribute) and isinstance(n.func.value, ast.Name) and n.func.value.id in alias and (alias[n.func.value.id], n.func.attr) in arity:
                key=(alias[n.func.value.id], n.func.attr)
            if key and arity[key] is not None and not any(isinstance(a, ast.Starred) for a in n.args):
                napp+=1
                if len(n.args)!=arity[key]: bad.append((m, n.lineno, key, arity[key], len(n.args)))
print('applications checked', napp)
for b in bad: print(b)
