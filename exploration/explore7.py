import ast, pathlib, collections, sys
sys.path.insert(0,'/opt/veriftools/pyvenv/lib/python3.11/site-packages')
import networkx as nx
REPO = pathlib.Path('/repo')
mods = {}
for p in (REPO/'symplyphysics').rglob('*.py'):
    rel = p.relative_to(REPO).with_suffix('')
    parts = list(rel.parts)
    ispkg = parts[-1]=='__init__'
    if ispkg: parts=parts[:-1]
    mods['.'.join(parts)] = (p, ispkg)
G = nx.DiGraph()
def exists(m): return m in mods
for m,(p,ispkg) in mods.items():
    G.add_node(m)
    # parent package edge
    if '.' in m:
        G.add_edge(m, m.rsplit('.',1)[0], kind='parent')
    t = ast.parse(p.read_text())
    for s in t.body:  # top-level only (TODO: nested in with/if/try)
        if isinstance(s, ast.ImportFrom):
            base = s.module or ''
            if s.level:
                parts = m.split('.')
                if not ispkg: parts = parts[:-1]
                parts = parts[:len(parts)-(s.level-1)]
                base = '.'.join(parts + ([s.module] if s.module else []))
            if not base.startswith('symplyphysics'): continue
            if exists(base): G.add_edge(m, base, kind='from')
            for a in s.names:
                sub = base+'.'+a.name
                if exists(sub): G.add_edge(m, sub, kind='from-sub')
        elif isinstance(s, ast.Import):
            for a in s.names:
                if a.name.startswith('symplyphysics') and exists(a.name): G.add_edge(m,a.name,kind='import')
print(G.number_of_nodes(), G.number_of_edges())
sccs = [c for c in nx.strongly_connected_components(G) if len(c)>1]
print('nontrivial SCCs', len(sccs))
for c in sccs:
    print(len(c), sorted(c)[:60])
