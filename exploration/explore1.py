import ast, sys, collections, pathlib
root = pathlib.Path('/repo/symplyphysics')
cat_dirs = ['laws','definitions','conditions']
files = [p for d in cat_dirs for p in (root/d).rglob('*.py') if p.name != '__init__.py']
print('catalogue modules', len(files))
ctor = collections.Counter()
eqnames = collections.Counter()
callnames_in_eq = collections.Counter()
toplevel_kinds = collections.Counter()
n_calc = 0
mods_without_calc = 0
for p in files:
    t = ast.parse(p.read_text())
    has_calc = False
    for s in t.body:
        toplevel_kinds[type(s).__name__] += 1
        if isinstance(s, ast.FunctionDef):
            if s.name.startswith('calculate'):
                n_calc += 1; has_calc = True
        if isinstance(s, ast.Assign) and isinstance(s.value, ast.Call):
            f = s.value.func
            name = ast.unparse(f)
            ctor[name] += 1
            if name in ('Eq',):
                for t0 in s.targets:
                    eqnames[ast.unparse(t0)] += 1
                for n in ast.walk(s.value):
                    if isinstance(n, ast.Call):
                        callnames_in_eq[ast.unparse(n.func)] += 1
    if not has_calc: mods_without_calc += 1
print('calc functions', n_calc, 'mods w/o calc', mods_without_calc)
print(toplevel_kinds.most_common())
print('CTORS', ctor.most_common(80))
print('EQNAMES', eqnames.most_common(60))
print('CALLS_IN_EQ', callnames_in_eq.most_common(100))
