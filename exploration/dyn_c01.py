import importlib, pkgutil, sys, traceback, pathlib
from sympy import Eq, S
from sympy.core.relational import Relational
import symplyphysics
from symplyphysics.core.dimensions import collect_expression as ce
from symplyphysics.core.dimensions import dimsys_SI
from symplyphysics.core.dimensions.dimensions import AnyDimension
# patched derivative collector (fix for defect #5)
def _collect_derivative(expr):
    func, *args = expr.args
    _, dim = ce.collect_expression_and_dimension(func)
    for arg, n in args:
        _, arg_dim = ce.collect_expression_and_dimension(arg)
        dim /= arg_dim**n
    return expr, dim
from sympy import Derivative
ce._cases[Derivative] = _collect_derivative
root = pathlib.Path('symplyphysics')
mods = ['.'.join(p.with_suffix('').parts) for d in ('laws','definitions','conditions') for p in sorted((root/d).rglob('*.py')) if p.name!='__init__.py']
bad=[]; ok=0; err=0
def deps(d):
    d = d.subs("angle", S.One)
    return {str(k.name): v for k,v in dimsys_SI.get_dimensional_dependencies(d).items() if str(k.name)!='angle'}
for m in mods:
    try:
        mod = importlib.import_module(m)
    except Exception as e:
        print('IMPORT FAIL', m, e); continue
    for name, v in vars(mod).items():
        if name.startswith('_'): continue
        items = v if isinstance(v, (list, tuple)) else [v]
        for it in items:
            if isinstance(it, Relational):
                try:
                    l = ce.collect_expression_and_dimension(it.lhs)
                    r = ce.collect_expression_and_dimension(it.rhs)
                    if isinstance(l[1], AnyDimension) or isinstance(r[1], AnyDimension) or it.lhs == 0 or it.rhs == 0:
                        ok+=1; continue
                    if deps(l[1]) != deps(r[1]):
                        bad.append((m, name, deps(l[1]), deps(r[1])))
                    else: ok+=1
                except Exception as e:
                    err+=1
                    bad.append((m, name, 'EXC', f'{type(e).__name__}: {str(e)[:150]}'))
print('ok', ok, 'err', err)
for b in bad: print(b)
