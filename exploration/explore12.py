import ast, pathlib, collections
root = pathlib.Path('/repo/symplyphysics')
files = [p for d in ('laws','definitions','conditions') for p in (root/d).rglob('*.py') if p.name != '__init__.py']
same=diff=0; diffs=[]; outmatch=collections.Counter(); outs=[]
unsub=[]
for p in files:
    t = ast.parse(p.read_text())
    for s in t.body:
        if isinstance(s, ast.FunctionDef) and s.name.startswith('calculate'):
            guard={}
            outsym=None
            for d in s.decorator_list:
                if isinstance(d, ast.Call) and ast.unparse(d.func)=='validate_input':
                    for k in d.keywords: guard[k.arg]=ast.unparse(k.value)
                if isinstance(d, ast.Call) and ast.unparse(d.func)=='validate_output':
                    outsym=ast.unparse(d.args[0])
            params=[a.arg for a in s.args.args]
            for n in ast.walk(s):
                if isinstance(n, ast.Call) and isinstance(n.func, ast.Attribute) and n.func.attr=='subs' and n.args and isinstance(n.args[0], ast.Dict):
                    for k,v in zip(n.args[0].keys, n.args[0].values):
                        if isinstance(v, ast.Name) and v.id in params and v.id in guard:
                            if guard[v.id]==ast.unparse(k): same+=1
                            else:
                                diff+=1; diffs.append((str(p.relative_to(root)), s.name, v.id, guard[v.id], ast.unparse(k)))
            # solve target vs output
            for n in ast.walk(s):
                if isinstance(n, ast.Call) and isinstance(n.func, ast.Name) and n.func.id=='solve' and len(n.args)>=2:
                    tgt=ast.unparse(n.args[1])
                    if outsym is not None:
                        if tgt==outsym: outmatch['same']+=1
                        else:
                            outmatch['diff']+=1; outs.append((str(p.relative_to(root)), s.name, tgt, outsym))
print(same, diff)
for d in diffs: print(d)
print(outmatch)
for o in outs: print(o)
