import ast, sys, collections, pathlib
root = pathlib.Path('/repo/symplyphysics')
cat_dirs = ['laws','definitions','conditions']
files = [p for d in cat_dirs for p in (root/d).rglob('*.py') if p.name != '__init__.py']
cls = collections.Counter()
ex = collections.defaultdict(list)
for p in files:
    t = ast.parse(p.read_text())
    eqs=set()
    modfuncs=set()
    for s in t.body:
        if isinstance(s, ast.Assign) and isinstance(s.value, ast.Call) and ast.unparse(s.value.func)=='Eq':
            for tg in s.targets:
                if isinstance(tg, ast.Name): eqs.add(tg.id)
        if isinstance(s, ast.Assign) and isinstance(s.value,(ast.List,)):
            for tg in s.targets:
                if isinstance(tg, ast.Name) and tg.id=='law': eqs.add(tg.id)
        if isinstance(s, ast.FunctionDef) and not s.name.startswith('calculate'):
            modfuncs.add(s.name)
    for s in t.body:
        if isinstance(s, ast.FunctionDef) and s.name.startswith('calculate'):
            names = {n.id for n in ast.walk(s) if isinstance(n, ast.Name)}
            uses_eq = bool(names & eqs)
            uses_fn = bool(names & modfuncs)
            has_solve = any(isinstance(n, ast.Call) and ast.unparse(n.func) in('solve','dsolve') for n in ast.walk(s))
            idx0 = sum(1 for n in ast.walk(s) if isinstance(n, ast.Subscript) and isinstance(n.value, ast.Call) and ast.unparse(n.value.func)=='solve')
            k = ('eq' if uses_eq else '') + ('+fn' if uses_fn else '') + ('+solve' if has_solve else '')
            cls[k]+=1
            if len(ex[k])<60: ex[k].append(f'{p.relative_to(root)}::{s.name}')
print(cls.most_common())
for k in ['', '+fn','+solve','+fn+solve']:
    print(k, len(ex[k])); [print('   ',e) for e in ex[k]]
