import ast, pathlib, collections, re
root = pathlib.Path('/repo/symplyphysics')
# D3 collisions
for d in root.rglob('*'):
    if d.is_dir():
        names = {p.stem for p in d.glob('*.py')}
        subd = {p.name for p in d.iterdir() if p.is_dir()}
        if names & subd: print('D3 COLLISION', d, names & subd)
# D4
multi=0; fn_dir=0; mod_dir=0; rebind=0
for p in root.rglob('*.py'):
    rel=p.relative_to(root)
    if rel.parts[0] in ('core','docs'): continue
    t = ast.parse(p.read_text())
    md = ast.get_docstring(t)
    if md and (':laws:symbol::' in md or ':laws:latex::' in md): mod_dir+=1; print('MODDOC', rel)
    bound=collections.Counter()
    for i,s in enumerate(t.body):
        if isinstance(s, ast.FunctionDef):
            d = ast.get_docstring(s)
            if d and (':laws:symbol::' in d or ':laws:latex::' in d): fn_dir+=1; print('FNDOC', rel, s.name)
        if isinstance(s, ast.Expr) and isinstance(s.value, ast.Constant) and isinstance(s.value.value,str):
            v=s.value.value
            if v.count(':laws:symbol::')>1 or v.count(':laws:latex::')>1: multi+=1; print('MULTI', rel, s.lineno)
        if isinstance(s, ast.Assign):
            for tg in s.targets:
                if isinstance(tg, ast.Name) and not tg.id.startswith('_'): bound[tg.id]+=1
    for k,v in bound.items():
        if v>1: rebind+=1; print('REBIND', rel, k, v)
print(multi, fn_dir, mod_dir, rebind)
