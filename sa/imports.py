"""E2 - import graph and an exact simulator of CPython's import algorithm over static top-level imports."""
from __future__ import annotations

import ast
from dataclasses import dataclass, field
from typing import Optional

from .core import Mod, Source, PKG


@dataclass
class Ev:
    kind: str  # bind | import | from | star | attr (module-level reads `alias.attr`, names = [(alias, attr)])
    node: ast.stmt
    names: list = field(default_factory=list)  # bind: [name]; from: [(name, asname)]
    target: str = ""  # import: dotted module; from/star: resolved base module
    asname: Optional[str] = None


def resolve_base(mod: Mod, s: ast.ImportFrom) -> str:
    base = s.module or ""
    if s.level:
        parts = mod.name.split(".")
        if not mod.is_pkg:
            parts = parts[:-1]
        parts = parts[:len(parts) - (s.level - 1)]
        base = ".".join(parts + ([s.module] if s.module else []))
    return base


def _store_names(t: ast.AST) -> list[str]:
    return [n.id for n in ast.walk(t) if isinstance(n, ast.Name) and isinstance(n.ctx, ast.Store)]


def module_events(mod: Mod) -> list[Ev]:
    """Module-level binding/import events in execution order (blocks under if/try/with/for are descended in source order;
    function and class bodies are not executed at import)."""
    out: list[Ev] = []

    def reads(node: ast.AST) -> list:
        """`name.attr` reads evaluated when `node` executes at module level (function / lambda bodies are not executed)"""
        found = []
        stack = [node]
        while stack:
            x = stack.pop()
            if isinstance(x, (ast.FunctionDef, ast.AsyncFunctionDef)):
                stack.extend(x.decorator_list)
                stack.extend(d for d in x.args.defaults + x.args.kw_defaults if d is not None)
                continue
            if isinstance(x, ast.Lambda):
                stack.extend(d for d in x.args.defaults + x.args.kw_defaults if d is not None)
                continue
            if isinstance(x, ast.ClassDef):
                stack.extend(x.decorator_list + x.bases + [k.value for k in x.keywords] + x.body)
                continue
            if isinstance(x, ast.Attribute) and isinstance(x.value, ast.Name) and isinstance(x.ctx, ast.Load):
                found.append((x.value.id, x.attr))
            stack.extend(ast.iter_child_nodes(x))
        return found

    def attr_event(s: ast.stmt, *parts) -> None:
        r = [p for part in parts if part is not None for p in reads(part)]
        if r:
            out.append(Ev("attr", s, names=r))

    def walk(body: list) -> None:
        for s in body:
            if isinstance(s, (ast.Assign, ast.AnnAssign, ast.AugAssign, ast.Expr, ast.Assert, ast.FunctionDef, ast.AsyncFunctionDef, ast.ClassDef, ast.Return, ast.Raise, ast.Delete)):
                attr_event(s, s)
            elif isinstance(s, (ast.If, ast.While)):
                attr_event(s, s.test)
            elif isinstance(s, (ast.For, ast.AsyncFor)):
                attr_event(s, s.iter)
            elif isinstance(s, (ast.With, ast.AsyncWith)):
                attr_event(s, *[it.context_expr for it in s.items])
            if isinstance(s, ast.Import):
                for a in s.names:
                    out.append(Ev("import", s, target=a.name, asname=a.asname))
            elif isinstance(s, ast.ImportFrom):
                base = resolve_base(mod, s)
                if any(a.name == "*" for a in s.names):
                    out.append(Ev("star", s, target=base))
                else:
                    out.append(Ev("from", s, names=[(a.name, a.asname or a.name) for a in s.names], target=base))
            elif isinstance(s, (ast.FunctionDef, ast.AsyncFunctionDef, ast.ClassDef)):
                out.append(Ev("bind", s, names=[s.name]))
            elif isinstance(s, ast.Assign):
                out.append(Ev("bind", s, names=[n for t in s.targets for n in _store_names(t)]))
            elif isinstance(s, (ast.AnnAssign, ast.AugAssign)):
                out.append(Ev("bind", s, names=_store_names(s.target)))
            elif isinstance(s, (ast.For, ast.AsyncFor)):
                out.append(Ev("bind", s, names=_store_names(s.target)))
                walk(s.body)
                walk(s.orelse)
            elif isinstance(s, (ast.With, ast.AsyncWith)):
                out.append(Ev("bind", s, names=[n for it in s.items if it.optional_vars is not None for n in _store_names(it.optional_vars)]))
                walk(s.body)
            elif isinstance(s, ast.If):
                walk(s.body)
                walk(s.orelse)
            elif isinstance(s, ast.While):
                walk(s.body)
                walk(s.orelse)
            elif isinstance(s, ast.Try):
                walk(s.body)
                for h in s.handlers:
                    if h.name:
                        out.append(Ev("bind", s, names=[h.name]))
                    walk(h.body)
                walk(s.orelse)
                walk(s.finalbody)
            elif isinstance(s, ast.Expr):
                for w in ast.walk(s):
                    if isinstance(w, ast.NamedExpr) and isinstance(w.target, ast.Name):
                        out.append(Ev("bind", s, names=[w.target.id]))

    walk(mod.tree.body)
    return out


def literal_all(mod: Mod) -> Optional[list[str]]:
    for s in mod.tree.body:
        if isinstance(s, ast.Assign) and any(isinstance(t, ast.Name) and t.id == "__all__" for t in s.targets):
            if isinstance(s.value, (ast.List, ast.Tuple)) and all(isinstance(e, ast.Constant) and isinstance(e.value, str) for e in s.value.elts):
                return [e.value for e in s.value.elts]
            return None
    return None


@dataclass
class ImportProblem:
    importer: str
    node: ast.stmt
    what: str  # message
    key: str
    entry: str
    chain: tuple


class ImportSim:
    """Simulates `import <entry>` in a fresh interpreter over the repository's own modules. Foreign modules always succeed."""

    def __init__(self, src: Source):
        self.src = src
        self.events = {name: module_events(m) for name, m in src.mods.items() if name.split(".")[0] == PKG}
        self.alls = {name: literal_all(m) for name, m in src.mods.items() if name.split(".")[0] == PKG}

    def run(self, entry: str) -> list[ImportProblem]:
        self.ns: dict[str, set] = {}  # module -> names bound so far ('sys.modules' = keys)
        self.alias: dict[str, dict] = {}  # module -> {local name: our module it is bound to}
        self.done: set = set()
        self.problems: list[ImportProblem] = []
        self.entry = entry
        self.stack: list[str] = []
        self._import_dotted(entry)
        return self.problems

    def is_ours(self, name: str) -> bool:
        return name.split(".")[0] == PKG

    def _import_dotted(self, name: str) -> bool:
        """import a.b.c : a, then a.b, then a.b.c; binds child on parent after the child finished."""
        parts = name.split(".")
        ok = True
        for i in range(1, len(parts) + 1):
            cur = ".".join(parts[:i])
            if cur not in self.ns:
                if cur not in self.src.mods:
                    return False
                self._exec(cur)
            if i > 1:
                parent = ".".join(parts[:i - 1])
                # setattr(parent, child) happens when the child's import completes (or immediately if it was complete)
                if cur in self.done:
                    self.ns[parent].add(parts[i - 1])
        return ok

    def _exec(self, name: str) -> None:
        self.ns[name] = {"__name__", "__file__", "__doc__", "__all__"} if False else {"__name__", "__file__", "__doc__"}
        self.stack.append(name)
        mod = self.src.mods[name]
        self.alias.setdefault(name, {})
        for ev in self.events[name]:
            if ev.kind == "attr":
                for al, attr in ev.names:
                    target = self.alias[name].get(al)
                    if target is None or target in self.done or target not in self.ns:
                        continue
                    if attr not in self.ns[target] and f"{target}.{attr}" not in self.src.mods:
                        self._problem(name, ev.node, f"`{al}.{attr}` is read while {target} is only partially initialised (circular import): the name is not bound yet "
                                                     f"- AttributeError: partially initialized module", f"{name}:attr:{target}:{attr}")
            elif ev.kind == "bind":
                self.ns[name].update(ev.names)
                for n_ in ev.names:
                    self.alias[name].pop(n_, None)
            elif ev.kind == "import":
                if self.is_ours(ev.target):
                    if not self._import_dotted(ev.target):
                        self._problem(name, ev.node, f"import {ev.target}: no such module", f"{name}:import:{ev.target}")
                    self.ns[name].add(ev.asname or ev.target.split(".")[0])
                    self.alias[name][ev.asname or ev.target.split(".")[0]] = ev.target if ev.asname else ev.target.split(".")[0]
                else:
                    self.ns[name].add(ev.asname or ev.target.split(".")[0])
            elif ev.kind in ("from", "star"):
                base = ev.target
                if not self.is_ours(base):
                    if ev.kind == "from":
                        self.ns[name].update(a for _, a in ev.names)
                    continue
                if not self._import_dotted(base):
                    self._problem(name, ev.node, f"from {base} import ...: no such module", f"{name}:from:{base}")
                    continue
                if ev.kind == "star":
                    allv = self.alls.get(base)
                    if allv is not None and base in self.done:
                        for n in allv:
                            if n not in self.ns[base] and not self._try_submodule(base, n):
                                self._problem(name, ev.node, f"from {base} import *: __all__ names `{n}` which is not bound in {base}",
                                              f"{base}:__all__:{n}")
                        self.ns[name].update(allv)
                    elif allv is not None:
                        self.ns[name].update(n for n in allv if n in self.ns[base])
                        for n in allv:
                            if n not in self.ns[base]:
                                self._problem(name, ev.node, f"from {base} import * while {base} is only partially initialised: `{n}` not bound yet",
                                              f"{name}:star:{base}:{n}")
                    else:
                        self.ns[name].update(n for n in self.ns[base] if not n.startswith("_"))
                    continue
                for n, asn in ev.names:
                    if f"{base}.{n}" in self.src.mods:
                        # a sub-module: bound to the module object (possibly a partially initialised one)
                        if n not in self.ns[base]:
                            self._try_submodule(base, n)
                        self.ns[name].add(asn)
                        self.alias[name][asn] = f"{base}.{n}"
                    elif n in self.ns[base]:
                        self.ns[name].add(asn)
                    elif self._try_submodule(base, n):
                        self.ns[name].add(asn)
                    else:
                        state = "partially initialised (circular import)" if base not in self.done else "fully initialised"
                        self._problem(name, ev.node, f"from {base} import {n}: name not bound; {base} is {state}", f"{name}:from:{base}:{n}")
        self.stack.pop()
        self.done.add(name)
        if "." in name:
            parent, _, child = name.rpartition(".")
            if parent in self.ns:
                self.ns[parent].add(child)

    def _try_submodule(self, base: str, n: str) -> bool:
        sub = f"{base}.{n}"
        if sub in self.src.mods:
            self._import_dotted(sub)
            return True
        return False

    def _problem(self, importer: str, node: ast.stmt, what: str, key: str) -> None:
        self.problems.append(ImportProblem(importer, node, what, key, self.entry, tuple(self.stack)))


# ---------------------------------------------------------------------------------------------
# name-dependency graph and SCCs


def name_edges(src: Source) -> dict[str, set]:
    """M -> N when M's body reads a *name* (not a sub-module) out of N at import time."""
    edges: dict[str, set] = {}
    for name, m in src.mods.items():
        if name.split(".")[0] != PKG:
            continue
        for ev in module_events(m):
            if ev.kind == "from" and ev.target in src.mods:
                for n, _ in ev.names:
                    if f"{ev.target}.{n}" not in src.mods:
                        edges.setdefault(name, set()).add(ev.target)
            elif ev.kind == "star" and ev.target in src.mods:
                edges.setdefault(name, set()).add(ev.target)
    return edges


def sccs(nodes: list[str], edges: dict[str, set]) -> list[list[str]]:
    index: dict[str, int] = {}
    low: dict[str, int] = {}
    on: set = set()
    st: list[str] = []
    out: list[list[str]] = []
    counter = [0]
    for root in nodes:
        if root in index:
            continue
        work = [(root, iter(sorted(edges.get(root, ()))))]
        index[root] = low[root] = counter[0]
        counter[0] += 1
        st.append(root)
        on.add(root)
        while work:
            v, it = work[-1]
            advanced = False
            for wn in it:
                if wn not in index:
                    index[wn] = low[wn] = counter[0]
                    counter[0] += 1
                    st.append(wn)
                    on.add(wn)
                    work.append((wn, iter(sorted(edges.get(wn, ())))))
                    advanced = True
                    break
                elif wn in on:
                    low[v] = min(low[v], index[wn])
            if advanced:
                continue
            work.pop()
            if work:
                low[work[-1][0]] = min(low[work[-1][0]], low[v])
            if low[v] == index[v]:
                comp = []
                while True:
                    x = st.pop()
                    on.discard(x)
                    comp.append(x)
                    if x == v:
                        break
                if len(comp) > 1 or v in edges.get(v, ()):
                    out.append(sorted(comp))
    return out
