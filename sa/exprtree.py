"""Abstract SymPy expression trees for evaluating the two dimension collectors (C05 collect_quantity, C06 collect_expression).

Leaves are algebra variables (so that the collectors' own arithmetic on them is ordinary term arithmetic) with a side table saying what
they are: a quantity (scale factor term + Dim), a dimensioned symbol, a free SymPy symbol, a unit prefix. Compound nodes are `Node`s
with SymPy's class lattice as far as the dispatch of the collectors can see it (Abs IS a sympy Function, Min/Max are not).

`spec_quantity` / `spec_expression` compute, straight from the property text, what a collector must answer for a tree:
(value term, Dim) or a refusal.
"""
from __future__ import annotations

import ast
from dataclasses import dataclass, field
from fractions import Fraction
from typing import Optional

from .core import AnalysisError, dotted, norm
from .alg import T, num, var, op, app, normalize, same_terms, substitute
from .pyreader import Raised
from .gate import GateReader, Dim, KNOWN_CLASSES

NODE_CLASSES = {
    "Mul": {"Mul", "Expr", "Basic"},
    "Add": {"Add", "Expr", "Basic"},
    "Pow": {"Pow", "Expr", "Basic"},
    "Abs": {"Abs", "SymFunction", "Application", "Expr", "Basic"},  # sympy.Abs is a sympy.Function
    "Min": {"Min", "MinMaxBase", "Application", "Expr", "Basic"},
    "Max": {"Max", "MinMaxBase", "Application", "Expr", "Basic"},
    "Function": {"SymFunction", "Application", "Expr", "Basic"},
    "Derivative": {"Derivative", "Expr", "Basic"},
    "Indexed": {"Indexed", "Expr", "Basic"},
}
LEAF_CLASSES = {
    "quantity": {"Quantity", "SymQuantity", "DimensionSymbol", "Expr", "Basic", "AtomicExpr"},
    "symbol": {"Symbol", "DimensionSymbol", "SymSymbol", "Expr", "Basic"},
    "free": {"SymSymbol", "Expr", "Basic"},
    "prefix": {"Prefix", "Expr", "Basic"},
    # f(t) of a library Function: the dimension is an attribute of f (reached through .func), NOT of the applied object
    "applied": {"AppliedFunction", "SymFunction", "Application", "Expr", "Basic"},
    # a Symbolic wrapper (Average, FiniteDifference, ...): has a `dimension`, is no DimensionSymbol and no Atom
    "symbolic": {"Symbolic", "Expr", "Basic"},
    "indexedbase": {"IndexedSymbol", "DimensionSymbol", "Expr", "Basic"},
}
KNOWN_CLASSES |= set().union(*NODE_CLASSES.values()) | set().union(*LEAF_CLASSES.values()) | {"type"}


@dataclass(eq=False)
class Node:
    cls: str
    args: list
    name: str = ""  # function name of a Function node
    tag: str = ""

    def __repr__(self) -> str:
        return f"{self.name or self.cls}({', '.join(map(repr, self.args))})"


class Leaves:
    """side table of the leaf variables"""

    def __init__(self):
        self.info: dict = {}
        self.k = 0

    def quantity(self, name: str, dim: Dim, zero: bool = False) -> T:
        self.info[name] = {"kind": "quantity", "dimension": dim, "scale_factor": num(0) if zero else var("f_" + name)}
        return var(name)

    def symbol(self, name: str, dim: Dim) -> T:
        self.info[name] = {"kind": "symbol", "dimension": dim}
        return var(name)

    def free(self, name: str) -> T:
        self.info[name] = {"kind": "free"}
        return var(name)

    def prefix(self, name: str) -> T:
        self.info[name] = {"kind": "prefix", "scale_factor": var("f_" + name)}
        return var(name)

    def applied(self, name: str, dim: Dim, args=()) -> T:
        self.info[name] = {"kind": "applied", "dimension": dim, "func": name.split("(")[0], "args": list(args)}
        return var(name)

    def symbolic(self, name: str, dim: Dim) -> T:
        self.info[name] = {"kind": "symbolic", "dimension": dim}
        return var(name)

    def function(self, fname: str) -> Optional[dict]:
        """the applied leaf of the library function called fname"""
        return next((i for i in self.info.values() if i.get("kind") == "applied" and i.get("func") == fname), None)

    def attr(self, v, name: str):
        """the attribute `name` of a leaf or of a function object as the library's classes define it, or Leaves.ABSENT"""
        if isinstance(v, tuple) and len(v) == 2 and v[0] == "func":
            i = self.function(v[1])
            return i["dimension"] if i is not None and name == "dimension" else Leaves.ABSENT
        i = self.of(v)
        if i is None:
            return Leaves.ABSENT
        if i["kind"] == "applied":
            if name == "func":
                return ("func", i["func"])
            if name == "args":
                return list(i["args"])
            return Leaves.ABSENT
        if name == "args" and i["kind"] in ("symbol", "free", "quantity", "indexedbase"):
            return []
        if name in ("kind", "func"):
            return Leaves.ABSENT
        return i.get(name, Leaves.ABSENT)

    ABSENT = ("<absent>", )

    def new_quantity(self, factor, dim: Dim) -> T:
        self.k += 1
        name = f"Q#{self.k}"
        self.info[name] = {"kind": "quantity", "dimension": dim, "scale_factor": factor}
        return var(name)

    def of(self, t) -> Optional[dict]:
        if isinstance(t, T) and t.op == "var":
            return self.info.get(t.val)
        return None

    def value(self, t):
        """the term with every quantity / prefix leaf replaced by its scale factor (the value in SI units)"""
        if isinstance(t, int):
            return num(t)
        if t.op == "var":
            i = self.info.get(t.val)
            if i and "scale_factor" in i:
                return self.value(i["scale_factor"]) if not (isinstance(i["scale_factor"], T) and i["scale_factor"].op == "var" and i["scale_factor"].val.startswith("f_")) else i["scale_factor"]
            return t
        if t.op in ("num", "fun", "pi"):
            return t
        return T(t.op, tuple(self.value(a) for a in t.args), t.val)


def is_zero_term(t) -> bool:
    if isinstance(t, int) and not isinstance(t, bool):
        return t == 0
    if isinstance(t, T):
        try:
            r = normalize(t)
        except (AnalysisError, ZeroDivisionError):
            return False
        return r.is_zero()
    return False


def minmax_term(name: str, args: list) -> T:
    """Min/Max as SymPy builds them: nested applications of the same class are flattened, the order of the arguments is canonical"""
    flat = []
    for a in args:
        a = num(a) if isinstance(a, int) else a
        if isinstance(a, T) and a.op == "app" and a.val == name:
            flat += list(a.args)
        else:
            flat.append(a)
    uniq = {}
    for a in flat:
        uniq.setdefault(repr(normalize_safe(a)), a)
    items = [uniq[k] for k in sorted(uniq)]
    if len(items) == 1:
        return items[0]
    return app(name, *items)


def normalize_safe(t):
    try:
        return normalize(t)
    except (AnalysisError, ZeroDivisionError):
        return t


class CollectReader(GateReader):
    """gate objects + expression trees; the recursive collector is evaluated, nothing is stubbed except the predicates K5 decides
    (is_any_dimension, is_number) and SymPy's dimension system"""

    def __init__(self, module: ast.Module, where: str, leaves: Leaves, depth_limit: int = 40):
        super().__init__(module, where, depth_limit)
        self.leaves = leaves

    # ---- classes
    def classes_of(self, v):
        if isinstance(v, Node):
            return NODE_CLASSES[v.cls]
        i = self.leaves.of(v)
        if i is not None:
            return LEAF_CLASSES[i["kind"]]
        if isinstance(v, tuple) and v and v[0] == "indexed-element":
            return NODE_CLASSES["Indexed"]
        if isinstance(v, tuple) and v and v[0] in ("func", "class"):
            return {"type"}
        return super().classes_of(v)

    def class_value_names(self, v, n) -> list:
        if isinstance(v, tuple) and len(v) == 2 and v[0] == "class":
            return [v[1]]
        if isinstance(v, list):
            return [x for e in v for x in self.class_value_names(e, n)]
        self.fail(n, "class value")

    def global_value(self, n: ast.AST):
        if isinstance(n, ast.Name) and n.id in KNOWN_CLASSES and n.id not in self.functions:
            return ("class", n.id)
        return super().global_value(n)

    # ---- attributes of nodes and leaves
    def hook_attr(self, base, attr, n):
        if isinstance(base, Node):
            if attr == "args":
                return list(base.args)
            if base.cls == "Pow" and attr == "base":
                return base.args[0]
            if base.cls == "Pow" and attr == "exp":
                return base.args[1]
            if attr == "func":
                return ("class", base.cls) if base.cls != "Function" else ("func", base.name)
            if base.cls == "Derivative" and attr == "expr":
                return base.args[0]
            if base.cls == "Derivative" and attr == "variable_count":
                return list(base.args[1:])
            if base.cls == "Derivative" and attr == "variables":
                # SymPy expands the counts - and cannot for a symbolic one ("Cannot give expansion for symbolic count")
                out = []
                for v_, c_ in base.args[1:]:
                    if not isinstance(c_, int):
                        raise Raised("TypeError", getattr(n, "lineno", 0))
                    out += [v_] * c_
                return out
        got = self.leaves.attr(base, attr)
        if got is not Leaves.ABSENT:
            return got
        if isinstance(base, tuple) and base and base[0] == "indexed-element" and attr == "base":
            return base[1]
        if isinstance(base, (T, int)) and attr in ("is_Float", ):
            return False  # exponents are exact here; float exponents are rule S6's business
        return super().hook_attr(base, attr, n)

    def hook_binop(self, o, l, r, n):
        def opaque(x):
            return isinstance(x, tuple) and x and isinstance(x[0], str) and (x[0].startswith("dim-") or x[0] == "opaque-dim")
        if (opaque(l) or opaque(r)) and isinstance(o, (ast.Mult, ast.Div, ast.Pow)) and all(opaque(x) or isinstance(x, (Dim, T, int)) for x in (l, r)):
            return ("opaque-dim", )
        if isinstance(l, Dim) and isinstance(o, ast.Pow):
            e = r.val if isinstance(r, T) and r.op == "num" else (Fraction(r) if isinstance(r, int) else None)
            if isinstance(r, T) and r.op == "neg" and r.args[0].op == "num":
                e = -r.args[0].val
            if e is None:
                if l.dimensionless():
                    return l
                if is_zero_term(r):
                    return Dim()
                return ("dim-power", l, repr(normalize_safe(r)))  # a symbolic exponent on a dimensional base
            return Dim(tuple((b, x * e) for b, x in l.exps if x * e != 0))
        return super().hook_binop(o, l, r, n)

    def any_dimension_value(self, v, n) -> bool:
        if isinstance(v, tuple) and v and v[0] == "indexed-element":
            return False
        if isinstance(v, Node):
            return False
        if isinstance(v, (int, T)) and not isinstance(v, bool):
            return is_zero_term(self.leaves.value(v) if isinstance(v, T) else v)
        return super().any_dimension_value(v, n)

    def hook_method(self, base, attr, args, kwargs, n):
        if base == ("dimsys", ) and attr in ("is_dimensionless", "equivalent_dims") and any(isinstance(a, tuple) and a and isinstance(a[0], str) and (a[0].startswith("dim-") or a[0] == "opaque-dim") for a in args):
            if attr == "is_dimensionless":
                return False
            return args[0] == args[1]
        if attr == "diff" and isinstance(base, (T, int, Node)) and not isinstance(base, bool):
            def term(x):  # an operand handed on as it came (a Node) stands for its own expression
                return app("pair", *[term(y) for y in x]) if isinstance(x, list) else tree_term(x, self.leaves)
            return app("diff", term(base), *[term(x) for x in args])
        return super().hook_method(base, attr, args, kwargs, n)

    def hook_call(self, n, env, fns):
        f = dotted(n.func) or ""
        name = f.split(".")[-1]
        if name == "isinstance" and len(n.args) == 2:
            v = self.ev(n.args[0], env, fns)
            spec = n.args[1]
            try:
                names = self.class_names(spec)
                if any(isinstance(x, ast.Name) and x.id in env for x in ([spec] if not isinstance(spec, ast.Tuple) else spec.elts)):
                    raise AnalysisError("bound")
            except AnalysisError:
                names = self.class_value_names(self.ev(spec, env, fns), n)
            return self.is_instance(v, names, n)
        if name == "type" and len(n.args) == 1:
            v = self.ev(n.args[0], env, fns)
            if isinstance(v, Node):
                return ("class", v.cls)
            self.fail(n, "type() of a leaf")
        if name == "hasattr" and len(n.args) == 2:
            v, a = self.ev(n.args[0], env, fns), self.ev(n.args[1], env, fns)
            return self.leaves.attr(v, a) is not Leaves.ABSENT
        if name == "getattr" and len(n.args) in (2, 3):
            v, a = self.ev(n.args[0], env, fns), self.ev(n.args[1], env, fns)
            got = self.leaves.attr(v, a)
            if got is not Leaves.ABSENT:
                return got
            if len(n.args) == 3:
                return self.ev(n.args[2], env, fns)
            raise Raised("AttributeError", getattr(n, "lineno", 0))
        if name == "is_number" and len(n.args) == 1 and name not in self.functions:
            v = self.ev(n.args[0], env, fns)
            if isinstance(v, Node):
                return False
            if isinstance(v, T):
                return v.op in ("num", "pi") or (v.op == "neg" and v.args[0].op == "num")
            return isinstance(v, int) and not isinstance(v, bool)
        if name in ("Abs", "abs") and len(n.args) == 1:
            return app("Abs", self.scalar(self.ev(n.args[0], env, fns), n))
        if name == "Quantity" and n.args and name not in self.functions:
            fac = self.ev(n.args[0], env, fns)
            kw_ = {k.arg: self.ev(k.value, env, fns) for k in n.keywords if k.arg}
            dim = kw_.get("dimension")
            if isinstance(fac, (T, int)) and isinstance(dim, Dim):
                return self.leaves.new_quantity(fac if isinstance(fac, T) else num(fac), dim)
            self.fail(n, "Quantity(...) arguments")
        if name == "sum" and n.args:
            seq = self.ev(n.args[0], env, fns)
            start = self.ev(n.args[1], env, fns) if len(n.args) > 1 else next((self.ev(k.value, env, fns) for k in n.keywords if k.arg == "start"), 0)
            if not isinstance(seq, list):
                self.fail(n, "sum of a non-concrete sequence")
            acc = start if isinstance(start, T) else num(start)
            for x in seq:
                acc = op("add", acc, self.scalar(x, n))
            return acc
        if name == "nsimplify" and n.args:
            return self.ev(n.args[0], env, fns)
        if isinstance(n.func, ast.Name) and n.func.id not in env and n.func.id not in self.functions and n.func.id in ("Mul", "Add", "Pow", "Min", "Max"):
            args = []
            for a in n.args:
                if isinstance(a, ast.Starred):
                    args += list(self.ev(a.value, env, fns))
                else:
                    args.append(self.ev(a, env, fns))
            return self.construct(("class", n.func.id), args, n)
        if name in ("round", "int", "float", "floor", "ceiling") and len(n.args) >= 1 and name not in self.functions:
            v = self.ev(n.args[0], env, fns)
            if isinstance(v, (T, int)) and not isinstance(v, bool):
                return app(name, v if isinstance(v, T) else num(v))
        if isinstance(n.func, ast.Name) and n.func.id in env:
            fv = env[n.func.id]
            if isinstance(fv, tuple) and fv and fv[0] in ("class", "func"):
                args = []
                for a in n.args:
                    if isinstance(a, ast.Starred):
                        args += list(self.ev(a.value, env, fns))
                    else:
                        args.append(self.ev(a, env, fns))
                return self.construct(fv, args, n)
        if isinstance(n.func, (ast.Attribute, ast.Call)) and not (isinstance(n.func, ast.Attribute) and n.func.attr in ("append", "items", "get", "subs", "diff", "is_dimensionless", "equivalent_dims")):
            # expr.func(*factors) / type(expr)(*factors)
            try:
                fv = self.ev(n.func, env, fns)
            except AnalysisError:
                fv = None
            if isinstance(fv, tuple) and fv and fv[0] in ("class", "func"):
                args = []
                for a in n.args:
                    if isinstance(a, ast.Starred):
                        args += list(self.ev(a.value, env, fns))
                    else:
                        args.append(self.ev(a, env, fns))
                return self.construct(fv, args, n)
        return super().hook_call(n, env, fns)

    def construct(self, fv, args: list, n):
        args = [self.scalar(a, n) for a in args]
        if fv[0] == "func":
            i = self.leaves.function(fv[1])
            if i is not None and len(i["args"]) == len(args) and all(same_value(a, b) for a, b in zip(args, i["args"])):
                return var(next(k for k, v in self.leaves.info.items() if v is i))  # the same application: the leaf itself
            return app(fv[1], *args)
        cls = fv[1]
        if cls in ("Min", "Max"):
            if not args:
                return var(f"{cls}()")  # the identity of the operation
            return minmax_term(cls, [a for a in args if not (a.op == "var" and a.val == f"{cls}()")] or args)
        if cls == "Add":
            acc = num(0)
            for a in args:
                acc = op("add", acc, a)
            return acc
        if cls == "Mul":
            acc = num(1)
            for a in args:
                acc = op("mul", acc, a)
            return acc
        if cls == "Abs" and len(args) == 1:
            return app("Abs", args[0])
        if cls == "Pow" and len(args) == 2:
            return op("pow", args[0], args[1])
        self.fail(n, f"construction of {cls}")


# ---------------------------------------------------------------------------------------------- specifications


class Refused(Exception):
    pass


def spec_quantity(tree, leaves: Leaves):
    """(SI value term, Dim | None = any) of an expression of numbers, prefixes and quantities - or Refused (property C05)"""
    if isinstance(tree, int):
        return num(tree), (None if tree == 0 else Dim())
    if isinstance(tree, T):
        i = leaves.of(tree)
        if i is None:
            return tree, (None if is_zero_term(tree) else Dim())
        if i["kind"] == "quantity":
            return leaves.value(tree), (None if is_zero_term(leaves.value(tree)) else i["dimension"])
        if i["kind"] == "prefix":
            return i["scale_factor"], Dim()
        raise Refused("a free symbol remains")
    if tree.cls == "Derivative":
        raise Refused("an unevaluated derivative remains")
    parts = [spec_quantity(a, leaves) for a in tree.args]
    if tree.cls == "Mul":
        v = num(1)
        d = Dim()
        for pv, pd in parts:
            v = op("mul", v, pv)
            if isinstance(pd, tuple) or isinstance(d, tuple):
                d = ("opaque-dim", )
            else:
                d = None if (d is None or pd is None) else d.mul(pd)
        return v, (None if is_zero_term(v) else d)
    if tree.cls == "Pow":
        (bv, bd), (ev_, ed) = parts
        if ed is not None and not (isinstance(ed, Dim) and ed.dimensionless()):
            raise Refused("exponent not dimensionless")
        v = op("pow", bv, ev_)
        if bd is None:
            return v, None
        if isinstance(bd, tuple):
            return v, ("opaque-dim", )
        e = normalize_safe(_exact(ev_))
        try:
            fr = Fraction(repr(e))
        except (ValueError, ZeroDivisionError):
            fr = None
        if fr is None:
            return v, (bd if bd.dimensionless() else ("dim-power", bd, repr(e)))
        return v, Dim(tuple((b, x * fr) for b, x in bd.exps if x * fr != 0))
    if tree.cls in ("Add", "Min", "Max"):
        dims = [pd for pv, pd in parts if pd is not None]
        if any(isinstance(d, tuple) and d[0] == "opaque-dim" for d in dims):
            raise AnalysisError("spec: a sum over a dimension with a symbolic exponent is outside the family")
        for d in dims[1:]:
            if d != dims[0] and not (isinstance(d, Dim) and isinstance(dims[0], Dim) and d.exps == dims[0].exps):
                raise Refused("terms of inequivalent dimensions")
        if tree.cls == "Add":
            v = num(0)
            for pv, _ in parts:
                v = op("add", v, pv)
        else:
            v = minmax_term(tree.cls, [pv for pv, _ in parts])
        return v, (dims[0] if dims else None)
    if tree.cls == "Abs":
        return app("Abs", parts[0][0]), parts[0][1]
    if tree.cls == "Function":
        for pv, pd in parts:
            if pd is not None and not (isinstance(pd, Dim) and pd.dimensionless()):
                raise Refused("function argument not dimensionless")
        return app(tree.name, *[pv for pv, _ in parts]), Dim()
    raise AnalysisError(f"spec: node {tree.cls}")


def _exact(t):
    """floating point numbers app("Float", x) read as their exact value"""
    if isinstance(t, T):
        if t.op == "app" and t.val == "Float":
            return t.args[0]
        return T(t.op, tuple(_exact(a) for a in t.args), t.val)
    return t


def canon(t):
    """Min/Max applications as SymPy keeps them: flattened, without the identity of the operation, duplicates removed, canonical order"""
    if isinstance(t, int):
        return num(t)
    if t.op in ("num", "var", "fun", "pi"):
        return t
    args = [canon(a) for a in t.args]
    if t.op == "app" and t.val in ("Min", "Max"):
        args = [a for a in args if not (a.op == "var" and a.val == f"{t.val}()")]
        if not args:
            return var(f"{t.val}()")
        return minmax_term(t.val, args)
    if t.op == "app" and t.val == "diff" and args and args[0].op == "app" and args[0].val == "diff":
        return canon(app("diff", *args[0].args, *args[1:]))  # repeated differentiation is one derivative with all its variables
    if t.op == "app" and t.val == "diff" and args:
        # SymPy keeps the variables as (variable, count) pairs, neighbours that are the same variable merged: Derivative(f, t, t) is Derivative(f, (t, 2))
        vs: list = []
        for a in args[1:]:
            v_, c_ = (a.args[0], a.args[1]) if (a.op == "app" and a.val == "pair" and len(a.args) == 2) else (a, num(1))
            if vs and vs[-1][0] == v_ and vs[-1][1].op == "num" and c_.op == "num":
                vs[-1] = (v_, T("num", (), vs[-1][1].val + c_.val))
            else:
                vs.append((v_, c_))
        return T("app", (args[0], *[app("pair", v_, c_) for v_, c_ in vs]), "diff")
    return T(t.op, tuple(args), t.val)


def abstract_apps(t, memo: dict):
    """function applications replaced, bottom-up, by variables keyed by (name, normal forms of the arguments): applications with value-equal
    arguments become the same variable, so the exact normal form can compare terms that contain them"""
    if isinstance(t, int):
        return num(t)
    if t.op in ("num", "var", "fun", "pi"):
        return t
    args = [abstract_apps(a, memo) for a in t.args]
    if t.op == "app":
        forms = [normalize_safe(a) for a in args]
        entries = memo.setdefault(t.val, [])
        for old_forms, v_ in entries:
            if len(old_forms) == len(forms) and all((hasattr(x, "eq") and hasattr(y, "eq") and x.eq(y)) or repr(x) == repr(y) for x, y in zip(old_forms, forms)):
                return v_
        v_ = var(f"@app{sum(len(e) for e in memo.values())}:{t.val}")
        entries.append((forms, v_))
        return v_
    return T(t.op, tuple(args), t.val)


def same_value(a, b) -> bool:
    """value equality of two factor terms: exact normal form where there is one, otherwise the same operator over value-equal arguments"""
    a, b = canon(a), canon(b)
    memo: dict = {}
    try:
        a2, b2 = abstract_apps(a, memo), abstract_apps(b, memo)
        if repr(a2) == repr(b2) or same_terms(a2, b2):
            return True
    except AnalysisError:
        pass
    if repr(a) == repr(b):
        return True
    try:
        return same_terms(a, b)
    except AnalysisError:
        pass
    if a.op == b.op and a.val == b.val and len(a.args) == len(b.args) and a.op in ("pow", "app", "div"):
        return all(same_value(x, y) for x, y in zip(a.args, b.args))
    return repr(normalize_safe(a)) == repr(normalize_safe(b))


# ---------------------------------------------------------------------------------------------- C06: symbolic inference


def tree_term(tree, leaves: Leaves):
    """the expression a tree stands for, as a term over its leaves"""
    if isinstance(tree, int):
        return num(tree)
    if isinstance(tree, T):
        return tree
    if isinstance(tree, tuple) and tree and tree[0] == "indexed-element":
        return app("Indexed", tree[1], num(tree[2]))
    args = [tree_term(a, leaves) if not isinstance(a, list) else app("pair", *[tree_term(x, leaves) for x in a]) for a in tree.args]
    if tree.cls == "Mul":
        v = num(1)
        for a in args:
            v = op("mul", v, a)
        return v
    if tree.cls == "Add":
        v = num(0)
        for a in args:
            v = op("add", v, a)
        return v
    if tree.cls == "Pow":
        return op("pow", args[0], args[1])
    if tree.cls in ("Min", "Max"):
        return minmax_term(tree.cls, args)
    if tree.cls == "Abs":
        return app("Abs", args[0])
    if tree.cls == "Function":
        return app(tree.name, *args)
    if tree.cls == "Derivative":
        return app("diff", *args)
    raise AnalysisError(f"tree_term: {tree.cls}")


def spec_expression(tree, leaves: Leaves):
    """Dim | None (= any) inferred for an expression over dimensioned symbols, functions, quantities and numbers - or Refused (property C06)"""
    if isinstance(tree, int):
        return None if tree == 0 else Dim()
    if isinstance(tree, tuple) and tree and tree[0] == "indexed-element":
        return leaves.of(tree[1])["dimension"]
    if isinstance(tree, T):
        i = leaves.of(tree)
        if i is None:
            return None if is_zero_term(tree) else Dim()
        if i["kind"] == "quantity":
            return None if is_zero_term(leaves.value(tree)) else i["dimension"]
        if "dimension" in i:
            return i["dimension"]
        raise AnalysisError("spec: leaf outside the property's domain")
    if tree.cls == "Derivative":
        d = spec_expression(tree.args[0], leaves)
        for v_, n_ in tree.args[1:]:
            vd = spec_expression(v_, leaves)
            if d is None or vd is None:
                raise AnalysisError("spec: derivative of / by a zero")
            if not isinstance(n_, int):
                return ("opaque-dim", )  # a derivative of symbolic order: dimension of the variable to a symbolic power
            for _ in range(n_):
                d = d.mul(vd, -1)
        return d
    parts = [spec_expression(a, leaves) for a in tree.args]
    if any(isinstance(p_, tuple) for p_ in parts):
        raise AnalysisError("spec: symbolic power of a dimension below another node")
    if tree.cls == "Mul":
        if any(p_ is None for p_ in parts):
            return None
        d = Dim()
        for p_ in parts:
            d = d.mul(p_)
        return d
    if tree.cls == "Pow":
        bd, ed = parts
        ei = leaves.of(tree.args[1]) if isinstance(tree.args[1], T) else None
        if ei is not None and ei.get("kind") == "quantity" and not ei["dimension"].dimensionless():
            raise Refused("the exponent is a dimensional quantity")  # also when its value is zero: the property excuses zero TERMS of sums only
        if ed is not None and not ed.dimensionless():
            raise Refused("the exponent is dimensional")
        if bd is None:
            return None
        e = normalize_safe(_exact(leaves.value(tree_term(tree.args[1], leaves))))
        try:
            fr = Fraction(repr(e))
        except (ValueError, ZeroDivisionError):
            return bd if bd.dimensionless() else ("dim-power", bd, repr(e))
        return Dim(tuple((b, x * fr) for b, x in bd.exps if x * fr != 0))
    if tree.cls in ("Add", "Min", "Max"):
        dims = [p_ for p_ in parts if p_ is not None]
        for d in dims[1:]:
            if d.exps != dims[0].exps:
                raise Refused("a sum or min/max combines inequivalent dimensions")
        return dims[0] if dims else None
    if tree.cls == "Abs":
        return parts[0]
    if tree.cls == "Function":
        return Dim()
    raise AnalysisError(f"spec: node {tree.cls}")
