"""Positive fixture for the C03-I3 effect scanner: NOT repository code. Every statement below is a module-level effect the
scanner must recognise (if it stops recognising them the check ends with ANALYSIS-ERROR instead of passing vacuously)."""
from sympy.core.parameters import global_parameters
from symplyphysics import symbols
from symplyphysics.core.processors import disable_sympy_evaluation
import sys

global_parameters.evaluate = False
symbols.time._dimension = None
symbols.__dict__["x"] = 1
disable_sympy_evaluation()
sys.setrecursionlimit(100000)
