"""Positive fixture for C03-I7: NOT repository code. Each function consumes, positionally, a collection whose order SymPy derives
from generated symbol names; the scanner must recognise all of them on every run."""
from sympy import solve


def unpack_values(law, a, b):
    result = solve(law, [a, b], dict=True)[0]
    first, second = result.values()
    return first, second


def generator_over_values(law, a, b):
    result = solve(law, [a, b], dict=True)[0]
    x, y = (e * 2 for e in result.values())
    return x, y


def list_of_keys(law, a, b):
    return list(solve(law, [a, b], dict=True)[0].keys())[0]


def free_symbols_indexed(expr):
    return list(expr.free_symbols)[0]
