"""Dimension typing of *function bodies* (laws published as python functions over Vector / Expr arguments).

Extends the module-level interpreter of dim.py with a vector kind and the library's vector arithmetic. Used by the thorough
tier of C01 (rule H5). `Unknown` never produces a report.
"""
from __future__ import annotations

import ast
from typing import Optional

from .core import dotted, norm
from .dim import Interp, Val, UNKNOWN, EXPR, NUM, ANY, ZERO, World, ModEnv
from .units import ONE

AR = "symplyphysics.core.vectors.arithmetics."
VECM = "symplyphysics.core.vectors.vectors."


def VEC(d) -> Val:
    return Val("vec", d)


class FnInterp(Interp):
    """Interp for one function activation: `local` holds parameters and locals; issues are collected on a scratch env whose
    statement context is the *function definition* (so that reports name the law function)."""

    def __init__(self, world: World, env: ModEnv, fn: ast.FunctionDef, args: dict, depth: int = 0):
        scratch = ModEnv(env.mod, env.name)
        scratch.names = env.names
        super().__init__(world, scratch, dict(args))
        self.fn = fn
        self.stmt = fn
        self.targets = (fn.name, )
        self.depth = depth
        self.returns: list[Val] = []

    # ---- statements
    def run(self) -> Val:
        self.block(self.fn.body)
        if not self.returns:
            return UNKNOWN("no return")
        r = self.returns[0]
        for v in self.returns[1:]:
            r = self.unify_any(r, v, self.fn, "returned values")
        return r

    def block(self, body: list) -> None:
        for s in body:
            if isinstance(s, ast.Expr):
                if not isinstance(s.value, ast.Constant):
                    self.ev(s.value)
            elif isinstance(s, ast.Assign):
                v = self.ev(s.value)
                for t in s.targets:
                    self.bind_local(t, v)
            elif isinstance(s, ast.AnnAssign) and s.value is not None:
                self.bind_local(s.target, self.ev(s.value))
            elif isinstance(s, ast.AugAssign):
                if isinstance(s.target, ast.Name):
                    cur = self.local.get(s.target.id, UNKNOWN("augmented"))
                    self.local[s.target.id] = self.binop(s.op, cur, self.ev(s.value), s)
            elif isinstance(s, ast.Return):
                if s.value is not None:
                    self.returns.append(self.ev(s.value))
            elif isinstance(s, ast.If):
                self.ev(s.test)
                self.block(s.body)
                self.block(s.orelse)
            elif isinstance(s, (ast.For, ast.AsyncFor)):
                it = self.ev(s.iter)
                elem = UNKNOWN("loop element")
                if it.kind == "comps":
                    elem = EXPR(it.dim)
                elif it.kind == "seq" and it.extra:
                    elem = it.extra[0]
                    for x in it.extra[1:]:
                        elem = self.unify_any(elem, x, s, "elements iterated together")
                self.bind_local(s.target, elem)
                self.block(s.body)
            elif isinstance(s, (ast.With, ast.AsyncWith)):
                self.block(s.body)
            elif isinstance(s, ast.Assert):
                self.ev(s.test)
            elif isinstance(s, (ast.FunctionDef, ast.AsyncFunctionDef)):
                self.local[s.name] = Val("pyfunc", extra=(self.env.name + "." + s.name, s, self.env.name))
            elif isinstance(s, ast.Raise):
                pass
            else:
                for n in ast.walk(s):
                    if isinstance(n, ast.Name) and isinstance(n.ctx, ast.Store):
                        self.local[n.id] = UNKNOWN("bound by an unsupported statement")

    def bind_local(self, t: ast.AST, v: Val) -> None:
        if isinstance(t, ast.Name):
            self.local[t.id] = v
        elif isinstance(t, (ast.Tuple, ast.List)):
            items = v.extra if v.kind == "seq" and isinstance(v.extra, list) and len(v.extra) == len(t.elts) else None
            for i, e in enumerate(t.elts):
                self.bind_local(e, items[i] if items else (EXPR(v.dim) if v.kind == "comps" else UNKNOWN("unpacking")))

    def unify_any(self, a: Val, b: Val, node: ast.AST, what: str) -> Val:
        if a.kind == "vec" and b.kind == "vec":
            r = self.unify(EXPR(a.dim), EXPR(b.dim), node, "H2", what)
            return VEC(r.dim) if r.kind == "expr" else r
        if (a.kind == "vec") != (b.kind == "vec") and "unknown" not in (a.kind, b.kind) and "any" not in (a.kind, b.kind):
            return UNKNOWN("vector combined with scalar")
        if a.kind == "vec":
            return a if b.kind == "any" else b
        if b.kind == "vec":
            return b if a.kind == "any" else a
        return self.unify(a, b, node, "H2", what)

    # ---- expressions
    def _ev(self, n: ast.AST) -> Val:
        if isinstance(n, ast.Attribute):
            base = self.ev(n.value)
            if base.kind == "vec":
                if n.attr in ("components", ):
                    return Val("comps", base.dim)
                if n.attr in ("coordinate_system", ):
                    return Val("object", extra="coordinate_system")
                if n.attr == "dimension":
                    return Val("dimobj", base.dim)
        if isinstance(n, ast.Subscript):
            base = self.ev(n.value)
            if base.kind == "comps":
                return EXPR(base.dim)
        if isinstance(n, (ast.ListComp, ast.GeneratorExp)) and len(n.generators) == 1:
            g = n.generators[0]
            it = self.ev(g.iter)
            saved = dict(self.local)
            elem = UNKNOWN("comprehension element")
            if it.kind == "comps":
                elem = EXPR(it.dim)
            elif it.kind == "seq" and it.extra:
                elem = it.extra[0]
            self.bind_local(g.target, elem)
            v = self.ev(n.elt)
            self.local = saved
            if v.kind == "expr":
                return Val("comps", v.dim)
            if v.kind == "vec":
                return Val("seq", extra=[v])
            return UNKNOWN("comprehension")
        return super()._ev(n)

    def binop(self, op: ast.operator, l: Val, r: Val, n: ast.AST) -> Val:
        if l.kind == "vec" or r.kind == "vec":
            return UNKNOWN("python operator on Vector objects")
        return super().binop(op, l, r, n)

    def method_call(self, n: ast.Call, f: ast.Attribute, base: Val) -> Val:
        a = f.attr
        if base.kind == "vec":
            for x in n.args:
                self.ev(x)
            if a in ("to_base_vector", "simplify", "subs", "rebase", "doit"):
                return base
            return UNKNOWN(f"method .{a} of a vector")
        if base.kind == "pyclass" and str(base.extra).endswith("QuantityVector") and a == "from_base_vector" and n.args:
            v = self.ev(n.args[0])
            for k in n.keywords:
                if k.arg == "dimension":
                    d = self.dim_arg(k.value)
                    if d.kind == "dimobj" and d.extra != "any":
                        return VEC(d.dim)
                self.ev(k.value)
            return v
        if base.kind == "comps":
            return UNKNOWN(f"method .{a} of a component list")
        return super().method_call(n, f, base)

    def lib_call(self, qual: str, n: ast.Call) -> Optional[Val]:
        args = n.args
        name = qual.rsplit(".", 1)[1]
        if qual.startswith(AR):
            vals = []
            for a in args:
                if isinstance(a, ast.Starred):
                    v = self.ev(a.value)
                    vals += v.extra if v.kind == "seq" else [UNKNOWN("starred")]
                else:
                    vals.append(self.ev(a))
            if name == "scale_vector" and len(vals) == 2:
                s, v = vals
                if v.kind != "vec":
                    return v if v.kind == "unknown" else UNKNOWN("scale of non-vector")
                r = self.binop(ast.Mult(), s, EXPR(v.dim), n)
                return VEC(r.dim) if r.kind == "expr" else (VEC(v.dim) if r.kind == "any" else r)
            if name in ("add_cartesian_vectors", "subtract_cartesian_vectors") and vals:
                r = vals[0]
                for v in vals[1:]:
                    r = self.unify_any(r, v, n, f"vectors combined by {name}")
                return r
            if name in ("cross_cartesian_vectors", "dot_vectors") and len(vals) == 2:
                a, b = vals
                if a.kind != "vec" or b.kind != "vec":
                    return next((x for x in (a, b) if x.kind == "unknown"), UNKNOWN(f"{name} of non-vectors"))
                d = a.dim * b.dim
                return VEC(d) if name.startswith("cross") else EXPR(d)
            if name == "vector_magnitude" and len(vals) == 1:
                return EXPR(vals[0].dim) if vals[0].kind == "vec" else (vals[0] if vals[0].kind == "unknown" else UNKNOWN("magnitude"))
            if name == "vector_unit" and len(vals) == 1:
                return VEC(ONE) if vals[0].kind == "vec" else UNKNOWN("unit")
            if name in ("project_vector", "reject_cartesian_vector") and len(vals) == 2:
                return vals[0] if vals[0].kind in ("vec", "unknown") else UNKNOWN(name)
            if name == "diff_cartesian_vector" and vals:
                v = vals[0]
                if v.kind != "vec":
                    return v if v.kind == "unknown" else UNKNOWN("diff of non-vector")
                r = self.derivative(EXPR(v.dim), args[1:], n)
                return VEC(r.dim) if r.kind == "expr" else r
            if name == "integrate_cartesian_vector" and vals:
                v = vals[0]
                if v.kind != "vec":
                    return v if v.kind == "unknown" else UNKNOWN("integral of non-vector")
                r = self.integral(EXPR(v.dim), args[1:], n)
                return VEC(r.dim) if r.kind == "expr" else r
            return UNKNOWN(f"arithmetics.{name}")
        if qual in (VECM + "Vector", ):
            if not args:
                return UNKNOWN("Vector()")
            c = self.ev(args[0])
            if c.kind == "comps":
                return VEC(c.dim)
            if c.kind == "seq" and c.extra:
                r = c.extra[0]
                for x in c.extra[1:]:
                    r = self.unify(r, x, n, "H2", "components of one vector")
                return VEC(r.dim) if r.kind == "expr" else (r if r.kind == "unknown" else UNKNOWN("vector components"))
            return UNKNOWN("Vector(...) components")
        if qual in (VECM + "QuantityVector", ):
            c = self.ev(args[0]) if args else UNKNOWN("QuantityVector()")
            if c.kind == "comps":
                return VEC(c.dim)
            if c.kind == "seq" and c.extra:
                r = c.extra[0]
                for x in c.extra[1:]:
                    r = self.unify(r, x, n, "H2", "components of one vector")
                return VEC(r.dim) if r.kind == "expr" else UNKNOWN("vector components")
            return UNKNOWN("QuantityVector(...)")
        r = super().lib_call(qual, n)
        return r

    def inline(self, fv: Val, n: ast.Call) -> Val:
        qual, node, modname = fv.extra
        if self.depth >= 3:
            return UNKNOWN("call depth bound")
        params = node.args
        names = [p.arg for p in params.posonlyargs + params.args]
        if params.vararg or any(isinstance(a, ast.Starred) for a in n.args) or len(n.args) > len(names):
            return UNKNOWN("python helper call (signature)")
        local = {}
        for p, a in zip(names, n.args):
            local[p] = self.ev(a)
        for k in n.keywords:
            if k.arg in names:
                local[k.arg] = self.ev(k.value)
        if len(local) < len(names) - len(params.defaults):
            return UNKNOWN("python helper call (missing arguments)")
        env = self.w.env(modname)
        sub = FnInterp(self.w, env, node, local, self.depth + 1)
        res = sub.run()
        # issues found inside a callee of the same module are attributed to that callee
        if modname == self.env.name:
            self.env.issues.extend(sub.env.issues)
        return res
