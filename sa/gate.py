"""Abstract objects of the dimension gate (quantities, dimensioned symbols, vectors, dimensions) for the abstract evaluator.

The gate code (`_assert_expected_unit`, `assert_equivalent_dimension`, `Quantity.__init__`, ...) is evaluated on these objects, whatever
its shape: helper functions, comprehensions, match statements, guard clauses all mean the same here. Nothing of the repository runs.

* `Dim`      - a point of the dimension lattice: exponents of base dimensions, `angle` being one of them (as in SymPy's SI system, where
               Dimension(angle) is NOT dimensionless); `erased()` is `.subs("angle", 1)`.
* `Fac`      - a scale factor of which only its class is known (finite non-zero number, zero, infinite, NaN, symbolic). Any arithmetic,
               ordering or numeric conversion of a Fac raises `MagnitudeUse`: a verdict that needs it depends on the magnitude.
* `Obj`      - an instance of one of the library's classes with the attributes the gate reads.
"""
from __future__ import annotations

import ast
from dataclasses import dataclass, field
from fractions import Fraction
from typing import Optional

from .core import AnalysisError, dotted, norm
from .alg import T, num, var
from .pyreader import PyReader, Raised


class MagnitudeUse(Exception):

    def __init__(self, node, what):
        super().__init__(what)
        self.node, self.what = node, what


@dataclass(frozen=True)
class Dim:
    exps: tuple = ()  # sorted ((base, Fraction), ...) without zero exponents
    any_dim: bool = False  # the AnyDimension instance
    form: str = ""  # how the dimension is WRITTEN (energy vs force*length): `==` on SymPy dimensions is structural and tells two forms apart, equivalent_dims does not

    @staticmethod
    def of(**kw) -> "Dim":
        return Dim(tuple(sorted((k, Fraction(v)) for k, v in kw.items() if Fraction(v) != 0)))

    def erased(self) -> "Dim":
        return Dim(tuple((b, e) for b, e in self.exps if b != "angle"), self.any_dim)

    def dimensionless(self) -> bool:
        return not self.exps

    def mul(self, other: "Dim", sign: int = 1) -> "Dim":
        d = dict(self.exps)
        for b, e in other.exps:
            d[b] = d.get(b, Fraction(0)) + sign * e
        return Dim(tuple(sorted((b, e) for b, e in d.items() if e != 0)))

    def __repr__(self) -> str:
        if self.any_dim:
            return "any_dimension"
        return "*".join(f"{b}**{e}" if e != 1 else b for b, e in self.exps) or "1"


@dataclass(frozen=True)
class Fac:
    kind: str  # finite | zero | inf | nan | symbolic
    tag: str = ""


@dataclass(eq=False)
class Obj:
    cls: str
    attrs: dict = field(default_factory=dict)
    tag: str = ""

    def __repr__(self) -> str:
        return f"<{self.cls} {self.tag}>"


CLASS_SETS = {
    "Quantity": {"Quantity", "SymQuantity", "DimensionSymbol", "Expr", "Basic", "SupportsFloat", "AtomicExpr"},
    "SymQuantity": {"SymQuantity", "Expr", "Basic", "SupportsFloat", "AtomicExpr"},
    "Symbol": {"Symbol", "DimensionSymbol", "SymSymbol", "Expr", "Basic", "SupportsFloat"},
    "Function": {"Function", "DimensionSymbol", "Basic"},
    "IndexedSymbol": {"IndexedSymbol", "DimensionSymbol", "Basic", "Expr"},
    "Symbolic": {"Symbolic", "SymSymbol", "Expr", "Basic"},
    "QuantityVector": {"QuantityVector", "DimensionSymbol"},
}
KNOWN_CLASSES = set().union(*CLASS_SETS.values()) | {"Dimension", "AnyDimension", "Sequence", "list", "tuple", "int", "float", "complex", "str", "Number", "Iterable",
                                                     "Vector", "dict", "bool", "NoneType", "Prefix", "Mul", "Add", "Pow", "Derivative", "Abs", "SymFunction", "MinMaxBase"}


def quantity(tag: str, dim: Dim, fac: str = "finite", cls: str = "Quantity") -> Obj:
    return Obj(cls, {"scale_factor": Fac(fac, tag), "dimension": dim, "display_name": f"<{tag}>", "name": f"<{tag}>"}, tag)


def dimensioned(cls: str, tag: str, dim: Dim) -> Obj:
    return Obj(cls, {"dimension": dim, "display_name": f"<{tag}>"}, tag)


def qvector(tag: str, dim: Dim, facs: list) -> Obj:
    v = Obj("QuantityVector", {"dimension": dim, "display_name": f"<{tag}>"}, tag)
    v.attrs["components"] = [quantity(f"{tag}[{i}]", dim, f_) for i, f_ in enumerate(facs)]
    return v


BASE_DIMENSIONS = ("length", "mass", "time", "current", "temperature", "amount_of_substance", "luminous_intensity", "information", "angle")
SI_BASE_UNITS = ("meter", "kilogram", "second", "ampere", "kelvin", "mole", "candela")


class GateReader(PyReader):
    """pyreader + the gate's objects. Calls of `assert_equivalent_dimension` are recorded in `self.events` unless that function is part of the
    evaluated module."""

    record_aed = True
    extern_classes: dict = {}  # {class name of a model object: ClassDef in another module} - properties are followed there

    def __init__(self, module: ast.Module, where: str = "", depth_limit: int = 8):
        super().__init__(module, where, depth_limit)
        self.events: list = []

    # ---- classes
    def classes_of(self, v) -> Optional[set]:
        if isinstance(v, Obj):
            return CLASS_SETS.get(v.cls)
        if isinstance(v, Dim):
            return {"Dimension", "Basic", "Expr"} | ({"AnyDimension"} if v.any_dim else set())
        if v is None:
            return {"NoneType"}
        if isinstance(v, bool):
            return {"bool", "int"}
        if isinstance(v, int):
            return {"int", "SupportsFloat", "Number"}
        if isinstance(v, T):
            return {"Expr", "Basic", "SupportsFloat", "Number"} if v.op == "num" else {"Expr", "Basic", "SupportsFloat"}
        if isinstance(v, Fac):
            return {"Expr", "Basic", "SupportsFloat", "Number"}
        if isinstance(v, list):
            return {"Sequence", "list", "tuple", "Iterable"}
        if isinstance(v, str):
            return {"str", "Sequence", "Iterable"}
        if isinstance(v, dict):
            return {"dict", "Iterable"}
        return None

    def class_names(self, n: ast.AST) -> list:
        if isinstance(n, ast.Tuple):
            return [x for e in n.elts for x in self.class_names(e)]
        d = dotted(n)
        if d is None:
            self.fail(n, "class expression")
        name = d.split(".")[-1]
        if name not in KNOWN_CLASSES:
            self.fail(n, f"class {name} is not modelled")
        return [name]

    def is_instance(self, v, names: list, n: ast.AST) -> bool:
        cs = self.classes_of(v)
        if cs is None:
            self.fail(n, f"isinstance of {type(v).__name__}")
        return any(x in cs for x in names)

    def store_attr(self, base, attr, value, n) -> bool:
        if isinstance(base, Obj):
            base.attrs[attr] = value
            return True
        return False

    # ---- hooks
    def global_value(self, n: ast.AST):
        d = dotted(n)
        if d in ("dimsys_SI", "SI.get_dimension_system"):
            return ("dimsys", )
        if d in ("dimensionless", ):
            return Dim()
        if d in ("angle_type", ):
            return Dim.of(angle=1)
        if d and d.startswith("units.") and d[6:] in BASE_DIMENSIONS:
            return Dim.of(**{d[6:]: 1})
        if d and d.startswith("units.") and d[6:] in SI_BASE_UNITS:
            return var("unit:" + d[6:])
        if d in ("S.Infinity", "oo"):
            return Fac("inf")
        if d in ("S.NaN", "nan"):
            return Fac("nan")
        return super().global_value(n)

    def hook_attr(self, base, attr, n):
        if isinstance(base, Obj):
            if attr in base.attrs:
                v = base.attrs[attr]
                return list(v) if isinstance(v, list) else v
            if attr.lstrip("_") in base.attrs:
                v = base.attrs[attr.lstrip("_")]
                return list(v) if isinstance(v, list) else v
            cdef = self.extern_classes.get(base.cls)
            if cdef is not None:
                # a property the object's class defines in ANOTHER module (QuantityVector.has_any_dimension): evaluated from its source on the model object
                prop = next((f_ for f_ in cdef.body if isinstance(f_, ast.FunctionDef) and f_.name == attr
                             and any(dotted(d_) in ("property", "cached_property", "functools.cached_property") for d_ in f_.decorator_list)), None)
                if prop is not None:
                    return self.call_def(prop, [base], {}, {})
        if isinstance(base, tuple) and len(base) == 2 and base[0] == "complex-of" and attr in ("real", "imag", "conjugate"):
            raise MagnitudeUse(n, f".{attr} of the scale factor's value")
        if isinstance(base, Dim) and attr == "name":
            return "str"
        if isinstance(base, Fac):
            if attr == "is_zero":
                return base.kind == "zero"
            if attr == "is_infinite":
                return base.kind == "inf"
            if attr in ("is_Float", "is_Number", "is_number"):
                return base.kind != "symbolic" if attr != "is_Float" else False
        return NotImplemented

    def hook_method(self, base, attr, args, kwargs, n):
        if isinstance(base, Dim) and attr == "subs" and len(args) == 2:
            key, val = args
            is_angle = key == "angle" or key == Dim.of(angle=1)
            is_one = val == 1 or (isinstance(val, T) and val.op == "num" and val.val == 1)
            if is_angle and is_one:
                return base.erased()
            self.fail(n, "substitution on a dimension other than angle -> 1")
        if base == ("dimsys", ):
            if attr == "is_dimensionless" and len(args) == 1 and isinstance(args[0], Dim):
                return args[0].dimensionless()
            if attr == "equivalent_dims" and len(args) == 2 and all(isinstance(a, Dim) for a in args):
                return args[0].exps == args[1].exps
            if attr == "get_dimensional_dependencies" and len(args) == 1 and isinstance(args[0], Dim) and not args[0].any_dim:
                # sympy: {base dimension: exponent}; angle is a base dimension of dimsys_SI like any other
                return {Dim.of(**{b: 1}): (int(e) if e.denominator == 1 else num(e)) for b, e in args[0].exps}
        return NotImplemented

    def hook_binop(self, o, l, r, n):
        if isinstance(l, Fac) or isinstance(r, Fac):
            raise MagnitudeUse(n, "arithmetic on the scale factor")
        if isinstance(l, Dim) and isinstance(r, Dim) and isinstance(o, (ast.Mult, ast.Div)):
            return l.mul(r, 1 if isinstance(o, ast.Mult) else -1)
        if isinstance(l, Dim) and isinstance(o, ast.Pow) and not l.any_dim:
            e = Fraction(r) if isinstance(r, int) and not isinstance(r, bool) else (r.val if isinstance(r, T) and r.op == "num" else None)
            if e is not None:
                return Dim(tuple((b, x * e) for b, x in l.exps if x * e != 0))
        if isinstance(o, (ast.Mult, ast.Div)) and ((isinstance(l, Dim) and (r == 1 or (isinstance(r, T) and r.op == "num" and r.val == 1)))
                                                   or (isinstance(r, Dim) and isinstance(o, ast.Mult) and (l == 1 or (isinstance(l, T) and l.op == "num" and l.val == 1)))):
            return l if isinstance(l, Dim) else r  # Dimension(1) spelled as the number one
        return NotImplemented

    def hook_compare(self, o, l, r, n):
        if isinstance(l, Fac) or isinstance(r, Fac):
            fac, other = (l, r) if isinstance(l, Fac) else (r, l)
            zero = other == 0 or (isinstance(other, T) and other.op == "num" and other.val == 0)
            if isinstance(o, (ast.Eq, ast.NotEq)) and zero:
                # comparison with the exact integer zero: SymPy's Float(0.0) == 0 is False since 1.13, which the callers of this model decide separately
                res = fac.kind == "zero"
                return res if isinstance(o, ast.Eq) else not res
            if isinstance(o, (ast.In, ast.NotIn)):
                return NotImplemented
            raise MagnitudeUse(n, "comparison of the scale factor")
        if isinstance(l, Dim) and isinstance(r, Dim) and isinstance(o, (ast.Eq, ast.NotEq)):
            return (l == r) if isinstance(o, ast.Eq) else (l != r)
        return NotImplemented

    def hook_call(self, n, env, fns):
        f = dotted(n.func) or ""
        name = f.split(".")[-1]
        if name == "isinstance" and len(n.args) == 2:
            return self.is_instance(self.ev(n.args[0], env, fns), self.class_names(n.args[1]), n)
        if name == "assert_equivalent_dimension" and self.record_aed and name not in self.functions:
            args = [self.ev(a, env, fns) for a in n.args]
            kw_ = {k.arg: self.ev(k.value, env, fns) for k in n.keywords if k.arg}
            order = ["arg", "param_name", "func_name", "expected_unit"]
            for i, nm in enumerate(order):
                if i >= len(args) and nm in kw_:
                    args.append(kw_[nm])
            if len(args) != 4:
                self.fail(n, "assert_equivalent_dimension arguments")
            self.events.append(tuple(args))
            return None
        if name == "is_any_dimension" and len(n.args) == 1 and name not in self.functions:
            v = self.ev(n.args[0], env, fns)
            return self.any_dimension_value(v, n)
        if name == "is_number" and len(n.args) == 1 and name not in self.functions:
            v = self.ev(n.args[0], env, fns)
            if isinstance(v, Fac):
                return v.kind != "symbolic"
            return isinstance(v, (int, T)) and not isinstance(v, bool)
        if name in ("float", "complex", "abs", "Abs", "int") and len(n.args) == 1:
            v = self.ev(n.args[0], env, fns)
            if isinstance(v, Fac):
                if name == "complex" and self.complex_is_numeric_check:
                    if v.kind == "symbolic":
                        raise Raised("TypeError", getattr(n, "lineno", 0))
                    return ("complex-of", v)
                raise MagnitudeUse(n, f"{name}() of the scale factor")
        if name == "collect_quantity_factor_and_dimension" and len(n.args) == 1 and name not in self.functions:
            v = self.ev(n.args[0], env, fns)
            if isinstance(v, Obj) and "scale_factor" in v.attrs:
                return [v.attrs["scale_factor"], v.attrs["dimension"]]
            if isinstance(v, (int, T)) and not isinstance(v, bool):
                return [v, Dim()]
            if isinstance(v, Fac):
                return [v, Dim()]
            raise Raised("ValueError", getattr(n, "lineno", 0))
        if name == "Dimension" and len(n.args) == 1 and name not in self.functions:
            v = self.ev(n.args[0], env, fns)
            if isinstance(v, Dim):
                return v
            if v == 1 or (isinstance(v, T) and v.op == "num" and v.val == 1):
                return Dim()
            self.fail(n, "Dimension(...) of something other than 1 or a dimension")
        if name in ("getattr", "hasattr") and len(n.args) >= 2:
            v = self.ev(n.args[0], env, fns)
            a_ = self.ev(n.args[1], env, fns)
            if isinstance(v, Obj) and isinstance(a_, str):
                if name == "hasattr":
                    return a_ in v.attrs or a_.lstrip("_") in v.attrs
                if a_ in v.attrs:
                    return v.attrs[a_]
                if len(n.args) == 3:
                    return self.ev(n.args[2], env, fns)
                raise Raised("AttributeError", getattr(n, "lineno", 0))
        if name in ("print_dimension", "str", "repr"):
            return "str"
        return NotImplemented

    complex_is_numeric_check = True

    def any_dimension_value(self, v, n) -> bool:
        if isinstance(v, Fac):
            return v.kind in ("zero", "inf", "nan")
        if isinstance(v, int) and not isinstance(v, bool):
            return v == 0
        if isinstance(v, T):
            return v.op == "num" and v.val == 0
        self.fail(n, f"is_any_dimension of {type(v).__name__}")
