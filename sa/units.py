"""SymPy's unit / dimension tables, read statically from the pinned SymPy *sources* (never imported).

Gives, for every name exported by sympy.physics.units: a dimension vector over the seven SI base
dimensions (angle -> dimensionless, which is what assert_equivalent_dimension does) and, for units and
constants, the scale factor in SymPy's canonical scale (metre, *gram*, second, ...), exact (Fraction)
where the source is exact and float otherwise.
"""
from __future__ import annotations

import ast
import math
from fractions import Fraction
from functools import lru_cache
from typing import Optional, Union

from .core import SYMPY, AnalysisError

BASE = ("length", "mass", "time", "current", "temperature", "amount_of_substance", "luminous_intensity")
Number = Union[Fraction, float, complex]


class Dim:
    """Element of the free abelian group (rational exponents) on the SI base dimensions."""
    __slots__ = ("v", )

    def __init__(self, v=None):
        self.v = {k: Fraction(x) for k, x in (v or {}).items() if x != 0}

    def __mul__(self, o: "Dim") -> "Dim":
        d = dict(self.v)
        for k, x in o.v.items():
            d[k] = d.get(k, 0) + x
        return Dim(d)

    def __truediv__(self, o: "Dim") -> "Dim":
        return self * (o**-1)

    def __pow__(self, n) -> "Dim":
        n = Fraction(n)
        return Dim({k: x * n for k, x in self.v.items()})

    def __eq__(self, o) -> bool:
        return isinstance(o, Dim) and self.v == o.v

    def __hash__(self) -> int:
        return hash(tuple(sorted(self.v.items())))

    @property
    def dimensionless(self) -> bool:
        return not self.v

    def __repr__(self) -> str:
        if not self.v:
            return "1"
        return "*".join(f"{k}^{x}" if x != 1 else k for k, x in sorted(self.v.items()))


ONE = Dim()


def _units_dir():
    d = SYMPY / "physics" / "units"
    if not d.is_dir():
        raise AnalysisError(f"SymPy unit sources not found at {d}")
    return d


def _parse(rel: str) -> ast.Module:
    p = _units_dir() / rel
    try:
        return ast.parse(p.read_text(encoding="utf-8"))
    except (OSError, SyntaxError) as e:
        raise AnalysisError(f"cannot read SymPy source {p}: {e}") from e


SYSTEM_FILES = ("systems/length_weight_time.py", "systems/mks.py", "systems/mksa.py", "systems/si.py")


@lru_cache(maxsize=None)
def dimension_table() -> dict[str, Dim]:
    """variable name in sympy.physics.units -> Dim  (e.g. 'energy', 'velocity', 'speed')."""
    t = _parse("definitions/dimension_definitions.py")
    names: dict[str, str] = {}
    alias: dict[str, str] = {}
    for s in t.body:
        tgt = val = None
        if isinstance(s, ast.Assign) and len(s.targets) == 1 and isinstance(s.targets[0], ast.Name):
            tgt, val = s.targets[0].id, s.value
        elif isinstance(s, ast.AnnAssign) and isinstance(s.target, ast.Name):
            tgt, val = s.target.id, s.value
        if tgt is None or val is None:
            continue
        if isinstance(val, ast.Call) and isinstance(val.func, ast.Name) and val.func.id == "Dimension":
            nm = None
            if val.args and isinstance(val.args[0], ast.Constant):
                nm = val.args[0].value
            for k in val.keywords:
                if k.arg == "name" and isinstance(k.value, ast.Constant):
                    nm = k.value.value
            if nm is not None:
                names[tgt] = nm
        elif isinstance(val, ast.Name):
            alias[tgt] = val.id
    deps: dict[str, dict[str, Fraction]] = {}
    for f in SYSTEM_FILES:
        for n in ast.walk(_parse(f)):
            if isinstance(n, ast.Call):
                for k in n.keywords:
                    if k.arg in ("dimensional_dependencies", "new_dim_deps") and isinstance(k.value, ast.Dict):
                        for kk, vv in zip(k.value.keys, k.value.values):
                            if isinstance(kk, ast.Constant) and isinstance(vv, ast.Dict):
                                deps[kk.value] = {a.value: Fraction(ast.literal_eval(b)) for a, b in zip(vv.keys, vv.values)}
    out: dict[str, Dim] = {}
    for var, nm in names.items():
        if nm in BASE:
            out[var] = Dim({nm: 1})
        elif nm in deps:
            out[var] = Dim(deps[nm])
        elif nm == "angle":
            out[var] = ONE
        # 'information' and friends: not an SI dimension -> left out (Unknown downstream)
    for a, b in alias.items():
        if b in out:
            out[a] = out[b]
    # aliases made in sympy/physics/units/__init__.py  (speed = velocity, ...)
    for s in _parse("__init__.py").body:
        if isinstance(s, ast.Assign) and isinstance(s.value, ast.Name) and s.value.id in out:
            for tg in s.targets:
                if isinstance(tg, ast.Name):
                    out[tg.id] = out[s.value.id]
    for b in BASE:
        if b not in out:
            raise AnalysisError(f"SymPy dimension table: base dimension {b} not found")
    return out


@lru_cache(maxsize=None)
def prefix_table() -> dict[str, Fraction]:
    out = {}
    for s in _parse("prefixes.py").body:
        if isinstance(s, ast.Assign) and isinstance(s.value, ast.Call) and isinstance(s.value.func, ast.Name) \
                and s.value.func.id == "Prefix" and len(s.value.args) >= 3:
            try:
                exp = ast.literal_eval(s.value.args[2])
                base = ast.literal_eval(s.value.args[3]) if len(s.value.args) > 3 else 10
            except ValueError:
                continue
            for tg in s.targets:
                if isinstance(tg, ast.Name):
                    out[tg.id] = Fraction(base)**exp
    if out.get("kilo") != 1000 or out.get("milli") != Fraction(1, 1000):
        raise AnalysisError("SymPy prefix table not understood")
    return out


def num_pow(a: Number, b: Number) -> Number:
    if isinstance(a, Fraction) and isinstance(b, Fraction) and b.denominator == 1 and abs(b) <= 400:
        if a == 0 and b < 0:
            raise ZeroDivisionError
        return a**int(b)
    if isinstance(a, Fraction) and isinstance(b, Fraction) and a > 0:
        # exact rational roots where they exist
        n, d = b.numerator, b.denominator
        rn = round(a.numerator**(1.0 / d))
        rd = round(a.denominator**(1.0 / d))
        if rn**d == a.numerator and rd**d == a.denominator and abs(n) <= 400:
            return Fraction(rn, rd)**n
    return complex(a)**complex(b) if (isinstance(a, complex) or isinstance(b, complex) or (not isinstance(a, complex) and a < 0)) \
        else float(a)**float(b)


def num_mul(a: Number, b: Number) -> Number:
    if isinstance(a, Fraction) and isinstance(b, Fraction):
        return a * b
    return _f(a) * _f(b)


def num_div(a: Number, b: Number) -> Number:
    if isinstance(a, Fraction) and isinstance(b, Fraction):
        return a / b
    return _f(a) / _f(b)


def num_add(a: Number, b: Number) -> Number:
    if isinstance(a, Fraction) and isinstance(b, Fraction):
        return a + b
    return _f(a) + _f(b)


def _f(x: Number):
    return x if isinstance(x, complex) else float(x)


def literal_number(node: ast.AST) -> Optional[Number]:
    if isinstance(node, ast.Constant) and not isinstance(node.value, bool):
        if isinstance(node.value, int):
            return Fraction(node.value)
        if isinstance(node.value, float):
            return node.value
        if isinstance(node.value, complex):
            return node.value
    return None


class UnitTable:
    """name -> (scale in SymPy canonical scale, Dim); resolved lazily over the definition sources."""

    def __init__(self) -> None:
        self.alias: dict[str, str] = {}  # variable name -> canonical variable name
        self.global_ref: dict[str, tuple[ast.AST, ast.AST]] = {}  # canon -> (factor expr, reference expr)
        self.global_dim: dict[str, ast.AST] = {}
        self.sys_scale: dict[str, ast.AST] = {}  # canon -> scale expr (last system in the chain wins)
        self.sys_dim: dict[str, ast.AST] = {}
        self.local_names: dict[str, dict[str, ast.AST]] = {}  # helper assignments in system files (One, dHg0)
        self._cache: dict[str, Optional[tuple[Number, Optional[Dim]]]] = {}
        self._load()

    def canon(self, name: str) -> str:
        seen = set()
        while name in self.alias and self.alias[name] != name and name not in seen:
            seen.add(name)
            name = self.alias[name]
        return name

    def _load(self) -> None:
        t = _parse("definitions/unit_definitions.py")
        for s in t.body:
            if isinstance(s, ast.Assign):
                names = [x.id for x in s.targets if isinstance(x, ast.Name)]
                if isinstance(s.value, ast.Call) and isinstance(s.value.func, ast.Name) \
                        and s.value.func.id in ("Quantity", "PhysicalConstant"):
                    c = names[-1]
                    for nme in names:
                        self.alias[nme] = c
                    self.alias[c] = c
                elif isinstance(s.value, ast.Name) and s.value.id in self.alias:
                    for nme in names:
                        self.alias[nme] = self.canon(s.value.id)
        # aliases created in sympy/physics/units/__init__.py are plain re-exports; nothing to add.
        for f in ("definitions/unit_definitions.py", ) + SYSTEM_FILES:
            tree = _parse(f)
            for s in tree.body:
                if isinstance(s, ast.Assign) and len(s.targets) == 1 and isinstance(s.targets[0], ast.Name) \
                        and s.targets[0].id not in self.alias:
                    self.local_names.setdefault(f, {})[s.targets[0].id] = s.value
            for n in ast.walk(tree):
                if not (isinstance(n, ast.Call) and isinstance(n.func, ast.Attribute)):
                    continue
                m = n.func.attr
                recv = n.func.value
                if m == "set_global_dimension" and isinstance(recv, ast.Name) and len(n.args) == 1:
                    self.global_dim[self.canon(recv.id)] = n.args[0]
                elif m == "set_global_relative_scale_factor" and isinstance(recv, ast.Name) and len(n.args) == 2:
                    self.global_ref[self.canon(recv.id)] = (n.args[0], n.args[1])
                elif m == "set_quantity_dimension" and len(n.args) == 2 and isinstance(n.args[0], ast.Name):
                    self.sys_dim[self.canon(n.args[0].id)] = n.args[1]
                elif m == "set_quantity_scale_factor" and len(n.args) == 2 and isinstance(n.args[0], ast.Name):
                    self.sys_scale[self.canon(n.args[0].id)] = n.args[1]
        if "meter" not in self.alias or "kilogram" not in self.alias:
            raise AnalysisError("SymPy unit table not understood (meter/kilogram missing)")

    # ---- evaluation of the small expression language used by those files
    def _dim_expr(self, node: ast.AST) -> Optional[Dim]:
        dims = dimension_table()
        if isinstance(node, ast.Name):
            if node.id in dims:
                return dims[node.id]
            if node.id == "One":
                return ONE
            return None
        if isinstance(node, ast.Constant) and isinstance(node.value, (int, float)):
            return ONE
        if isinstance(node, ast.BinOp):
            l = self._dim_expr(node.left)
            if l is None:
                return None
            if isinstance(node.op, ast.Pow):
                e = self._num_only(node.right)
                return l**e if isinstance(e, Fraction) else None
            r = self._dim_expr(node.right)
            if r is None:
                return None
            if isinstance(node.op, ast.Mult):
                return l * r
            if isinstance(node.op, ast.Div):
                return l / r
        return None

    def _num_only(self, node: ast.AST) -> Optional[Number]:
        v = self._scale_expr(node, numeric_only=True)
        return v[0] if v is not None else None

    def _scale_expr(self, node: ast.AST, numeric_only: bool = False) -> Optional[tuple[Number, Optional[Dim]]]:
        lit = literal_number(node)
        if lit is not None:
            return lit, ONE
        if isinstance(node, ast.Name):
            if node.id == "One":
                return Fraction(1), ONE
            if node.id == "pi":
                return math.pi, ONE
            if node.id in prefix_table():
                return prefix_table()[node.id], ONE
            if numeric_only:
                return None
            if node.id in self.alias:
                return self.unit(node.id)
            for tbl in self.local_names.values():
                if node.id in tbl:
                    return self._scale_expr(tbl[node.id])
            return None
        if isinstance(node, ast.Attribute) and isinstance(node.value, ast.Name) and node.value.id in ("S", "S_singleton"):
            return {"One": (Fraction(1), ONE), "Half": (Fraction(1, 2), ONE)}.get(node.attr)
        if isinstance(node, ast.UnaryOp) and isinstance(node.op, (ast.USub, ast.UAdd)):
            v = self._scale_expr(node.operand, numeric_only)
            if v is None:
                return None
            return (num_mul(Fraction(-1), v[0]) if isinstance(node.op, ast.USub) else v[0]), v[1]
        if isinstance(node, ast.BinOp):
            l = self._scale_expr(node.left, numeric_only)
            r = self._scale_expr(node.right, numeric_only)
            if l is None or r is None:
                return None
            (ls, ld), (rs, rd) = l, r
            if isinstance(node.op, ast.Mult):
                return num_mul(ls, rs), (ld * rd if ld is not None and rd is not None else None)
            if isinstance(node.op, ast.Div):
                return num_div(ls, rs), (ld / rd if ld is not None and rd is not None else None)
            if isinstance(node.op, ast.Pow):
                d = None
                if ld is not None and isinstance(rs, Fraction):
                    d = ld**rs
                elif ld is not None and ld.dimensionless:
                    d = ONE
                return num_pow(ls, rs), d
            if isinstance(node.op, (ast.Add, ast.Sub)):
                return (num_add(ls, rs if isinstance(node.op, ast.Add) else num_mul(Fraction(-1), rs))), ld
            return None
        if isinstance(node, ast.Call) and isinstance(node.func, ast.Name):
            fn = node.func.id
            args = [self._scale_expr(a, numeric_only) for a in node.args]
            if any(a is None for a in args):
                return None
            if fn == "Rational" and len(args) == 2 and all(isinstance(a[0], Fraction) for a in args):
                return args[0][0] / args[1][0], ONE
            if fn in ("S", "S_singleton", "Integer", "Float") and len(args) == 1:
                return args[0]
            if fn == "sqrt" and len(args) == 1:
                s, d = args[0]
                return num_pow(s, Fraction(1, 2)), (d**Fraction(1, 2) if d is not None else None)
        return None

    def unit(self, name: str) -> Optional[tuple[Number, Optional[Dim]]]:
        """(scale, dim) of a unit/constant variable of sympy.physics.units, None when not understood."""
        c = self.canon(name)
        if c not in self.alias:
            return None
        if c in self._cache:
            return self._cache[c]
        self._cache[c] = None  # cycle guard
        scale: Optional[Number] = None
        dim_from_scale: Optional[Dim] = None
        if c in self.sys_scale:
            v = self._scale_expr(self.sys_scale[c])
            if v is not None:
                scale, dim_from_scale = v
        elif c in self.global_ref:
            f = self._scale_expr(self.global_ref[c][0])
            r = self._scale_expr(self.global_ref[c][1])
            if f is not None and r is not None:
                scale = num_mul(f[0], r[0])
                dim_from_scale = r[1] if (f[1] is not None and f[1].dimensionless) else None
        else:
            scale = Fraction(1)  # DimensionSystem.get_quantity_scale_factor falls back to One
        dim: Optional[Dim] = None
        if c in self.sys_dim:
            dim = self._dim_expr(self.sys_dim[c])
        elif c in self.global_dim:
            dim = self._dim_expr(self.global_dim[c])
        elif c in self.global_ref or c in self.sys_scale:
            dim = dim_from_scale
        if dim is None and c in ("meter", "gram", "second"):
            dim = Dim({"meter": {"length": 1}, "gram": {"mass": 1}, "second": {"time": 1}}[c])
        if dim is None and c not in self.sys_dim and c not in self.global_dim and c not in self.global_ref \
                and c not in self.sys_scale:
            dim = None  # never given a dimension anywhere (steradian, angular_mil): SymPy invents a
            # one-off Dimension(<unit name>); treated as unknown here, never as dimensionless
        res = (scale, dim) if scale is not None else None
        self._cache[c] = res
        return res

    def names(self) -> list[str]:
        return sorted(self.alias)


@lru_cache(maxsize=None)
def unit_table() -> UnitTable:
    return UnitTable()


def si_value(scale: Number, dim: Dim) -> Number:
    """SymPy's canonical scale is gram based; the SI value divides by 1000 per power of mass."""
    e = dim.v.get("mass", Fraction(0))
    if e == 0:
        return scale
    return num_div(scale, num_pow(Fraction(1000), e))
