"""Facts about the decorated `calculate_*` / law functions of catalogue modules (shared by C02, C04)."""
from __future__ import annotations

import ast
from dataclasses import dataclass, field
from typing import Optional

from .core import Mod
from .dim import World, Val, Interp

QD = "symplyphysics.core.quantity_decorator."
VALIDATE_INPUT = QD + "validate_input"
VALIDATE_OUTPUT = QD + "validate_output"
VALIDATE_OUTPUT_SAME = QD + "validate_output_same"


@dataclass
class Guarded:
    mod: Mod
    fn: ast.FunctionDef
    params: list[str]
    has_varkw: bool
    has_vararg: bool
    input_decos: list[ast.Call] = field(default_factory=list)
    output_decos: list[ast.Call] = field(default_factory=list)
    output_same_decos: list[ast.Call] = field(default_factory=list)
    other_decos: list[ast.AST] = field(default_factory=list)

    @property
    def qual(self) -> str:
        return f"{self.mod.name}:{self.fn.name}"

    def guards(self) -> dict[str, ast.AST]:
        out: dict[str, ast.AST] = {}
        for d in self.input_decos:
            for k in d.keywords:
                if k.arg is not None:
                    out[k.arg] = k.value
        return out


def decorator_qual(w: World, mod: Mod, d: ast.AST) -> Optional[str]:
    f = d.func if isinstance(d, ast.Call) else d
    env = w.env(mod.name)
    v: Optional[Val] = None
    if isinstance(f, ast.Name):
        v = env.names.get(f.id)
    elif isinstance(f, ast.Attribute):
        v = Interp(w, env).ev(f)
    if v is not None and v.kind == "pyfunc":
        return v.extra[0]
    return None


def functions(w: World, mod: Mod) -> list[Guarded]:
    out = []
    for s in mod.tree.body:
        if not isinstance(s, (ast.FunctionDef, ast.AsyncFunctionDef)):
            continue
        a = s.args
        params = [x.arg for x in a.posonlyargs + a.args + a.kwonlyargs]
        g = Guarded(mod, s, params, a.kwarg is not None, a.vararg is not None)
        for d in s.decorator_list:
            q = decorator_qual(w, mod, d)
            if q == VALIDATE_INPUT and isinstance(d, ast.Call):
                g.input_decos.append(d)
            elif q == VALIDATE_OUTPUT and isinstance(d, ast.Call):
                g.output_decos.append(d)
            elif q == VALIDATE_OUTPUT_SAME and isinstance(d, ast.Call):
                g.output_same_decos.append(d)
            else:
                g.other_decos.append(d)
        out.append(g)
    return out
