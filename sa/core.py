"""E0 - source model, findings, evidence, known findings.

Everything in /verif/sa decides from *source text*: nothing here imports symplyphysics or sympy.
"""
from __future__ import annotations

import ast
import hashlib
import json
import os
import pathlib
import re
import time
from dataclasses import dataclass, field
from typing import Any, Iterable, Optional

VERIF = pathlib.Path(__file__).resolve().parent.parent
REPO = pathlib.Path(os.environ.get("VERIF_REPO", "/repo"))
SYMPY = pathlib.Path(os.environ.get("VERIF_SYMPY", "/venv/lib/python3.12/site-packages/sympy"))
PKG = "symplyphysics"
CATALOGUE_ROOTS = ("laws", "definitions", "conditions")


class AnalysisError(Exception):
    """The analysis itself is broken (vanished anchor, unparsable file, coverage floor): exit 2."""


@dataclass
class Mod:
    name: str  # dotted
    rel: str  # path relative to the repo root
    text: str
    tree: ast.Module
    is_pkg: bool

    @property
    def package(self) -> str:
        return self.name if self.is_pkg else self.name.rpartition(".")[0]


class Source:
    """All python modules of the repository package, parsed. `overlay` maps repo-relative paths to
    replacement text (None = file deleted) so that self-tests analyse mutated sources in memory."""

    def __init__(self, repo: pathlib.Path = REPO, overlay: Optional[dict[str, Optional[str]]] = None):
        self.repo = pathlib.Path(repo)
        self.overlay = dict(overlay or {})
        self.mods: dict[str, Mod] = {}
        self.by_rel: dict[str, Mod] = {}
        self._load()

    def _load(self) -> None:
        root = self.repo / PKG
        if not root.is_dir():
            raise AnalysisError(f"package directory {root} not found")
        rels: dict[str, Optional[str]] = {}
        for p in sorted(root.rglob("*.py")):
            rels[str(p.relative_to(self.repo))] = None
        extra = self.repo / "docs" / "build.py"
        if extra.exists():
            rels[str(extra.relative_to(self.repo))] = None
        for rel, text in self.overlay.items():
            if text is None:
                rels.pop(rel, None)
            else:
                rels[rel] = text
        for rel in sorted(rels):
            text = rels[rel]
            if text is None:
                try:
                    text = (self.repo / rel).read_text(encoding="utf-8")
                except OSError as e:
                    raise AnalysisError(f"cannot read {rel}: {e}") from e
            try:
                tree = ast.parse(text, filename=rel)
            except SyntaxError as e:
                raise AnalysisError(f"cannot parse {rel}: {e}") from e
            parts = list(pathlib.PurePosixPath(rel).with_suffix("").parts)
            is_pkg = parts[-1] == "__init__"
            if is_pkg:
                parts = parts[:-1]
            name = ".".join(parts)
            m = Mod(name, rel, text, tree, is_pkg)
            self.mods[name] = m
            self.by_rel[rel] = m

    # ---- queries
    def get(self, name: str) -> Optional[Mod]:
        return self.mods.get(name)

    def need(self, name: str) -> Mod:
        m = self.mods.get(name)
        if m is None:
            raise AnalysisError(f"anchor module {name} not found")
        return m

    def catalogue(self, include_packages: bool = False) -> list[Mod]:
        out = []
        for name, m in self.mods.items():
            parts = name.split(".")
            if len(parts) >= 2 and parts[0] == PKG and parts[1] in CATALOGUE_ROOTS:
                if m.is_pkg and not include_packages:
                    continue
                out.append(m)
        return out

    def digest(self) -> str:
        h = hashlib.sha256()
        for rel in sorted(self.by_rel):
            h.update(rel.encode())
            h.update(self.by_rel[rel].text.encode())
        return h.hexdigest()[:16]


# --------------------------------------------------------------------------------------------
# AST helpers shared by rules


def find_def(tree: ast.AST, name: str, kind=(ast.FunctionDef, ast.AsyncFunctionDef, ast.ClassDef)) -> Optional[ast.AST]:
    """Top-level (or class-level when `tree` is a ClassDef) definition by name."""
    for n in getattr(tree, "body", []):
        if isinstance(n, kind) and n.name == name:
            return n
    return None


def need_def(mod: Mod, qual: str) -> ast.AST:
    """`Class.method` or `function`; raise AnalysisError when the anchor vanished."""
    cur: ast.AST = mod.tree
    for part in qual.split("."):
        nxt = find_def(cur, part)
        if nxt is None:
            raise AnalysisError(f"anchor {mod.name}:{qual} not found")
        cur = nxt
    return cur


def norm(node: ast.AST, limit: int = 200) -> str:
    s = ast.unparse(node)
    s = re.sub(r"\s+", " ", s)
    return s if len(s) <= limit else s[:limit - 3] + "..."


def dotted(node: ast.AST) -> Optional[str]:
    """`a.b.c` for Name/Attribute chains, else None."""
    parts = []
    while isinstance(node, ast.Attribute):
        parts.append(node.attr)
        node = node.value
    if isinstance(node, ast.Name):
        parts.append(node.id)
        return ".".join(reversed(parts))
    return None


def call_name(node: ast.AST) -> Optional[str]:
    if isinstance(node, ast.Call):
        return dotted(node.func)
    return None


def kwarg(call: ast.Call, name: str) -> Optional[ast.AST]:
    for k in call.keywords:
        if k.arg == name:
            return k.value
    return None


def docstring_after(body: list[ast.stmt], i: int) -> Optional[str]:
    if i + 1 < len(body):
        n = body[i + 1]
        if isinstance(n, ast.Expr) and isinstance(n.value, ast.Constant) and isinstance(n.value.value, str):
            return n.value.value
    return None


# --------------------------------------------------------------------------------------------
# findings / evidence


@dataclass
class Finding:
    rule: str
    construct: str  # stable identity: module:function:thing - never a line number
    file: str
    line: int
    message: str
    facts: dict = field(default_factory=dict)

    @property
    def key(self) -> str:
        return f"{self.rule}|{self.construct}"


class Run:
    """One check of one property on one source tree."""

    def __init__(self, pid: str, src: Source, tier: str = "quick"):
        self.pid = pid
        self.src = src
        self.tier = tier
        self.t0 = time.time()
        self.findings: list[Finding] = []
        self.rules: dict[str, dict[str, Any]] = {}
        self.samples: list[Any] = []
        self.undecided: list[dict] = []
        self.notes: dict[str, Any] = {}
        self._distinct: set[str] = set()

    # -- bookkeeping
    def rule(self, rid: str, text: str) -> None:
        self.rules.setdefault(rid, {"text": text, "obligations": 0, "violations": 0, "undecided": 0})

    def ob(self, rid: str, what: Optional[str] = None, n: int = 1, nontrivial: bool = True) -> None:
        """Count `n` obligations examined under rule `rid` (fully resolved facts)."""
        self.rules.setdefault(rid, {"text": "", "obligations": 0, "violations": 0, "undecided": 0})
        self.rules[rid]["obligations"] += n
        if what is not None and nontrivial:
            self._distinct.add(f"{rid}|{what}")

    def skip(self, rid: str, where: str, why: str) -> None:
        """An instance the analysis cannot resolve: never a report, only lowers coverage."""
        self.rules.setdefault(rid, {"text": "", "obligations": 0, "violations": 0, "undecided": 0})
        self.rules[rid]["undecided"] += 1
        if len(self.undecided) < 400:
            self.undecided.append({"rule": rid, "where": where, "why": why})

    def sample(self, obj: Any, cap: int = 12) -> None:
        if len(self.samples) < cap:
            self.samples.append(obj)

    def violate(self, rid: str, construct: str, mod: Optional[Mod], node: Optional[ast.AST], message: str, **facts: Any) -> None:
        self.rules.setdefault(rid, {"text": "", "obligations": 0, "violations": 0, "undecided": 0})
        self.rules[rid]["violations"] += 1
        f = Finding(rid, construct, mod.rel if mod else "", getattr(node, "lineno", 0) if node is not None else 0, message, facts)
        # one report per (rule, construct)
        if all(g.key != f.key for g in self.findings):
            self.findings.append(f)

    def floor(self, rid: str, have: int, need: int, what: str) -> None:
        """A rule whose instance count collapses passes vacuously forever: make that a broken analysis."""
        if have < need:
            raise AnalysisError(f"{self.pid}/{rid}: only {have} {what} found, at least {need} expected "
                                f"(resolver regression or vanished anchor)")

    def require(self, cond: bool, msg: str) -> None:
        if not cond:
            raise AnalysisError(f"{self.pid}: {msg}")


def load_known() -> dict:
    p = VERIF / "known_findings.json"
    if not p.exists():
        return {"findings": [], "fixed": []}
    return json.loads(p.read_text())


def finish(run: Run, explanation: str, assumptions: list[str], trusted: list[str], replay_key: Optional[str] = None,
           write: bool = True, quiet: bool = False) -> int:
    known = {(k["property"], k["key"]): k for k in load_known().get("findings", [])}
    outdir = VERIF / "out" / run.pid
    new, old = [], []
    for f in run.findings:
        (old if (run.pid, f.key) in known else new).append(f)
    if replay_key is not None:
        new = [f for f in run.findings if f.key == replay_key]
        old = []
    obligations = sum(r["obligations"] for r in run.rules.values())
    nviol = len(run.findings)
    wall = time.time() - run.t0
    if not quiet:
        print(f"[{run.pid}] tier={run.tier} tree={run.src.repo} modules={len(run.src.mods)} digest={run.src.digest()}")
        for rid, r in sorted(run.rules.items()):
            print(f"[{run.pid}]   {rid}: obligations={r['obligations']} violations={r['violations']} "
                  f"undecided={r['undecided']}  {r['text']}")
    for f in old:
        print(f"KNOWN-FINDING: property={run.pid} {f.key} -- {f.message} ({f.file}:{f.line})")
    lines = []
    for f in new:
        if write:
            outdir.mkdir(parents=True, exist_ok=True)
        name = re.sub(r"[^A-Za-z0-9_.-]+", "_", f.key)[:150] + ".json"
        path = outdir / name
        payload = {"property": run.pid, "key": f.key, "rule": f.rule, "construct": f.construct, "file": f.file,
                   "line": f.line, "message": f.message, "facts": f.facts, "tier": run.tier,
                   "rule_text": run.rules.get(f.rule, {}).get("text", "")}
        if write:
            path.write_text(json.dumps(payload, indent=1, default=str))
        print(f"[{run.pid}] {f.rule} {f.file}:{f.line} {f.construct}: {f.message}")
        lines.append(f"VIOLATION property={run.pid} replay={path}")
    for line in lines:
        print(line)
    if write and replay_key is None:
        ev = {
            "property_id": run.pid,
            "tier": run.tier,
            "seed": int(os.environ.get("VERIF_SEED", "0") or 0),
            "level": "other",
            "coverage": {
                "explanation": explanation,
                "obligations": obligations,
                "discharged": obligations - sum(r["violations"] for r in run.rules.values()),
                "evaluations": max(obligations, 1),
                "distinct_nontrivial": len(run._distinct),
                "rule": "an obligation is one fully resolved rule instance (a construct of the analysed source to which a rule "
                        "applies); distinct = distinct (rule, construct) pairs; unresolved instances are counted under "
                        "'undecided' and never reported",
                "samples": run.samples or ["(no instance sampled)"],
                "rules": {rid: r for rid, r in sorted(run.rules.items())},
                "undecided": run.undecided[:80],
                "undecided_total": sum(r["undecided"] for r in run.rules.values()),
                "analysed": {"tree": str(run.src.repo), "modules": len(run.src.mods), "digest": run.src.digest(), **run.notes},
                "trusted_base": trusted,
                "exhaustive": True,
                "known_findings_printed": [f.key for f in old],
            },
            "assumptions": assumptions,
            "wall_s": round(wall, 3),
            "violations": len(new),
        }
        (VERIF / "evidence").mkdir(exist_ok=True)
        (VERIF / "evidence" / f"{run.pid}.json").write_text(json.dumps(ev, indent=1, default=str) + "\n")
    if not quiet:
        print(f"[{run.pid}] obligations={obligations} findings={nviol} new={len(new)} known={len(old)} wall={wall:.2f}s")
    return 1 if new else 0
