"""Reader for coordinate-free vector formulas: python lists of three terms stand for vectors in R^3."""
from __future__ import annotations

import ast
from typing import Optional

from .core import dotted
from .alg import T, num, var, op, fun
from .reader import ExprReader


def t_dot(u: list, v: list) -> T:
    acc = num(0)
    for a, b in zip(u, v):
        acc = op("add", acc, op("mul", a, b))
    return acc


def t_cross(u: list, v: list) -> list:
    return [
        op("sub", op("mul", u[1], v[2]), op("mul", u[2], v[1])),
        op("sub", op("mul", u[2], v[0]), op("mul", u[0], v[2])),
        op("sub", op("mul", u[0], v[1]), op("mul", u[1], v[0])),
    ]


def t_mixed(a: list, b: list, c: list) -> T:
    return t_dot(a, t_cross(b, c))


def t_norm(v: list) -> T:
    return op("sqrt", t_dot(v, v))


def gvec(name: str, coords: tuple = ()) -> list:
    """generic vector: three indeterminates, or three undefined functions of `coords`"""
    if coords:
        return [fun(f"{name}{i}", coords) for i in range(3)]
    return [var(f"{name}{i}") for i in range(3)]


class VecReader(ExprReader):
    """adds vector arithmetic and the library's product classes; `cls` names the class whose method is being read"""

    def __init__(self, env=None, cls: Optional[str] = None, where: str = "", diff_var: Optional[str] = None):
        super().__init__(env, None, where)
        self.cls = cls
        self.diff_var = diff_var

    def ev(self, n: ast.AST):
        if isinstance(n, ast.BinOp):
            l, r = self.ev(n.left), self.ev(n.right)
            lv, rv = isinstance(l, list), isinstance(r, list)
            if lv or rv:
                if isinstance(n.op, ast.Mult) and lv != rv:
                    s, v = (r, l) if lv else (l, r)
                    return [op("mul", s, x) for x in v]
                if isinstance(n.op, ast.Div) and lv and not rv:
                    return [op("div", x, r) for x in l]
                if isinstance(n.op, (ast.Add, ast.Sub)) and lv and rv and len(l) == len(r) == 3:
                    return [op("add" if isinstance(n.op, ast.Add) else "sub", a, b) for a, b in zip(l, r)]
                self.fail(n, "vector arithmetic outside the decidable class")
            return super().ev(n)
        if isinstance(n, ast.UnaryOp) and isinstance(n.op, ast.USub):
            v = self.ev(n.operand)
            if isinstance(v, list):
                return [op("neg", x) for x in v]
            return op("neg", v)
        if isinstance(n, ast.Call):
            f = dotted(n.func) or ""
            name = f.split(".")[-1]
            if name == "cls" and self.cls:
                name = self.cls
            args = [a for a in n.args]
            if name in ("VectorDot", "VectorCross", "VectorMixedProduct", "VectorNorm"):
                vals = [self.ev(a) for a in args]
                if not all(isinstance(v, list) and len(v) == 3 for v in vals):
                    self.fail(n, "product of non-vectors")
                if name == "VectorDot" and len(vals) == 2:
                    return t_dot(*vals)
                if name == "VectorCross" and len(vals) == 2:
                    return t_cross(*vals)
                if name == "VectorMixedProduct" and len(vals) == 3:
                    return t_mixed(*vals)
                if name == "VectorNorm" and len(vals) == 1:
                    return t_norm(vals[0])
                self.fail(n, "arity")
            if isinstance(n.func, ast.Attribute) and n.func.attr == "diff" and len(n.args) == 1 and self.diff_var is not None:
                base = self.ev(n.func.value)
                if isinstance(base, list):
                    return [op("diff", x, var(self.diff_var)) for x in base]
                return op("diff", base, var(self.diff_var))
            if isinstance(n.func, ast.Attribute) and n.func.attr == "doit" and not n.args:
                return self.ev(n.func.value)
            if name == "abs" and len(n.args) == 1:
                self.fail(n, "abs")
        return super().ev(n)
