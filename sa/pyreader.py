"""Abstract evaluation of the small, loop-free-after-unrolling subset of Python used by core/vectors/arithmetics.py,
with generic symbolic components (E4 terms), concrete lengths and concrete coordinate-system kinds.

Values: T (scalar term), int, bool, None, list, VVal (a Vector: components + coordinate system token), Sys (coordinate system
token with a kind), Raised (the evaluation ended in `raise <Exc>`). Nothing of the repository is executed: statements are
interpreted over these abstract values and anything outside the subset ends the analysis with ANALYSIS-ERROR.
"""
from __future__ import annotations

import ast
from dataclasses import dataclass, field
from fractions import Fraction
from typing import Optional

from .core import AnalysisError, dotted, norm
from .alg import T, num, var, op, app

KINDS = ("CARTESIAN", "CYLINDRICAL", "SPHERICAL")


def term_has(t, names: set) -> bool:
    """does the term depend on one of the variables? (undefined functions depend on all their coordinates)"""
    if isinstance(t, int):
        return False
    if t.op == "var":
        return t.val in names
    if t.op == "fun":
        return bool(set(t.val[1]) & names)
    if t.op == "num":
        return False
    return any(term_has(a, names) for a in t.args)


@dataclass(frozen=True)
class Sys:
    ident: str  # identity of the CoordinateSystem object
    kind: str  # CARTESIAN | CYLINDRICAL | SPHERICAL


@dataclass
class VVal:
    components: list
    system: Sys


@dataclass
class Raised(Exception):
    exc: str
    where: int = 0


@dataclass(frozen=True)
class FnRef:
    """a function of the evaluated module used as a value (passed to reduce / map / stored in a dispatch table)"""
    name: str


def static_methods(cls: ast.ClassDef) -> dict:
    """{"Class.name": FunctionDef} for the @staticmethod functions of a class (for PyReader.extern_static)"""
    return {f"{cls.name}.{f.name}": f for f in cls.body
            if isinstance(f, ast.FunctionDef) and any(isinstance(d, ast.Name) and d.id == "staticmethod" for d in f.decorator_list)}


def freeze(x):
    """tuples are lists for the evaluator; where one is used as a key it is the tuple again"""
    if isinstance(x, list):
        return tuple(freeze(y) for y in x)
    return x


class PyIter(list):
    """what map(...) or a generator expression returns: an iterator that can be traversed ONCE. The items are computed eagerly (the evaluated code has no effects that
    could tell the difference); `used` records the traversal, a second one finds nothing - as in Python"""
    used = False


def consume(it):
    """the items a traversal of `it` sees"""
    if isinstance(it, PyIter):
        if it.used:
            return []
        it.used = True
        return list(it)
    return it


class PySet(dict):
    """a Python set of abstract values, in insertion order (keys of a dict)"""

    def __repr__(self) -> str:
        return "{" + ", ".join(map(repr, self)) + "}"


class _Return(Exception):

    def __init__(self, value):
        self.value = value


class _Break(Exception):
    pass


class _Continue(Exception):
    pass


class PyReader:

    def __init__(self, module: ast.Module, where: str = "", depth_limit: int = 6):
        self.module = module
        self.functions = {s.name: s for s in module.body if isinstance(s, ast.FunctionDef)}
        self.where = where
        self.depth_limit = depth_limit
        self.depth = 0
        self.hazards: list = []
        self._globals_cache: dict = {}
        self._decorated: dict = {}
        self._module_initialised = False
        self._globals_busy: set = set()
        self._extern_cache = {}

    def _imports(self, module: str, name: str) -> bool:
        return any(isinstance(s, ast.ImportFrom) and s.module == module and any(a.name == name and a.asname is None for a in s.names) for s in self.module.body)

    def global_value(self, n: ast.AST):
        """hook: value of a module-level name / attribute chain (None = not known). Default: a name bound exactly once at module level by a
        plain assignment is evaluated on demand (dispatch tables, constants)."""
        if isinstance(n, ast.Name):
            if not self._module_initialised:
                # decorators with effects on module-level tables (`@register(Key)` filling a dispatch dict) run when the module is imported: replay them once,
                # in source order, before any module-level value is consulted
                self._module_initialised = True
                for st in self.module.body:
                    if isinstance(st, ast.FunctionDef) and any(isinstance(d, ast.Call) and isinstance(d.func, ast.Name) and d.func.id in self.functions for d in st.decorator_list):
                        self.decorated(st.name)
            if n.id in self._globals_cache:
                return self._globals_cache[n.id]
            defs = [st for st in self.module.body if (isinstance(st, ast.Assign) and len(st.targets) == 1 and isinstance(st.targets[0], ast.Name) and st.targets[0].id == n.id)
                    or (isinstance(st, ast.AnnAssign) and st.value is not None and isinstance(st.target, ast.Name) and st.target.id == n.id)]
            if len(defs) == 1 and n.id not in self._globals_busy:
                self._globals_busy.add(n.id)
                try:
                    v = self.ev(defs[0].value, {}, {})
                finally:
                    self._globals_busy.discard(n.id)
                self._globals_cache[n.id] = v
                return v
        return None

    def fail(self, n: ast.AST, why: str):
        raise AnalysisError(f"abstract evaluation ({self.where}): `{norm(n, 70)}` at line {getattr(n, 'lineno', '?')}: {why}")

    # ------------------------------------------------------------------ calling
    def call(self, name: str, args: list, kwargs: Optional[dict] = None, local_fns: Optional[dict] = None):
        fn = (local_fns or {}).get(name) or self.functions.get(name)
        if fn is None:
            raise AnalysisError(f"abstract evaluation ({self.where}): function {name} not found")
        if fn.decorator_list and name in self.functions and not (local_fns or {}).get(name):
            return self.apply_value(self.decorated(name), args, fn, local_fns or {}, kwargs)
        return self.call_def(fn, args, kwargs, local_fns)

    def decorated(self, name: str):
        """the value a decorated module-level function name is bound to: decorators of this module applied to the raw function"""
        if name in self._decorated:
            return self._decorated[name]
        fn = self.functions[name]
        val = ("rawfn", fn)
        for d in reversed(fn.decorator_list):
            if isinstance(d, ast.Name) and d.id in self.functions:
                val = self.call(d.id, [val])
            elif isinstance(d, ast.Call) and isinstance(d.func, ast.Name) and d.func.id in self.functions:
                val = self.apply_value(self.ev(d, {}, {}), [val], d, {})  # @register(Key): the factory's result applied to the function
            elif dotted(d) in self.TRANSPARENT_DECORATORS or (isinstance(d, ast.Call) and dotted(d.func) in self.TRANSPARENT_DECORATORS):
                continue
            else:
                raise AnalysisError(f"abstract evaluation ({self.where}): decorator `{norm(d, 40)}` of {name} is outside the supported subset")
        self._decorated[name] = val
        return val

    TRANSPARENT_DECORATORS = ("staticmethod", "property", "functools.wraps", "cacheit", "classmethod")

    def call_def(self, fn: ast.FunctionDef, args: list, kwargs: Optional[dict] = None, local_fns: Optional[dict] = None, closure_env: Optional[dict] = None):
        name = fn.name
        if self.depth >= self.depth_limit:
            raise AnalysisError(f"abstract evaluation ({self.where}): call depth bound exceeded at {name}")
        a = fn.args
        env: dict = dict(closure_env or {})
        params = [p.arg for p in a.posonlyargs + a.args]
        defaults = [None] * (len(params) - len(a.defaults)) + list(a.defaults)
        for i, p in enumerate(params):
            if i < len(args):
                env[p] = args[i]
            elif kwargs and p in kwargs:
                env[p] = kwargs[p]
            elif defaults[i] is not None:
                env[p] = self.ev(defaults[i], {}, {})
            else:
                raise AnalysisError(f"abstract evaluation ({self.where}): missing argument {p} of {name}")
        if a.vararg:
            env[a.vararg.arg] = list(args[len(params):])
        elif len(args) > len(params):
            raise AnalysisError(f"abstract evaluation ({self.where}): too many arguments for {name}")
        for p in [x.arg for x in a.kwonlyargs]:
            if kwargs and p in kwargs:
                env[p] = kwargs[p]
            else:
                d_ = a.kw_defaults[[x.arg for x in a.kwonlyargs].index(p)]
                if d_ is not None:
                    env[p] = self.ev(d_, {}, {})
        if a.kwarg:
            env[a.kwarg.arg] = {k: v for k, v in (kwargs or {}).items() if k not in params and k not in [x.arg for x in a.kwonlyargs]}
        is_gen = any(isinstance(x, (ast.Yield, ast.YieldFrom)) for st in fn.body for x in self._walk_same_scope(st))
        if is_gen:
            env["__yield__"] = []  # a generator function is evaluated eagerly: the sequence of values it would yield
        self.depth += 1
        try:
            fns = dict(local_fns or {})
            try:
                self.block(fn.body, env, fns)
            except _Return as r:
                return env["__yield__"] if is_gen else r.value
            return env["__yield__"] if is_gen else None
        finally:
            self.depth -= 1

    @staticmethod
    def _walk_same_scope(node):
        stack = [node]
        while stack:
            x = stack.pop()
            yield x
            for ch in ast.iter_child_nodes(x):
                if not isinstance(ch, (ast.FunctionDef, ast.AsyncFunctionDef, ast.Lambda, ast.ClassDef)):
                    stack.append(ch)

    # ------------------------------------------------------------------ statements
    def block(self, body: list, env: dict, fns: dict) -> None:
        for s in body:
            if isinstance(s, ast.Expr) and isinstance(s.value, ast.Constant):
                continue
            if isinstance(s, ast.Expr) and isinstance(s.value, ast.Call) and isinstance(s.value.func, ast.Attribute) \
                    and s.value.func.attr in ("append", "extend", "insert"):
                lst = self.ev(s.value.func.value, env, fns)
                vals = [self.ev(a, env, fns) for a in s.value.args]
                if not isinstance(lst, list):
                    self.fail(s, "list method on a non-list")
                if s.value.func.attr == "append" and len(vals) == 1:
                    lst.append(vals[0])
                elif s.value.func.attr == "extend" and len(vals) == 1 and isinstance(vals[0], list):
                    lst.extend(vals[0])
                elif s.value.func.attr == "insert" and len(vals) == 2 and isinstance(vals[0], int):
                    lst.insert(vals[0], vals[1])
                else:
                    self.fail(s, "list method arguments")
                continue
            if isinstance(s, ast.Expr) and isinstance(s.value, ast.Yield) and "__yield__" in env:
                env["__yield__"].append(self.ev(s.value.value, env, fns) if s.value.value is not None else None)
                continue
            if isinstance(s, ast.Expr) and isinstance(s.value, ast.YieldFrom) and "__yield__" in env:
                seq = self.ev(s.value.value, env, fns)
                if not isinstance(seq, list):
                    self.fail(s, "yield from a non-concrete iterable")
                env["__yield__"].extend(seq)
                continue
            if isinstance(s, ast.Expr) and isinstance(s.value, ast.Call):
                self.ev(s.value, env, fns)  # evaluated for its effects (raises); the value is dropped
                continue
            if isinstance(s, ast.FunctionDef):
                fns[s.name] = s
            elif isinstance(s, ast.Assign) and len(s.targets) == 1:
                self.assign(s.targets[0], self.ev(s.value, env, fns), env, s)
            elif isinstance(s, ast.Assign) and all(isinstance(t_, ast.Name) for t_ in s.targets):
                v_ = self.ev(s.value, env, fns)  # a = b = value: evaluated once, bound left to right
                for t_ in s.targets:
                    self.assign(t_, v_, env, s)
            elif isinstance(s, ast.AnnAssign) and s.value is not None:
                self.assign(s.target, self.ev(s.value, env, fns), env, s)
            elif isinstance(s, ast.AnnAssign):
                continue  # a bare annotation declares, it binds nothing
            elif isinstance(s, ast.If):
                t = self.truthy(self.ev(s.test, env, fns), s.test)
                self.block(s.body if t else s.orelse, env, fns)
            elif isinstance(s, ast.For):
                it = self.ev(s.iter, env, fns)
                if isinstance(it, str):
                    it = list(it)
                if isinstance(it, dict):
                    it = list(it)
                if not isinstance(it, list):
                    self.fail(s.iter, "loop over a non-concrete sequence")
                it = consume(it)
                broke = False
                for x in it:
                    self.assign(s.target, x, env, s)
                    try:
                        self.block(s.body, env, fns)
                    except _Break:
                        broke = True
                        break
                    except _Continue:
                        continue
                if not broke and s.orelse:
                    self.block(s.orelse, env, fns)
            elif isinstance(s, ast.While):
                rounds = 0
                broke = False
                while self.truthy(self.ev(s.test, env, fns), s.test):
                    rounds += 1
                    if rounds > 100000:
                        self.fail(s, "loop bound exceeded")
                    try:
                        self.block(s.body, env, fns)
                    except _Break:
                        broke = True
                        break
                    except _Continue:
                        continue
                if not broke and s.orelse:
                    self.block(s.orelse, env, fns)
            elif isinstance(s, ast.AugAssign) and isinstance(s.target, ast.Name):
                cur = self.ev(s.target, env, fns) if s.target.id in env else self.fail(s, "augmented assignment to an unbound name")
                fake = ast.BinOp(left=ast.Name(id="__aug_l__", ctx=ast.Load()), op=s.op, right=ast.Name(id="__aug_r__", ctx=ast.Load()))
                ast.copy_location(fake, s)
                e2 = dict(env)
                e2["__aug_l__"], e2["__aug_r__"] = cur, self.ev(s.value, env, fns)
                env[s.target.id] = self.ev(fake, e2, fns)
            elif isinstance(s, ast.Match):
                subject = self.ev(s.subject, env, fns)
                for case in s.cases:
                    hit = self.match_pattern(case.pattern, subject, env, fns, s)
                    if hit and case.guard is not None:
                        hit = self.truthy(self.ev(case.guard, env, fns), case.guard)
                    if hit:
                        self.block(case.body, env, fns)
                        break
            elif isinstance(s, ast.Try):
                try:
                    try:
                        self.block(s.body, env, fns)
                    except Raised as r:
                        handler = None
                        for h in s.handlers:
                            names = [] if h.type is None else [(dotted(x) or '?').split('.')[-1] for x in (h.type.elts if isinstance(h.type, ast.Tuple) else [h.type])]
                            if h.type is None or "Exception" in names or "BaseException" in names or r.exc.split(".")[-1] in names \
                                    or (r.exc.split(".")[-1] == "UnitsError" and "ValueError" in names):
                                handler = h
                                break
                        if handler is None:
                            raise
                        if handler.name:
                            env[handler.name] = ("exception", r.exc)
                        self.block(handler.body, env, fns)
                    else:
                        self.block(s.orelse, env, fns)
                finally:
                    self.block(s.finalbody, env, fns)
            elif isinstance(s, ast.Assert):
                if not self.truthy(self.ev(s.test, env, fns), s.test):
                    raise Raised("AssertionError", getattr(s, "lineno", 0))
            elif isinstance(s, ast.Break):
                raise _Break()
            elif isinstance(s, ast.Continue):
                raise _Continue()
            elif isinstance(s, ast.Pass):
                continue
            elif isinstance(s, ast.Return):
                raise _Return(self.ev(s.value, env, fns) if s.value is not None else None)
            elif isinstance(s, ast.Raise):
                if s.exc is None:
                    raise Raised("re-raise", getattr(s, "lineno", 0))
                exc = s.exc.func if isinstance(s.exc, ast.Call) else s.exc
                if isinstance(exc, ast.Name) and exc.id in env and isinstance(env[exc.id], tuple) and env[exc.id][:1] == ("exception", ):
                    raise Raised(env[exc.id][1], getattr(s, "lineno", 0))
                raise Raised(dotted(exc) or "?", getattr(s, "lineno", 0))
            else:
                self.fail(s, "statement outside the supported subset")

    def match_pattern(self, pat: ast.AST, subject, env: dict, fns: dict, node: ast.AST) -> bool:
        if isinstance(pat, ast.MatchValue):
            return self.ev(pat.value, env, fns) == subject
        if isinstance(pat, ast.MatchSingleton):
            return subject is pat.value
        if isinstance(pat, ast.MatchAs) and pat.pattern is None:
            if pat.name:
                env[pat.name] = subject
            return True
        if isinstance(pat, ast.MatchAs):
            hit = self.match_pattern(pat.pattern, subject, env, fns, node)
            if hit and pat.name:
                env[pat.name] = subject
            return hit
        if isinstance(pat, ast.MatchOr):
            return any(self.match_pattern(p_, subject, env, fns, node) for p_ in pat.patterns)
        if isinstance(pat, ast.MatchClass) and not pat.patterns and not pat.kwd_patterns:
            return self.is_instance(subject, self.class_names(pat.cls), pat)
        if isinstance(pat, ast.MatchSequence) and not any(isinstance(p_, ast.MatchStar) for p_ in pat.patterns):
            # case (True, False): / case [a, _]: - a sequence of exactly that length, element by element
            if not isinstance(subject, (list, tuple)) or len(subject) != len(pat.patterns):
                return False
            return all(self.match_pattern(p_, x_, env, fns, node) for p_, x_ in zip(pat.patterns, subject))
        self.fail(node, "match pattern outside the supported subset")

    def assign(self, t: ast.AST, v, env: dict, node: ast.AST) -> None:
        if isinstance(t, ast.Name):
            env[t.id] = v
        elif isinstance(t, (ast.Tuple, ast.List)) and any(isinstance(e, ast.Starred) for e in t.elts):
            if not isinstance(v, (list, tuple)) or sum(isinstance(e, ast.Starred) for e in t.elts) != 1:
                self.fail(node, "starred destructuring")
            k = next(i for i, e in enumerate(t.elts) if isinstance(e, ast.Starred))
            after = len(t.elts) - k - 1
            if len(v) < len(t.elts) - 1:
                raise Raised("ValueError", getattr(node, "lineno", 0))
            for e, x in zip(t.elts[:k], v[:k]):
                self.assign(e, x, env, node)
            self.assign(t.elts[k].value, list(v[k:len(v) - after]), env, node)
            for e, x in zip(t.elts[k + 1:], v[len(v) - after:] if after else []):
                self.assign(e, x, env, node)
        elif isinstance(t, ast.Attribute):
            base = self.ev(t.value, env, {})
            if not self.store_attr(base, t.attr, v, node):
                self.fail(node, "attribute store")
        elif isinstance(t, (ast.Tuple, ast.List)):
            if not isinstance(v, (list, tuple)):
                self.fail(node, f"cannot destructure a {type(v).__name__} into {len(t.elts)} names")
            if len(v) != len(t.elts):
                raise Raised("ValueError", getattr(node, "lineno", 0))  # python: too many / not enough values to unpack
            for e, x in zip(t.elts, v):
                self.assign(e, x, env, node)
        elif isinstance(t, ast.Subscript):
            base = self.ev(t.value, env, {})
            k = self.ev(t.slice, env, {})
            if isinstance(base, list) and isinstance(k, int):
                base[k] = v
            elif isinstance(base, dict):
                base[freeze(k)] = v
            else:
                self.fail(node, "subscript store")
        else:
            self.fail(node, "assignment target")

    # ------------------------------------------------------------------ expressions
    def ev(self, n: ast.AST, env: dict, fns: dict):
        if isinstance(n, ast.Constant):
            v = n.value
            if isinstance(v, bool) or v is None or isinstance(v, str):
                return v
            if isinstance(v, int):
                return v
            if isinstance(v, float):
                return num(Fraction(str(v)))
            self.fail(n, "constant")
        if isinstance(n, ast.Name):
            if n.id in env:
                return env[n.id]
            if n.id in fns:
                return ("closure", fns[n.id], env, fns)  # a nested function as a value: keeps the variables of its defining scope
            if n.id in self.functions:
                return FnRef(n.id)
            if n.id in ("add", "mul", "sub", "truediv", "neg") and self._imports("operator", n.id):
                return ("operator", n.id)
            g = self.global_value(n)
            if g is not None:
                return g
            if n.id == "pi":
                return T("pi")
            for xm in self.extern_modules:
                # a module-level table of the module an extern function lives in (evaluated on demand, like this module's own)
                sts = [st for st in xm.body if isinstance(st, ast.Assign) and len(st.targets) == 1 and isinstance(st.targets[0], ast.Name) and st.targets[0].id == n.id]
                if len(sts) == 1:
                    key_ = (id(xm), n.id)
                    if key_ not in self._extern_cache:
                        self._extern_cache[key_] = self.ev(sts[0].value, {}, {})
                    return self._extern_cache[key_]
            if any(isinstance(s_, ast.ImportFrom) and any((a_.asname or a_.name) == n.id for a_ in s_.names) for s_ in self.module.body):
                return ("extfn", n.id)  # an imported function handed on as a value (map(f, xs), key=f): applied like the spelled-out call f(...)
            self.fail(n, "unbound name")
        if isinstance(n, ast.JoinedStr):
            # text of a message: concrete where its parts are (parameter names, indices), an opaque "<?>" elsewhere
            parts = []
            for v_ in n.values:
                if isinstance(v_, ast.Constant):
                    parts.append(str(v_.value))
                else:
                    try:
                        x_ = self.ev(v_.value, env, fns)
                    except AnalysisError:
                        x_ = None
                    parts.append(str(x_) if isinstance(x_, (str, int)) and not isinstance(x_, bool) else "<?>")
            return "".join(parts)
        if isinstance(n, ast.Attribute):
            d = dotted(n)
            if d in ("S.Zero", ):
                return num(0)
            if d in ("S.One", ):
                return num(1)
            if d and d.startswith("CoordinateSystem.System.") and d.split(".")[-1] in KINDS:
                return ("kind", d.split(".")[-1])
            g = self.global_value(n)
            if g is not None:
                return g
            if isinstance(n.value, ast.Name) and n.value.id == "operator" and n.value.id not in env and n.attr in ("add", "mul", "sub", "truediv", "neg") \
                    and any(isinstance(s_, ast.Import) and any(a_.name == "operator" and a_.asname is None for a_ in s_.names) for s_ in self.module.body):
                return ("operator", n.attr)
            base = self.ev(n.value, env, fns)
            if n.attr in ("is_negative", "is_positive", "is_zero", "is_nonnegative", "is_nonpositive", "is_nonzero") and isinstance(base, (T, int)):
                val = base if isinstance(base, int) else (base.val if base.op == "num" else (-base.args[0].val if base.op == "neg" and base.args[0].op == "num" else None))
                if val is None:
                    return None  # SymPy: undetermined sign of a generic symbol
                return {"is_negative": val < 0, "is_positive": val > 0, "is_zero": val == 0, "is_nonnegative": val >= 0, "is_nonpositive": val <= 0, "is_nonzero": val != 0}[n.attr]
            if isinstance(base, VVal):
                if n.attr in ("components", "_components"):
                    return base.components  # the property hands out the vector's own list (aliasing is part of the behaviour)
                if n.attr in ("coordinate_system", "_coordinate_system"):
                    return base.system
            if isinstance(base, Sys) and n.attr in ("coord_system_type", "_coord_system_type"):
                return ("kind", base.kind)
            r = self.hook_attr(base, n.attr, n)
            if r is not NotImplemented:
                return r
            fn_ = self.functions.get(n.attr)
            if fn_ is not None and (fn_.args.posonlyargs + fn_.args.args) and (fn_.args.posonlyargs + fn_.args.args)[0].arg in ("self", "cls") \
                    and not isinstance(base, (T, int, list, dict, str)):
                if any(dotted(d_) in ("property", "cached_property", "functools.cached_property") for d_ in fn_.decorator_list):
                    return self.call_def(fn_, [base], None, fns)  # a property of the flattened class: its getter evaluated on the object
                return ("bound", n.attr, base)  # a method of the flattened class taken as a value
            if not isinstance(base, (T, int, list, dict, str, tuple, type(None))) and n.attr.isidentifier() and not n.attr.startswith("__"):
                # `obj.method` of one of the rule's model objects taken as a value (f = obj.method; map(obj.method, xs)): called like the spelled-out obj.method(...);
                # anything else done with it fails further on
                return ("methodref", base, n.attr)
            self.fail(n, "attribute")
        if isinstance(n, ast.UnaryOp):
            v = self.ev(n.operand, env, fns)
            hu = self.hook_unary(n.op, v, n)
            if hu is not NotImplemented:
                return hu
            if isinstance(n.op, ast.USub):
                return -v if isinstance(v, int) else op("neg", self.scalar(v, n))
            if isinstance(n.op, ast.Not):
                return not self.truthy(v, n)
            self.fail(n, "unary operator")
        if isinstance(n, ast.BinOp):
            l, r = self.ev(n.left, env, fns), self.ev(n.right, env, fns)
            hb = self.hook_binop(n.op, l, r, n)
            if hb is not NotImplemented:
                return hb
            if isinstance(l, PySet) and isinstance(r, PySet) and isinstance(n.op, (ast.Sub, ast.BitOr, ast.BitAnd)):
                if isinstance(n.op, ast.Sub):
                    return PySet((k_, True) for k_ in l if k_ not in r)
                if isinstance(n.op, ast.BitOr):
                    return PySet((k_, True) for k_ in list(l) + list(r))
                return PySet((k_, True) for k_ in l if k_ in r)
            if isinstance(l, list) and isinstance(r, list) and isinstance(n.op, ast.Add):
                return l + r
            if isinstance(l, str) and isinstance(r, str) and isinstance(n.op, ast.Add):
                return l + r
            if isinstance(n.op, ast.Mult) and ((isinstance(l, str) and isinstance(r, int) and not isinstance(r, bool)) or (isinstance(r, str) and isinstance(l, int) and not isinstance(l, bool))):
                return l * r
            if isinstance(l, list) and isinstance(r, int) and isinstance(n.op, ast.Mult):
                return l * max(r, 0)
            if isinstance(l, int) and isinstance(r, list) and isinstance(n.op, ast.Mult):
                return r * max(l, 0)
            if isinstance(l, int) and isinstance(r, int) and not isinstance(l, bool):
                if isinstance(n.op, ast.Add):
                    return l + r
                if isinstance(n.op, ast.Sub):
                    return l - r
                if isinstance(n.op, ast.Mult):
                    return l * r
                if isinstance(n.op, ast.Pow) and abs(l) <= 10**6 and abs(r) <= 400:
                    if r >= 0:
                        return l ** r
                    if l != 0:
                        return num(Fraction(l) ** r)  # 10**-3: the number (Python's float, SymPy's Rational - the same value)
                if isinstance(n.op, (ast.Mod, ast.FloorDiv)):
                    if r == 0:
                        raise Raised("ZeroDivisionError", getattr(n, "lineno", 0))
                    return l % r if isinstance(n.op, ast.Mod) else l // r
            o = {ast.Add: "add", ast.Sub: "sub", ast.Mult: "mul", ast.Div: "div", ast.Pow: "pow"}.get(type(n.op))
            if o is None:
                self.fail(n, "operator")
            return op(o, self.scalar(l, n), self.scalar(r, n))
        if isinstance(n, ast.Compare) and len(n.ops) == 1:
            l, r = self.ev(n.left, env, fns), self.ev(n.comparators[0], env, fns)
            o = n.ops[0]
            hc = self.hook_compare(o, l, r, n)
            if hc is not NotImplemented:
                return hc
            if isinstance(o, (ast.Is, ast.IsNot)):
                res = (l is r) if (l is None or r is None) else (l == r)
                return res if isinstance(o, ast.Is) else not res
            if isinstance(o, (ast.In, ast.NotIn)) and (isinstance(r, (list, dict)) or (isinstance(r, str) and isinstance(l, str))):
                try:
                    res = (freeze(l) in r) if isinstance(r, dict) else (l in r)
                except TypeError:  # an unhashable value looked up in a set / dict
                    raise Raised("TypeError", getattr(n, "lineno", 0))
                return res if isinstance(o, ast.In) else not res
            if isinstance(o, (ast.Eq, ast.NotEq)):
                if isinstance(l, T) or isinstance(r, T):
                    # SymPy's == is structural, on automatically simplified expressions: decided on the normal forms
                    from .alg import normalize
                    try:
                        if all(isinstance(x, (T, int)) and not isinstance(x, bool) for x in (l, r)):
                            res = normalize(l).eq(normalize(r))
                            return res if isinstance(o, ast.Eq) else not res
                    except (AnalysisError, ZeroDivisionError):
                        pass
                    self.fail(n, "comparison of symbolic values")
                return (l == r) if isinstance(o, ast.Eq) else (l != r)
            if isinstance(l, int) and isinstance(r, int):
                return {ast.Lt: l < r, ast.LtE: l <= r, ast.Gt: l > r, ast.GtE: l >= r}[type(o)]

            def concrete(x):
                if isinstance(x, int) and not isinstance(x, bool):
                    return Fraction(x)
                if isinstance(x, T) and x.op == "num":
                    return x.val
                if isinstance(x, T) and x.op == "neg" and x.args[0].op == "num":
                    return -x.args[0].val
                return None
            cl, cr = concrete(l), concrete(r)
            if cl is not None and cr is not None and isinstance(o, (ast.Lt, ast.LtE, ast.Gt, ast.GtE)):
                return {ast.Lt: cl < cr, ast.LtE: cl <= cr, ast.Gt: cl > cr, ast.GtE: cl >= cr}[type(o)]  # two numbers
            self.fail(n, "comparison")
        if isinstance(n, ast.BoolOp):
            # Python's and/or: the value of the deciding operand
            last = None
            for v in n.values:
                last = self.ev(v, env, fns)
                t_ = self.truthy(last, v)
                if isinstance(n.op, ast.And) and not t_:
                    return last
                if isinstance(n.op, ast.Or) and t_:
                    return last
            return last
        if isinstance(n, ast.IfExp):
            t = self.truthy(self.ev(n.test, env, fns), n.test)  # None (SymPy's undetermined assumption query) is falsy
            return self.ev(n.body if t else n.orelse, env, fns)
        if isinstance(n, (ast.List, ast.Tuple)):
            out = []
            for e in n.elts:
                if isinstance(e, ast.Starred):
                    out += list(self.ev(e.value, env, fns))
                else:
                    out.append(self.ev(e, env, fns))
            return out
        if isinstance(n, ast.Set):
            out_ = PySet()
            for e in n.elts:
                out_[self.ev(e, env, fns)] = True
            return out_
        if isinstance(n, ast.Subscript):
            base = self.ev(n.value, env, fns)
            if isinstance(base, dict) and not isinstance(base, PySet):
                k = freeze(self.ev(n.slice, env, fns))
                if k in base:
                    return base[k]
                raise Raised("KeyError", getattr(n, "lineno", 0))
            if isinstance(base, (list, str)):
                if isinstance(n.slice, ast.Slice):
                    lo = self.ev(n.slice.lower, env, fns) if n.slice.lower is not None else None
                    hi = self.ev(n.slice.upper, env, fns) if n.slice.upper is not None else None
                    return base[lo:hi]
                k = self.ev(n.slice, env, fns)
                if isinstance(k, int):
                    if -len(base) <= k < len(base):
                        return base[k]
                    raise Raised("IndexError", getattr(n, "lineno", 0))
            self.fail(n, "subscript")
        if isinstance(n, (ast.ListComp, ast.GeneratorExp)):
            items_ = [self.ev(n.elt, e2, fns) for e2 in self.comp_envs(n.generators, env, fns, n)]
            return PyIter(items_) if isinstance(n, ast.GeneratorExp) else items_
        if isinstance(n, ast.DictComp):
            out = {}
            for e2 in self.comp_envs(n.generators, env, fns, n):
                out[freeze(self.ev(n.key, e2, fns))] = self.ev(n.value, e2, fns)
            return out
        if isinstance(n, ast.SetComp):
            out = PySet()
            for e2 in self.comp_envs(n.generators, env, fns, n):
                out[freeze(self.ev(n.elt, e2, fns))] = True
            return out
        if isinstance(n, ast.Dict):
            out_ = {}
            for k, v in zip(n.keys, n.values):
                if k is None:  # {**other, ...}
                    other_ = self.ev(v, env, fns)
                    if not isinstance(other_, dict) or isinstance(other_, PySet):
                        self.fail(n, "** of something that is no mapping")
                    out_.update(other_)
                else:
                    out_[freeze(self.ev(k, env, fns))] = self.ev(v, env, fns)
            return out_
        if isinstance(n, ast.Call):
            return self.ev_call(n, env, fns)
        if isinstance(n, ast.Lambda):
            return ("lambda", n, dict(env))
        if isinstance(n, ast.NamedExpr) and isinstance(n.target, ast.Name):
            v = self.ev(n.value, env, fns)
            env[n.target.id] = v  # (name := value): binds in the enclosing scope, is the value
            return v
        self.fail(n, type(n).__name__)

    def comp_envs(self, generators: list, env: dict, fns: dict, n: ast.AST) -> list:
        """the environments of a comprehension's element, in order: `for a in x if c for b in y ...` (eager)"""
        if not generators:
            return [env]
        g = generators[0]
        if g.is_async:
            self.fail(n, "async comprehension")
        it = self.ev(g.iter, env, fns)
        if isinstance(it, (str, dict)):
            it = list(it)
        if not isinstance(it, list):
            self.fail(g.iter, "comprehension over a non-concrete sequence")
        it = consume(it)
        out = []
        for x in it:
            e2 = dict(env)
            self.assign(g.target, x, e2, n)
            keep = True
            for cond in g.ifs:
                c = self.ev(cond, e2, fns)
                if not (c is None or isinstance(c, bool)):
                    c = self.truthy(c, cond)
                if not c:
                    keep = False
                    break
            if keep:
                out.extend(self.comp_envs(generators[1:], e2, fns, n))
        return out

    def apply_value(self, fval, args: list, n: ast.AST, fns: dict, kwargs: Optional[dict] = None):
        """call a function VALUE: a FnRef, a lambda closure, or operator.add / operator.mul"""
        if isinstance(fval, FnRef):
            return self.call(fval.name, args, kwargs, fns)
        if isinstance(fval, tuple) and len(fval) == 3 and fval[0] == "lambda":
            lam, cenv = fval[1], dict(fval[2])
            params = [a.arg for a in lam.args.args]
            if len(params) != len(args) or lam.args.vararg or lam.args.kwarg:
                self.fail(n, "lambda arity")
            cenv.update(dict(zip(params, args)))
            return self.ev(lam.body, cenv, fns)
        if isinstance(fval, tuple) and len(fval) == 4 and fval[0] == "closure":
            return self.call_def(fval[1], args, kwargs, fval[3], closure_env=fval[2])
        if isinstance(fval, tuple) and len(fval) == 2 and fval[0] == "rawfn":
            return self.call_def(fval[1], args, kwargs, fns)
        if isinstance(fval, tuple) and len(fval) == 3 and fval[0] == "bound":
            return self.call(fval[1], [fval[2]] + list(args), kwargs, fns)
        if isinstance(fval, tuple) and len(fval) == 2 and fval[0] == "operator" and fval[1] == "neg" and len(args) == 1:
            fake = ast.UnaryOp(op=ast.USub(), operand=ast.Name(id="__op_l__", ctx=ast.Load()))
            ast.copy_location(fake, n)
            return self.ev(fake, {"__op_l__": args[0]}, fns)
        if isinstance(fval, tuple) and len(fval) == 2 and fval[0] == "operator" and len(args) == 2:
            fake = ast.BinOp(left=ast.Name(id="__op_l__", ctx=ast.Load()), op={"add": ast.Add(), "mul": ast.Mult(), "sub": ast.Sub(), "truediv": ast.Div()}[fval[1]], right=ast.Name(id="__op_r__", ctx=ast.Load()))
            ast.copy_location(fake, n)
            return self.ev(fake, {"__op_l__": args[0], "__op_r__": args[1]}, fns)
        if isinstance(fval, tuple) and len(fval) == 4 and fval[0] == "partial":
            return self.apply_value(fval[1], list(fval[2]) + list(args), n, fns, {**fval[3], **(kwargs or {})})
        if isinstance(fval, tuple) and len(fval) == 2 and fval[0] == "extfn":
            names_ = [f"__xf_a{i}__" for i in range(len(args))]
            fake = ast.Call(func=ast.Name(id=fval[1], ctx=ast.Load()), args=[ast.Name(id=x, ctx=ast.Load()) for x in names_],
                            keywords=[ast.keyword(arg=k, value=ast.Name(id=f"__xf_k{k}__", ctx=ast.Load())) for k in (kwargs or {})])
            ast.copy_location(fake, n)
            ast.fix_missing_locations(fake)
            return self.ev_call(fake, {**dict(zip(names_, args)), **{f"__xf_k{k}__": v for k, v in (kwargs or {}).items()}}, fns)
        if isinstance(fval, tuple) and len(fval) == 3 and fval[0] == "methodref":
            # obj.name(args), evaluated exactly like the spelled-out method call
            names_ = [f"__mr_a{i}__" for i in range(len(args))]
            kws_ = {k: f"__mr_k{k}__" for k in (kwargs or {})}
            fake = ast.Call(func=ast.Attribute(value=ast.Name(id="__mr_obj__", ctx=ast.Load()), attr=fval[2], ctx=ast.Load()),
                            args=[ast.Name(id=x, ctx=ast.Load()) for x in names_], keywords=[ast.keyword(arg=k, value=ast.Name(id=v, ctx=ast.Load())) for k, v in kws_.items()])
            ast.copy_location(fake, n)
            ast.fix_missing_locations(fake)
            return self.ev(fake, {"__mr_obj__": fval[1], **dict(zip(names_, args)), **{v: (kwargs or {})[k] for k, v in kws_.items()}}, fns)
        self.fail(n, "call of a value that is not a known function")

    def truthy(self, v, n: ast.AST) -> bool:
        if v is None:
            return False
        if isinstance(v, (bool, int, str, list, dict)):
            return bool(v)
        if isinstance(v, T):
            if v.op == "num":
                return v.val != 0
            self.fail(n, "truth value of a symbolic term")
        return True  # objects of the abstract domains (systems, vectors, dimensions, tokens)

    def scalar(self, v, n: ast.AST) -> T:
        if isinstance(v, T):
            return v
        if isinstance(v, int) and not isinstance(v, bool):
            return num(v)
        self.fail(n, f"expected a scalar, got {type(v).__name__}")

    def has_names(self, t, names: set) -> bool:
        """SymPy's .has() on the automatically evaluated expression: decided on the normal form when there is one (diff(u, u) is 1 and has no u)"""
        from .alg import normalize, SQRT_RADICANDS
        if isinstance(t, int):
            return False
        try:
            r = normalize(t)
        except (AnalysisError, ZeroDivisionError):
            return term_has(t, names)
        found = False
        opaque = False
        stack = [k for pl in (r.n, r.d) for k in pl.atoms()]
        seen = set()
        while stack:
            k = stack.pop()
            if k in seen:
                continue
            seen.add(k)
            if k[0] in ("v", "sin", "cos") and k[1] in names:
                found = True
            elif k[0] == "f" and set(k[3]) & names:
                found = True
            elif k[0] == "sqrt" and k in SQRT_RADICANDS:
                stack.extend(SQRT_RADICANDS[k].atoms())
            elif k[0] == "app":
                opaque = True
        if found:
            return True
        return term_has(t, names) if opaque else False

    def hook_attr(self, base, attr: str, n: ast.AST):
        """hook for attributes of rule-specific objects; NotImplemented = not known"""
        return NotImplemented

    def hook_binop(self, o: ast.operator, l, r, n: ast.AST):
        """hook for arithmetic on rule-specific objects; NotImplemented = ordinary arithmetic"""
        return NotImplemented

    def hook_unary(self, o: ast.unaryop, v, n: ast.AST):
        return NotImplemented

    def store_attr(self, base, attr: str, value, n: ast.AST) -> bool:
        """hook: `base.attr = value` on a rule-specific object; False = not supported"""
        return False

    def hook_compare(self, o: ast.cmpop, l, r, n: ast.AST):
        """hook for comparisons of rule-specific objects; NotImplemented = ordinary comparison"""
        return NotImplemented

    def is_instance(self, v, names: list, n: ast.AST) -> bool:
        """hook: isinstance(v, <one of the class names>) for rule-specific objects"""
        self.fail(n, "isinstance outside the modelled classes")

    def class_names(self, n: ast.AST) -> list:
        if isinstance(n, ast.Tuple):
            return [x for e in n.elts for x in self.class_names(e)]
        d = dotted(n)
        if d is None:
            self.fail(n, "class expression")
        return [d.split(".")[-1]]

    def hook_method(self, base, attr: str, args: list, kwargs: dict, n: ast.Call):
        """hook for methods of rule-specific objects; NotImplemented = not known"""
        return NotImplemented

    def subs(self, base, args: list, kwargs: dict, n: ast.AST):
        """SymPy's .subs on a term: (old, new) | mapping | list of pairs; sequential unless simultaneous=True. A mapping with
        several entries applied sequentially is applied by SymPy in an order derived from the keys' names: when the result
        depends on that order the substitution is recorded in self.hazards (and the insertion order is used)."""
        from .alg import substitute
        t = self.scalar(base, n)
        if len(args) == 2:
            pairs = [(args[0], args[1])]
            simultaneous = True
        elif len(args) == 1 and isinstance(args[0], dict):
            pairs = list(args[0].items())
            simultaneous = bool(kwargs.get("simultaneous", False))
        elif len(args) == 1 and isinstance(args[0], list) and all(isinstance(x, list) and len(x) == 2 for x in args[0]):
            pairs = [(a, b) for a, b in args[0]]
            simultaneous = bool(kwargs.get("simultaneous", False))
        else:
            self.fail(n, ".subs() arguments")
        for k, _ in pairs:
            if not (isinstance(k, T) and k.op == "var"):
                self.fail(n, ".subs() of something that is not a plain symbol")
        if simultaneous or len(pairs) <= 1:
            return substitute(t, {k.val: self.scalar(v, n) for k, v in pairs})
        import itertools
        results = []
        for perm in itertools.permutations(pairs) if (len(pairs) <= 4 and isinstance(args[0], dict)) else [pairs]:
            r = t
            for k, v in perm:
                r = substitute(r, {k.val: self.scalar(v, n)})
            results.append(r)
        if any(repr(r) != repr(results[0]) for r in results[1:]):
            self.hazards.append((n, "the entries of a mapping are substituted one after another, in an order SymPy derives from the symbols' names, "
                                    "and the result depends on that order"))
        return results[0]

    def hook_call(self, n: ast.Call, env: dict, fns: dict):
        """hook for rule-specific callees; return NotImplemented to fall through"""
        return NotImplemented

    def has_attr(self, obj, name: str):
        """hook: does the object the abstract value stands for have this attribute? True / False, None = the model does not say"""
        return None

    # static methods of classes defined in OTHER modules that the evaluated code may call, by dotted callee: {"CoordinateSystem.is_angle_component": FunctionDef}.
    # They are evaluated from their source like a function of this module.
    extern_static: dict = {}
    # module-level functions of OTHER modules the evaluated code imports by name: {"helper": FunctionDef}; evaluated from their source
    extern_functions: dict = {}
    # the modules those extern functions / static methods live in: their module-level tables are visible to them
    extern_modules: list = []
    _extern_cache: dict = {}

    def ev_call(self, n: ast.Call, env: dict, fns: dict):
        r = self._ev_call(n, env, fns)
        if isinstance(n.func, ast.Name) and n.func.id == "map" and "map" not in env and "map" not in fns and "map" not in self.functions and type(r) is list:
            return PyIter(r)  # map(...) is a one-shot iterator
        return r

    def _ev_call(self, n: ast.Call, env: dict, fns: dict):
        r = self.hook_call(n, env, fns)
        if r is not NotImplemented:
            return r
        if self.extern_functions and isinstance(n.func, ast.Name) and n.func.id in self.extern_functions and n.func.id not in env and n.func.id not in fns \
                and n.func.id not in self.functions:
            args_ = []
            for a in n.args:
                if isinstance(a, ast.Starred):
                    args_ += list(self.ev(a.value, env, fns))
                else:
                    args_.append(self.ev(a, env, fns))
            return self.call_def(self.extern_functions[n.func.id], args_, {k.arg: self.ev(k.value, env, fns) for k in n.keywords if k.arg}, {})
        if self.extern_static and (dotted(n.func) or "") in self.extern_static and (dotted(n.func) or "").split(".")[0] not in env:
            args_ = []
            for a in n.args:
                if isinstance(a, ast.Starred):
                    args_ += list(self.ev(a.value, env, fns))
                else:
                    args_.append(self.ev(a, env, fns))
            return self.call_def(self.extern_static[dotted(n.func)], args_, {k.arg: self.ev(k.value, env, fns) for k in n.keywords if k.arg}, {})
        if isinstance(n.func, (ast.Call, ast.Subscript, ast.IfExp)):
            # the callee is itself computed: next(candidates, default)(expr), table[key](expr)
            fval = self.ev(n.func, env, fns)
            args_ = []
            for a in n.args:
                if isinstance(a, ast.Starred):
                    args_ += list(self.ev(a.value, env, fns))
                else:
                    args_.append(self.ev(a, env, fns))
            return self.apply_value(fval, args_, n, fns, {k.arg: self.ev(k.value, env, fns) for k in n.keywords if k.arg})
        f = dotted(n.func) or ""
        name = f.split(".")[-1]
        if f in ("getattr", "hasattr") and len(n.args) == (3 if f == "getattr" else 2) and not n.keywords and f not in self.functions and f not in env:
            # getattr(obj, "name", default) / hasattr(obj, "name"): decided only where the rule's model says which attributes its objects have
            obj, attr_ = self.ev(n.args[0], env, fns), self.ev(n.args[1], env, fns)
            has_ = self.has_attr(obj, attr_) if isinstance(attr_, str) else None
            if has_ is None:
                self.fail(n, f"{f} on an object whose attributes are not modelled")
            if f == "hasattr":
                return has_
            if not has_:
                return self.ev(n.args[2], env, fns)
            fake = ast.copy_location(ast.Attribute(value=ast.Name(id="__getattr_obj__", ctx=ast.Load()), attr=attr_, ctx=ast.Load()), n)
            ast.fix_missing_locations(fake)
            return self.ev(fake, {**env, "__getattr_obj__": obj}, fns)
        if f == "getattr" and len(n.args) == 2 and not n.keywords and "getattr" not in self.functions and "getattr" not in env:
            # getattr(obj, "name") is obj.name: the same evaluation as the attribute; of a method, the bound method
            obj, attr_ = self.ev(n.args[0], env, fns), self.ev(n.args[1], env, fns)
            if not isinstance(attr_, str) or not attr_.isidentifier():
                self.fail(n, "getattr with a name that is not a concrete identifier")
            fake = ast.copy_location(ast.Attribute(value=ast.Name(id="__getattr_obj__", ctx=ast.Load()), attr=attr_, ctx=ast.Load()), n)
            ast.fix_missing_locations(fake)
            try:
                got_ = self.ev(fake, {**env, "__getattr_obj__": obj}, fns)
            except AnalysisError:
                return ("methodref", obj, attr_)
            if isinstance(got_, tuple) and len(got_) == 3 and got_[0] == "bound":
                return ("methodref", obj, attr_)  # called like the spelled-out obj.name(...): the rule's method hooks see it
            return got_
        if name == "partial" and n.args and name not in self.functions and name not in env:
            fval = self.ev(n.args[0], env, fns)
            pargs = [self.ev(a, env, fns) for a in n.args[1:]]
            pkw = {k.arg: self.ev(k.value, env, fns) for k in n.keywords if k.arg}
            return ("partial", fval, pargs, pkw)
        if name == "reduce" and len(n.args) in (2, 3):
            fval = self.ev(n.args[0], env, fns)
            seq = self.ev(n.args[1], env, fns)
            if not isinstance(seq, list):
                self.fail(n, "reduce over a non-concrete sequence")
            items = list(seq)
            if len(n.args) == 3:
                acc = self.ev(n.args[2], env, fns)
            elif items:
                acc = items.pop(0)
            else:
                raise Raised("TypeError", getattr(n, "lineno", 0))
            for x in items:
                acc = self.apply_value(fval, [acc, x], n, fns)
            return acc
        if name == "next" and len(n.args) in (1, 2):
            seq = self.ev(n.args[0], env, fns)
            if not isinstance(seq, list):
                self.fail(n, "next() of a non-concrete iterable")
            if seq:
                return seq[0]
            if len(n.args) == 2:
                return self.ev(n.args[1], env, fns)
            raise Raised("StopIteration", getattr(n, "lineno", 0))
        if name == "map" and len(n.args) == 2 and name not in self.functions and name not in env:
            seq_ = self.ev(n.args[1], env, fns)
            if isinstance(seq_, tuple) and seq_ and seq_[0] == "count":
                return ("lazy-map", self.ev(n.args[0], env, fns), seq_)  # map(f, count()): unbounded, only ever zipped with something finite
        if name == "map" and len(n.args) >= 3:
            fval = self.ev(n.args[0], env, fns)
            seqs = [self.ev(a, env, fns) for a in n.args[1:]]
            if not all(isinstance(q_, list) for q_ in seqs):
                self.fail(n, "map over a non-concrete sequence")
            return [self.apply_value(fval, list(t_), n, fns) for t_ in zip(*seqs)]
        if name == "pairwise" and len(n.args) == 1 and name not in self.functions and name not in env:
            q_ = consume(self.ev(n.args[0], env, fns))
            if not isinstance(q_, list):
                self.fail(n, "pairwise of a non-concrete iterable")
            return PyIter([[a_, b_] for a_, b_ in zip(q_, q_[1:])])
        if name == "chain" and not isinstance(n.func, ast.Attribute):
            out = []
            for a in n.args:
                q_ = self.ev(a, env, fns)
                if not isinstance(q_, list):
                    self.fail(n, "chain of a non-concrete iterable")
                out += q_
            return out
        if f.endswith("chain.from_iterable") and len(n.args) == 1:
            q_ = self.ev(n.args[0], env, fns)
            if not (isinstance(q_, list) and all(isinstance(x_, list) for x_ in q_)):
                self.fail(n, "chain.from_iterable of a non-concrete iterable")
            return [y_ for x_ in q_ for y_ in x_]
        if name == "map" and len(n.args) == 2 and isinstance(n.args[0], ast.Lambda) and len(n.args[0].args.args) == 1:
            seq = self.ev(n.args[1], env, fns)
            if not isinstance(seq, list):
                self.fail(n, "map over a non-concrete sequence")
            out = []
            for x in seq:
                e2 = dict(env)
                e2[n.args[0].args.args[0].arg] = x
                out.append(self.ev(n.args[0].body, e2, fns))
            return out
        if name == "map" and len(n.args) == 2 and not (isinstance(n.args[0], ast.Name) and (n.args[0].id in fns or n.args[0].id in self.functions)) and not isinstance(n.args[0], ast.Lambda):
            fval = self.ev(n.args[0], env, fns)
            seq = self.ev(n.args[1], env, fns)
            if not isinstance(seq, list):
                self.fail(n, "map over a non-concrete sequence")
            return [self.apply_value(fval, [x_], n, fns) for x_ in seq]
        if name == "map" and len(n.args) == 2 and isinstance(n.args[0], ast.Name):
            seq = self.ev(n.args[1], env, fns)
            if not isinstance(seq, list):
                self.fail(n, "map over a non-concrete sequence")
            out = []
            for x in seq:
                e2 = dict(env)
                e2["__map_arg__"] = x
                call = ast.Call(func=n.args[0], args=[ast.Name(id="__map_arg__", ctx=ast.Load())], keywords=[])
                ast.copy_location(call, n)
                out.append(self.ev_call(call, e2, fns))
            return out
        args = []
        for a in n.args:
            if isinstance(a, ast.Starred):
                args += list(self.ev(a.value, env, fns))
            else:
                args.append(self.ev(a, env, fns))
        kwargs = {k.arg: self.ev(k.value, env, fns) for k in n.keywords if k.arg}
        for k in n.keywords:
            if k.arg is None:  # **mapping
                extra = self.ev(k.value, env, fns)
                if not isinstance(extra, dict):
                    self.fail(n, "** of something that is not a dict")
                kwargs.update(extra)
        if isinstance(n.func, ast.Attribute) and n.func.attr in ("subs", "items", "values", "keys", "get", "pop", "setdefault", "xreplace") or \
                (isinstance(n.func, ast.Attribute) and not isinstance(n.func.value, ast.Name)) or \
                (isinstance(n.func, ast.Attribute) and isinstance(n.func.value, ast.Name) and (n.func.value.id in env or self.global_value(n.func.value) is not None)):
            base = None
            try:
                base = self.ev(n.func.value, env, fns)
            except AnalysisError:
                base = None
            if base is not None:
                if isinstance(base, dict):
                    if n.func.attr == "items":
                        # a tuple of values used as a key is handed back as the sequence it is (token tuples start with their tag, a string)
                        return [[list(k) if isinstance(k, tuple) and k and not isinstance(k[0], str) else k, v] for k, v in base.items()]
                    if n.func.attr == "values":
                        return list(base.values())
                    if n.func.attr == "keys":
                        return list(base.keys())
                    if n.func.attr == "get" and args:
                        return base.get(freeze(args[0]), args[1] if len(args) > 1 else None)
                    if n.func.attr == "pop" and args:
                        if freeze(args[0]) in base:
                            return base.pop(freeze(args[0]))
                        if len(args) > 1:
                            return args[1]
                        raise Raised("KeyError", getattr(n, "lineno", 0))
                    if n.func.attr == "update" and len(args) <= 1 and all(isinstance(a_, dict) for a_ in args):
                        for a_ in args:
                            base.update(a_)
                        base.update(kwargs)
                        return None
                    if n.func.attr == "copy" and not args:
                        return dict(base)
                    if n.func.attr == "setdefault" and len(args) == 2:
                        return base.setdefault(freeze(args[0]), args[1])
                if n.func.attr in ("subs", "xreplace") and isinstance(base, (T, int)) and not isinstance(base, bool):
                    if n.func.attr == "xreplace":
                        kwargs = dict(kwargs, simultaneous=True)
                    return self.subs(base, args, kwargs, n)
                if isinstance(base, str) and n.func.attr in ("splitlines", "strip", "lstrip", "rstrip", "startswith", "endswith", "split", "join", "replace", "lower", "upper",
                                                             "isspace", "isdigit", "isalpha", "count", "find", "removeprefix", "removesuffix", "expandtabs", "title", "capitalize", "rfind", "zfill", "ljust", "rjust") \
                        and all(isinstance(a_, (str, int)) or (isinstance(a_, list) and all(isinstance(x_, str) for x_ in a_)) or a_ is None for a_ in args) and not kwargs:
                    return getattr(base, n.func.attr)(*[tuple(a_) if n.func.attr in ("startswith", "endswith") and isinstance(a_, list) else a_ for a_ in args])
                if isinstance(base, str) and n.func.attr == "format" and not all(isinstance(a_, (str, int)) and not isinstance(a_, bool) for a_ in list(args) + list(kwargs.values())):
                    return "<?>"  # the text of a message about abstract values: opaque, like an f-string with abstract parts
                if isinstance(base, str) and n.func.attr == "format" and all(isinstance(a_, (str, int)) and not isinstance(a_, bool) for a_ in list(args) + list(kwargs.values())):
                    try:
                        return base.format(*args, **kwargs)
                    except (KeyError, IndexError) as e_:
                        raise Raised(type(e_).__name__, getattr(n, "lineno", 0))
                if isinstance(base, PySet):
                    if n.func.attr == "add" and len(args) == 1:
                        base[freeze(args[0])] = True
                        return None
                    if n.func.attr in ("discard", "remove") and len(args) == 1:
                        if args[0] in base:
                            del base[args[0]]
                        elif n.func.attr == "remove":
                            raise Raised("KeyError", getattr(n, "lineno", 0))
                        return None
                    if n.func.attr in ("update", "union") and all(isinstance(a_, (list, PySet)) for a_ in args):
                        tgt = base if n.func.attr == "update" else PySet(base)
                        for a_ in args:
                            for x_ in a_:
                                tgt[freeze(x_)] = True
                        return None if n.func.attr == "update" else tgt
                    if n.func.attr in ("issubset", "issuperset", "isdisjoint") and len(args) == 1 and isinstance(args[0], (list, PySet)):
                        other_ = list(args[0])
                        if n.func.attr == "issubset":
                            return all(x_ in other_ for x_ in base)
                        if n.func.attr == "issuperset":
                            return all(x_ in base for x_ in other_)
                        return not any(x_ in base for x_ in other_)
                if isinstance(base, list) and n.func.attr == "pop" and len(args) <= 1 and all(isinstance(a_, int) for a_ in args):
                    if not base or (args and not -len(base) <= args[0] < len(base)):
                        raise Raised("IndexError", getattr(n, "lineno", 0))
                    return base.pop(*args)
                if isinstance(base, list) and n.func.attr in ("index", "count") and len(args) == 1:
                    if n.func.attr == "count":
                        return base.count(args[0])
                    if args[0] in base:
                        return base.index(args[0])
                    raise Raised("ValueError", getattr(n, "lineno", 0))
                r = self.hook_method(base, n.func.attr, args, kwargs, n)
                if r is not NotImplemented:
                    return r
        if name == "dict" and len(args) == 1 and isinstance(args[0], list) and all(isinstance(x, list) and len(x) == 2 for x in args[0]):
            return {**{freeze(k): v for k, v in args[0]}, **kwargs}
        if name == "dict" and len(args) == 1 and isinstance(args[0], dict):
            return {**args[0], **kwargs}
        if name == "dict" and not args and name not in self.functions:
            return dict(kwargs)
        if name in ("set", "frozenset") and len(args) <= 1:
            out_ = PySet()
            for x_ in (args[0] if args else []):
                try:
                    out_[x_] = True
                except TypeError:
                    self.fail(n, "unhashable set element")
            return out_
        if name == "bool" and len(args) == 1 and not kwargs and name not in self.functions:
            return self.truthy(args[0], n)
        if name == "len" and len(args) == 1 and isinstance(args[0], (list, dict, str)):
            return len(args[0])
        if name == "sum" and len(args) in (1, 2) and not kwargs and name not in self.functions and isinstance(args[0], list) \
                and all(isinstance(x_, int) and not isinstance(x_, bool) for x_ in list(args[0]) + list(args[1:])):
            return sum(consume(args[0]) if isinstance(args[0], PyIter) else args[0], *args[1:])  # a count: sum(1 for x in xs if test(x))
        if name in ("max", "min") and args and all(isinstance(a, int) for a in args):
            return max(args) if name == "max" else min(args)
        if name in ("list", "tuple") and len(args) == 1 and isinstance(args[0], PyIter) and name not in self.functions:
            return list(consume(args[0]))
        if name in ("list", "tuple", "sorted") and len(args) == 1 and isinstance(args[0], dict) and not isinstance(args[0], PySet) and name not in self.functions \
                and all(isinstance(k_, str) for k_ in args[0]):
            return sorted(args[0]) if name == "sorted" else list(args[0])  # the keys, in insertion order
        if name in ("list", "tuple") and len(args) == 1 and isinstance(args[0], list):
            return list(args[0])
        if name == "zip":
            finite = [a for a in args if not (isinstance(a, tuple) and a and a[0] in ("count", "lazy-map"))]
            if len(finite) != len(args):
                if not finite or kwargs.get("strict"):
                    self.fail(n, "zip of unbounded iterators only")
                k_ = min(len(a) for a in finite)
                mat = []
                for a in args:
                    if isinstance(a, tuple) and a[0] == "count":
                        mat.append([a[1] + i_ * a[2] for i_ in range(k_)])
                    elif isinstance(a, tuple) and a[0] == "lazy-map":
                        mat.append([self.apply_value(a[1], [a[2][1] + i_ * a[2][2]], n, fns) for i_ in range(k_)])
                    else:
                        mat.append(list(a)[:k_])
                return [list(t) for t in zip(*mat)]
            if kwargs.get("strict") and len({len(a) for a in args}) > 1:
                raise Raised("ValueError", getattr(n, "lineno", 0))
            return [list(t) for t in zip(*args)]
        if name == "count" and len(args) <= 2 and all(isinstance(a, int) for a in args) and name not in self.functions and self._imports("itertools", "count"):
            return ("count", args[0] if args else 0, args[1] if len(args) > 1 else 1)
        if name == "enumerate" and len(args) in (1, 2) and isinstance(args[0], (list, str)):
            start = args[1] if len(args) == 2 else kwargs.get("start", 0)
            return [[i, x] for i, x in enumerate(args[0], start)]
        if name == "range" and all(isinstance(a, int) for a in args):
            return list(range(*args))
        if name in ("sympify", "simplify", "S") and args:
            return args[0]
        if name == "Add":
            acc = num(0)
            for a in args:
                acc = op("add", acc, self.scalar(a, n))
            return acc
        if name == "Eq" and len(args) == 2:
            return ("eq", self.scalar(args[0], n), self.scalar(args[1], n))
        if name == "Vector" and args:
            comps = args[0]
            sysv = args[1] if len(args) > 1 else kwargs.get("coordinate_system", Sys("default", "CARTESIAN"))
            if not isinstance(comps, list) or not isinstance(sysv, Sys):
                self.fail(n, "Vector(...) arguments")
            return VVal([self.scalar(c, n) for c in comps], sysv)
        if name in ("abs", "Abs") and len(args) == 1:
            a = args[0]
            if isinstance(a, int):
                return abs(a)
            if isinstance(a, T) and a.op == "num":
                return num(abs(a.val))
            if isinstance(a, T) and a.op == "neg" and a.args[0].op == "num":
                return a.args[0]
            self.fail(n, "abs of a symbolic value")
        if name in ("round", "floor", "ceil", "trunc") and name not in self.functions and 1 <= len(args) <= 2 and not kwargs \
                and all(isinstance(a, (T, int)) and not isinstance(a, bool) for a in args):
            if all(isinstance(a, int) for a in args):
                return round(*args) if name == "round" else args[0]
            return app(name, *[a if isinstance(a, T) else num(a) for a in args])  # an uninterpreted function of its arguments: equal to nothing but itself
        if name in ("sqrt", "sin", "cos", "tan") and len(args) == 1:
            return op(name, self.scalar(args[0], n))
        if name in ("any", "all") and len(args) == 1 and isinstance(args[0], list) and all(isinstance(x, bool) for x in args[0]):
            return any(args[0]) if name == "any" else all(args[0])
        if isinstance(n.func, ast.Attribute) and n.func.attr == "has":
            base = self.ev(n.func.value, env, fns)
            if isinstance(base, (T, int)):
                names = set()
                for a in args:
                    if isinstance(a, T) and a.op == "var":
                        names.add(a.val)
                    else:
                        self.fail(n, ".has() of a non-variable")
                return self.has_names(base, names)
        if name == "diff" and len(args) >= 2:
            return op("diff", self.scalar(args[0], n), *[self.scalar(a, n) for a in args[1:]])
        if isinstance(n.func, ast.Name) and n.func.id in env and isinstance(env[n.func.id], (FnRef, tuple)):
            return self.apply_value(env[n.func.id], args, n, fns, kwargs)
        if isinstance(n.func, ast.Name) and name in fns:
            return self.call_def(fns[name], args, kwargs, fns, closure_env=env)  # a nested function reads the variables of the enclosing call
        if name in fns or name in self.functions:
            if isinstance(n.func, ast.Name) or f.startswith("CoordinateSystem.") is False:
                fn_ = fns.get(name) or self.functions.get(name)
                first = (fn_.args.posonlyargs + fn_.args.args)[0].arg if (fn_.args.posonlyargs + fn_.args.args) else None
                if isinstance(n.func, ast.Attribute) and first in ("self", "cls"):
                    # a method of the flattened class called on an object: bind it
                    return self.call(name, [self.ev(n.func.value, env, fns)] + args, kwargs, fns)
                return self.call(name, args, kwargs, fns)
        if f.startswith("CoordinateSystem.system_to_transformation_name"):
            return "name"
        if name == "str":
            return "str"
        self.fail(n, "call outside the supported subset")
