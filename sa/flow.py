"""E3 - statement-level control-flow graph, dominators, reaching definitions, backward slices.

Built for the statement kinds used by symplyphysics/core. Pure stdlib.
"""
from __future__ import annotations

import ast
from dataclasses import dataclass, field
from typing import Iterable, Optional

from .core import dotted

MUTATORS = {"append", "extend", "add", "update", "insert", "setdefault", "appendleft", "remove", "pop", "clear", "sort"}


@dataclass(eq=False)
class Node:
    id: int
    kind: str  # entry | exit | raise | stmt | test | for | with | except | match
    ast: Optional[ast.AST] = None
    succ: list = field(default_factory=list)
    pred: list = field(default_factory=list)
    lexical_tests: tuple = ()  # (test Node, branch) pairs lexically enclosing this node

    def __repr__(self) -> str:
        if self.ast is None:
            return f"<{self.kind}>"
        return f"<{self.kind}@{getattr(self.ast, 'lineno', '?')}>"


class CFG:

    def __init__(self, fn: ast.AST):
        self.fn = fn
        self.nodes: list[Node] = []
        self.entry = self._new("entry")
        self.exit = self._new("exit")  # normal return
        self.raise_exit = self._new("raise")  # exceptional exit
        self._loop_stack: list[tuple[Node, list]] = []  # (continue target, break list)
        self._handler_stack: list[list[Node]] = []
        self._lex: tuple = ()
        body = fn.body if hasattr(fn, "body") else []
        ends = self._seq(body, [self.entry])
        for e in ends:
            self._edge(e, self.exit)
        self.of_stmt: dict[int, Node] = {id(n.ast): n for n in self.nodes if n.ast is not None}
        self._dom: Optional[dict[Node, set]] = None
        self._rd_in: Optional[dict[Node, dict[str, frozenset]]] = None

    # ---------------------------------------------------------------- construction
    def _new(self, kind: str, a: Optional[ast.AST] = None) -> Node:
        n = Node(len(self.nodes), kind, a, lexical_tests=getattr(self, "_lex", ()))
        self.nodes.append(n)
        return n

    def _edge(self, a: Node, b: Node) -> None:
        if b not in a.succ:
            a.succ.append(b)
            b.pred.append(a)

    def _link(self, preds: Iterable[Node], n: Node) -> None:
        for p in preds:
            self._edge(p, n)

    def _may_raise(self, n: Node) -> None:
        """Inside try bodies every statement may transfer to each handler."""
        if self._handler_stack:
            for h in self._handler_stack[-1]:
                self._edge(n, h)

    def _seq(self, stmts: list, preds: list) -> list:
        cur = list(preds)
        for s in stmts:
            cur = self._stmt(s, cur)
        return cur

    def _stmt(self, s: ast.stmt, preds: list) -> list:
        if isinstance(s, ast.If):
            t = self._new("test", s)
            self._link(preds, t)
            self._may_raise(t)
            old = self._lex
            self._lex = old + ((t, True), )
            a = self._seq(s.body, [t])
            self._lex = old + ((t, False), )
            b = self._seq(s.orelse, [t]) if s.orelse else [t]
            self._lex = old
            return a + b
        if isinstance(s, (ast.While, )):
            t = self._new("test", s)
            self._link(preds, t)
            self._may_raise(t)
            breaks: list = []
            self._loop_stack.append((t, breaks))
            old = self._lex
            self._lex = old + ((t, True), )
            body_end = self._seq(s.body, [t])
            self._lex = old
            self._loop_stack.pop()
            self._link(body_end, t)
            infinite = isinstance(s.test, ast.Constant) and bool(s.test.value)
            out = [] if infinite else [t]
            if s.orelse:
                out = self._seq(s.orelse, out)
            return out + breaks
        if isinstance(s, (ast.For, ast.AsyncFor)):
            t = self._new("for", s)
            self._link(preds, t)
            self._may_raise(t)
            breaks = []
            self._loop_stack.append((t, breaks))
            old = self._lex
            self._lex = old + ((t, True), )
            body_end = self._seq(s.body, [t])
            self._lex = old
            self._loop_stack.pop()
            self._link(body_end, t)
            out = [t]
            if s.orelse:
                out = self._seq(s.orelse, out)
            return out + breaks
        if isinstance(s, (ast.With, ast.AsyncWith)):
            w = self._new("with", s)
            self._link(preds, w)
            self._may_raise(w)
            return self._seq(s.body, [w])
        if isinstance(s, ast.Try) or s.__class__.__name__ == "TryStar":
            handlers = []
            for h in s.handlers:
                hn = self._new("except", h)
                handlers.append(hn)
            self._handler_stack.append(handlers)
            first = self._new("stmt", s)  # the try statement itself: a no-op anchor
            self._link(preds, first)
            for h in handlers:
                self._edge(first, h)
            body_end = self._seq(s.body, [first])
            self._handler_stack.pop()
            if s.orelse:
                body_end = self._seq(s.orelse, body_end)
            ends = list(body_end)
            for h, hn in zip(s.handlers, handlers):
                ends += self._seq(h.body, [hn])
            if s.finalbody:
                ends = self._seq(s.finalbody, ends)
            return ends
        if isinstance(s, ast.Match):
            m = self._new("match", s)
            self._link(preds, m)
            ends = []
            exhaustive = False
            old = self._lex
            for c in s.cases:
                self._lex = old + ((m, c), )
                ends += self._seq(c.body, [m])
                if isinstance(c.pattern, ast.MatchAs) and c.pattern.pattern is None and c.guard is None:
                    exhaustive = True
            self._lex = old
            if not exhaustive:
                ends.append(m)
            return ends
        n = self._new("stmt", s)
        self._link(preds, n)
        self._may_raise(n)
        if isinstance(s, ast.Return):
            self._edge(n, self.exit)
            return []
        if isinstance(s, ast.Raise):
            if self._handler_stack:
                for h in self._handler_stack[-1]:
                    self._edge(n, h)
            else:
                self._edge(n, self.raise_exit)
            return []
        if isinstance(s, ast.Continue):
            if self._loop_stack:
                self._edge(n, self._loop_stack[-1][0])
            return []
        if isinstance(s, ast.Break):
            if self._loop_stack:
                self._loop_stack[-1][1].append(n)
            return []
        if isinstance(s, ast.Assert):
            self._edge(n, self.raise_exit)
        return [n]

    # ---------------------------------------------------------------- dominators
    def dominators(self) -> dict:
        if self._dom is not None:
            return self._dom
        reach = self.reachable()
        allset = set(reach)
        dom = {n: set(allset) for n in reach}
        dom[self.entry] = {self.entry}
        changed = True
        order = [n for n in self.nodes if n in allset]
        while changed:
            changed = False
            for n in order:
                if n is self.entry:
                    continue
                ps = [dom[p] for p in n.pred if p in allset]
                new = set.intersection(*ps) if ps else set()
                new = new | {n}
                if new != dom[n]:
                    dom[n] = new
                    changed = True
        self._dom = dom
        return dom

    def reachable(self) -> list:
        seen = {self.entry}
        stack = [self.entry]
        while stack:
            n = stack.pop()
            for s in n.succ:
                if s not in seen:
                    seen.add(s)
                    stack.append(s)
        return [n for n in self.nodes if n in seen]

    def dominated_by(self, n: Node, pred) -> bool:
        """Is `n` strictly-or-not dominated by some node satisfying `pred`?"""
        d = self.dominators().get(n)
        if d is None:
            return True  # unreachable
        return any(pred(x) for x in d)

    def returns(self) -> list:
        return [n for n in self.reachable() if n.kind == "stmt" and isinstance(n.ast, ast.Return)]

    def normal_exits(self) -> list:
        """Nodes with an edge to the normal exit (returns and fall-off-the-end)."""
        return [p for p in self.exit.pred if p in set(self.reachable())]

    def raises(self) -> list:
        return [n for n in self.reachable() if n.kind == "stmt" and isinstance(n.ast, ast.Raise)]

    def stmt_nodes(self) -> list:
        return [n for n in self.reachable() if n.ast is not None]

    # ---------------------------------------------------------------- definitions / uses
    def node_defs(self, n: Node) -> dict[str, list]:
        """variable -> list of expressions the new value depends on (None = opaque/self)"""
        a = n.ast
        out: dict[str, list] = {}

        def add(target: ast.AST, deps: list) -> None:
            if isinstance(target, ast.Name):
                out.setdefault(target.id, []).extend(deps)
            elif isinstance(target, (ast.Tuple, ast.List)):
                for e in target.elts:
                    add(e, deps)
            elif isinstance(target, ast.Starred):
                add(target.value, deps)
            elif isinstance(target, (ast.Subscript, ast.Attribute)):
                base = target
                while isinstance(base, (ast.Subscript, ast.Attribute)):
                    base = base.value
                if isinstance(base, ast.Name):
                    extra = [target.slice] if isinstance(target, ast.Subscript) else []
                    out.setdefault(base.id, []).extend(deps + extra + [ast.Name(id=base.id, ctx=ast.Load())])

        if n.kind == "entry":
            fn = self.fn
            if isinstance(fn, (ast.FunctionDef, ast.AsyncFunctionDef, ast.Lambda)):
                ar = fn.args
                for p in ar.posonlyargs + ar.args + ar.kwonlyargs:
                    out[p.arg] = []
                if ar.vararg:
                    out[ar.vararg.arg] = []
                if ar.kwarg:
                    out[ar.kwarg.arg] = []
            return out
        if n.kind == "stmt":
            if isinstance(a, ast.Assign):
                for t in a.targets:
                    add(t, [a.value])
            elif isinstance(a, ast.AnnAssign) and a.value is not None:
                add(a.target, [a.value])
            elif isinstance(a, ast.AugAssign):
                add(a.target, [a.value, _load(a.target)])
            elif isinstance(a, (ast.FunctionDef, ast.AsyncFunctionDef, ast.ClassDef)):
                out[a.name] = []
            elif isinstance(a, (ast.Import, ast.ImportFrom)):
                for al in a.names:
                    out[(al.asname or al.name).split(".")[0]] = []
            elif isinstance(a, ast.Expr) and isinstance(a.value, ast.Call) and isinstance(a.value.func, ast.Attribute) \
                    and a.value.func.attr in MUTATORS:
                base = a.value.func.value
                while isinstance(base, (ast.Subscript, ast.Attribute)):
                    base = base.value
                if isinstance(base, ast.Name):
                    out.setdefault(base.id, []).extend(list(a.value.args) + [k.value for k in a.value.keywords] + [ast.Name(id=base.id, ctx=ast.Load())])
            # walrus
            if a is not None:
                for w in ast.walk(a):
                    if isinstance(w, ast.NamedExpr) and isinstance(w.target, ast.Name):
                        out.setdefault(w.target.id, []).append(w.value)
        elif n.kind == "for" and isinstance(a, (ast.For, ast.AsyncFor)):
            add(a.target, [a.iter])
        elif n.kind == "with" and isinstance(a, (ast.With, ast.AsyncWith)):
            for it in a.items:
                if it.optional_vars is not None:
                    add(it.optional_vars, [it.context_expr])
        elif n.kind == "except" and isinstance(a, ast.ExceptHandler) and a.name:
            out[a.name] = []
        elif n.kind == "test" and a is not None:
            for w in ast.walk(a.test):
                if isinstance(w, ast.NamedExpr) and isinstance(w.target, ast.Name):
                    out.setdefault(w.target.id, []).append(w.value)
        return out

    def weak(self, n: Node, var: str) -> bool:
        """Does the definition of `var` at `n` keep (part of) the old value?"""
        a = n.ast
        if n.kind == "stmt" and isinstance(a, ast.Assign):
            for t in a.targets:
                for x in ([t] if not isinstance(t, (ast.Tuple, ast.List)) else t.elts):
                    if isinstance(x, ast.Name) and x.id == var:
                        return False
            return True
        if n.kind == "stmt" and isinstance(a, ast.AnnAssign):
            return not (isinstance(a.target, ast.Name) and a.target.id == var)
        if n.kind == "stmt" and isinstance(a, ast.Expr):
            return True
        return False

    def reaching(self) -> dict:
        """node -> {var: frozenset(def nodes)} at node entry."""
        if self._rd_in is not None:
            return self._rd_in
        nodes = self.reachable()
        defs = {n: self.node_defs(n) for n in nodes}
        IN: dict = {n: {} for n in nodes}
        OUT: dict = {n: {} for n in nodes}
        work = list(nodes)
        inwork = set(work)
        while work:
            n = work.pop(0)
            inwork.discard(n)
            merged: dict[str, set] = {}
            for p in n.pred:
                if p not in OUT:
                    continue
                for v, ds in OUT[p].items():
                    merged.setdefault(v, set()).update(ds)
            IN[n] = {v: frozenset(ds) for v, ds in merged.items()}
            out = dict(IN[n])
            for v in defs[n]:
                if self.weak(n, v) and v in out:
                    out[v] = frozenset(set(out[v]) | {n})
                else:
                    out[v] = frozenset({n})
            if out != OUT[n]:
                OUT[n] = out
                for s in n.succ:
                    if s not in inwork and s in IN:
                        work.append(s)
                        inwork.add(s)
        self._rd_in = IN
        self._defs = defs
        return IN

    # ---------------------------------------------------------------- slices
    def slice(self, n: Node, exprs: Iterable[ast.AST], control: bool = False) -> "Slice":
        """Backward data (and optionally lexical control) slice of `exprs` evaluated at node `n`."""
        IN = self.reaching()
        sl = Slice()
        seen: set = set()
        work: list = [(n, e) for e in exprs]
        if control:
            for t, _ in n.lexical_tests:
                work.append((t, _test_expr(t)))
        while work:
            node, e = work.pop()
            if e is None:
                continue
            key = (node.id, id(e))
            if key in seen:
                continue
            seen.add(key)
            sl.exprs.append(e)
            bound = _comprehension_bound(e)
            callee_names = {id(c.func) for c in ast.walk(e) if isinstance(c, ast.Call) and isinstance(c.func, ast.Name)}
            for w in ast.walk(e):
                if isinstance(w, ast.Call):
                    d = dotted(w.func)
                    if d:
                        sl.calls.add(d)
                        sl.call_nodes.append(w)
                    elif isinstance(w.func, ast.Attribute):
                        sl.calls.add("." + w.func.attr)
                        sl.call_nodes.append(w)
                elif isinstance(w, ast.Attribute):
                    d = dotted(w)
                    if d:
                        sl.attrs.add(d)
                    sl.attr_names.add(w.attr)
                elif isinstance(w, ast.Constant):
                    if isinstance(w.value, (int, float, str, complex)) or w.value is None:
                        sl.consts.add(w.value)
                elif isinstance(w, ast.Name) and isinstance(w.ctx, ast.Load):
                    if w.id in bound:
                        continue
                    ds = IN.get(node, {}).get(w.id)
                    # a weak self-reference at the defining node refers to earlier definitions
                    if not ds:
                        if id(w) not in callee_names:
                            sl.free.add(w.id)
                        continue
                    for dn in ds:
                        if dn.kind == "entry":
                            sl.params.add(w.id)
                            continue
                        sl.def_nodes.add(dn)
                        for dep in self._defs[dn].get(w.id, []):
                            work.append((dn, dep))
                        if control:
                            for t, _ in dn.lexical_tests:
                                work.append((t, _test_expr(t)))
        return sl


def _test_expr(t: Node) -> Optional[ast.AST]:
    a = t.ast
    if isinstance(a, (ast.If, ast.While)):
        return a.test
    if isinstance(a, (ast.For, ast.AsyncFor)):
        return a.iter
    if isinstance(a, ast.Match):
        return a.subject
    return None


def _load(t: ast.AST) -> ast.AST:
    if isinstance(t, ast.Name):
        return ast.Name(id=t.id, ctx=ast.Load())
    return t


def _comprehension_bound(e: ast.AST) -> set:
    out = set()
    for w in ast.walk(e):
        if isinstance(w, ast.comprehension):
            for x in ast.walk(w.target):
                if isinstance(x, ast.Name):
                    out.add(x.id)
        elif isinstance(w, ast.Lambda):
            for p in w.args.posonlyargs + w.args.args + w.args.kwonlyargs:
                out.add(p.arg)
    return out


@dataclass
class Slice:
    params: set = field(default_factory=set)
    free: set = field(default_factory=set)  # names with no local definition (globals, builtins, closure)
    calls: set = field(default_factory=set)
    attrs: set = field(default_factory=set)  # dotted attribute chains rooted at a name
    attr_names: set = field(default_factory=set)
    consts: set = field(default_factory=set)
    def_nodes: set = field(default_factory=set)
    exprs: list = field(default_factory=list)
    call_nodes: list = field(default_factory=list)


# ---------------------------------------------------------------------------------------------
# small queries used by many rules


def calls_in(node: ast.AST) -> list[ast.Call]:
    return [n for n in ast.walk(node) if isinstance(n, ast.Call)]


def node_calls(n: Node) -> list[ast.Call]:
    """Calls evaluated *at* a CFG node (for compound statements only the header expression)."""
    a = n.ast
    if a is None:
        return []
    if n.kind == "test":
        return calls_in(a.test)
    if n.kind == "for":
        return calls_in(a.iter)
    if n.kind == "with":
        return [c for it in a.items for c in calls_in(it.context_expr)]
    if n.kind == "match":
        return calls_in(a.subject)
    if n.kind == "except":
        return []
    if isinstance(a, (ast.FunctionDef, ast.AsyncFunctionDef, ast.ClassDef)):
        return []
    if isinstance(a, ast.Try):
        return []
    return calls_in(a)


def calls_named(n: Node, names: Iterable[str]) -> list[ast.Call]:
    names = set(names)
    out = []
    for c in node_calls(n):
        d = dotted(c.func)
        if d and (d in names or d.split(".")[-1] in names):
            out.append(c)
    return out


def find_function(tree: ast.AST, path: str) -> Optional[ast.AST]:
    """`a.b.c` = function c nested in b nested in a (functions or classes)."""
    cur: ast.AST = tree
    for part in path.split("."):
        nxt = None
        for s in ast.walk(cur) if cur is not tree else getattr(cur, "body", []):
            if isinstance(s, (ast.FunctionDef, ast.AsyncFunctionDef, ast.ClassDef)) and s.name == part and s is not cur:
                nxt = s
                break
        if nxt is None:
            return None
        cur = nxt
    return cur


# ---------------------------------------------------------------------------------------------
# resolution of callee names through the module environment (E1's World) and misc helpers


def resolve_name(world, modname: str, node: ast.AST) -> Optional[str]:
    """Qualified name of what a Name/Attribute refers to at module level: 'symplyphysics....f' for library
    functions/classes, 'sympy.<name>' for SymPy imports, '<pkg>.<name>' for other foreign imports, 'builtins.<name>'."""
    import builtins
    from .dim import Interp
    env = world.env(modname)
    if isinstance(node, ast.Name):
        v = env.names.get(node.id)
        if v is None:
            return f"builtins.{node.id}" if hasattr(builtins, node.id) else None
    else:
        v = Interp(world, env).ev(node)
    if v.kind == "pyfunc":
        return v.extra[0]
    if v.kind == "pyclass":
        return v.extra
    if v.kind == "sympy":
        return f"sympy.{v.extra}"
    if v.kind == "foreign":
        return v.extra
    if v.kind == "module":
        return v.extra
    return None


def must_all(cfg: CFG, n: Node, e: ast.AST, depth: int = 0) -> list[ast.Call]:
    """Calls c such that (e is truthy) implies (c returned truthy), following single reaching definitions."""
    if depth > 8:
        return []
    if isinstance(e, ast.BoolOp) and isinstance(e.op, ast.And):
        out = []
        for v in e.values:
            out += must_all(cfg, n, v, depth + 1)
        return out
    if isinstance(e, ast.BoolOp) and isinstance(e.op, ast.Or):
        sets = [must_all(cfg, n, v, depth + 1) for v in e.values]
        return [c for c in sets[0] if all(c in s for s in sets[1:])] if sets else []
    if isinstance(e, ast.Call):
        d = dotted(e.func)
        if d in ("bool", "all") and e.args:
            if d == "all" and isinstance(e.args[0], (ast.List, ast.Tuple)):
                out = []
                for v in e.args[0].elts:
                    out += must_all(cfg, n, v, depth + 1)
                return out
            if d == "bool":
                return must_all(cfg, n, e.args[0], depth + 1)
        return [e]
    if isinstance(e, ast.Name):
        ds = cfg.reaching().get(n, {}).get(e.id)
        if ds and len(ds) == 1:
            dn = next(iter(ds))
            if dn.kind == "stmt" and isinstance(dn.ast, (ast.Assign, ast.AnnAssign)) and dn.ast.value is not None:
                tg = dn.ast.targets if isinstance(dn.ast, ast.Assign) else [dn.ast.target]
                if all(isinstance(t, ast.Name) for t in tg):
                    return must_all(cfg, dn, dn.ast.value, depth + 1)
        return []
    if isinstance(e, ast.IfExp):
        a, b = must_all(cfg, n, e.body, depth + 1), must_all(cfg, n, e.orelse, depth + 1)
        return [c for c in a if c in b]
    return []


def node_of(cfg: CFG, inner: ast.AST) -> Optional[Node]:
    """CFG node at which the expression `inner` is evaluated."""
    for n in cfg.stmt_nodes():
        a = n.ast
        roots: list = []
        if n.kind == "test":
            roots = [a.test]
        elif n.kind == "for":
            roots = [a.iter, a.target]
        elif n.kind == "with":
            roots = [it.context_expr for it in a.items]
        elif n.kind == "match":
            roots = [a.subject]
        elif n.kind == "except":
            roots = [a.type] if a.type is not None else []
        elif isinstance(a, (ast.FunctionDef, ast.AsyncFunctionDef, ast.ClassDef, ast.Try)):
            roots = []
        else:
            roots = [a]
        for r in roots:
            for w in ast.walk(r):
                if w is inner:
                    return n
    return None


def monomial(e: ast.AST, atom) -> Optional[dict]:
    """Expression as a monomial {atom-key: exponent} * constant (key '#' holds the numeric coefficient), or None.
    `atom(expr)` returns a hashable key for leaves it recognises, else None. abs() is transparent."""
    from fractions import Fraction
    k = atom(e)
    if k is not None:
        return {k: Fraction(1), "#": Fraction(1)}
    if isinstance(e, ast.Constant) and isinstance(e.value, (int, float)) and not isinstance(e.value, bool):
        return {"#": Fraction(e.value) if isinstance(e.value, int) else Fraction(str(e.value))}
    if isinstance(e, ast.BinOp) and isinstance(e.op, (ast.Mult, ast.Div)):
        a, b = monomial(e.left, atom), monomial(e.right, atom)
        if a is None or b is None:
            return None
        out = dict(a)
        sign = 1 if isinstance(e.op, ast.Mult) else -1
        for kk, v in b.items():
            if kk == "#":
                if sign == -1 and v == 0:
                    return None
                out["#"] = out.get("#", Fraction(1)) * (v if sign == 1 else 1 / v)
            else:
                out[kk] = out.get(kk, Fraction(0)) + sign * v
        return {kk: v for kk, v in out.items() if kk == "#" or v != 0}
    if isinstance(e, ast.BinOp) and isinstance(e.op, ast.Pow) and isinstance(e.right, ast.Constant) \
            and isinstance(e.right.value, int):
        a = monomial(e.left, atom)
        if a is None:
            return None
        return {kk: (v**e.right.value if kk == "#" else v * e.right.value) for kk, v in a.items()}
    if isinstance(e, ast.UnaryOp) and isinstance(e.op, (ast.USub, ast.UAdd)):
        a = monomial(e.operand, atom)
        if a is None:
            return None
        if isinstance(e.op, ast.USub):
            a = dict(a)
            a["#"] = -a.get("#", Fraction(1))
        return a
    if isinstance(e, ast.Call) and dotted(e.func) in ("abs", "Abs", "float") and len(e.args) == 1 and not e.keywords:
        a = monomial(e.args[0], atom)
        if a is None:
            return None
        if dotted(e.func) != "float":
            a = dict(a)
            a["#"] = abs(a.get("#", Fraction(1)))
        return a
    return None


def inline_locals(fn: ast.FunctionDef) -> ast.FunctionDef:
    """A copy of `fn` in which every local that is bound exactly once, to an expression over stable names, is replaced at its uses by that
    expression (`a = x.f; b = y.f; return a / b` reads `return x.f / y.f`). Rules that recognise shapes are applied to this copy, so that
    naming an intermediate value - the most common harmless refactor - does not change a verdict. The assignments themselves are kept."""
    import copy
    fn = copy.deepcopy(fn)
    params = {a.arg for a in fn.args.posonlyargs + fn.args.args + fn.args.kwonlyargs} | ({fn.args.vararg.arg} if fn.args.vararg else set()) | \
        ({fn.args.kwarg.arg} if fn.args.kwarg else set())
    stores: dict = {}
    defs: dict = {}
    in_loop = {id(y) for x in ast.walk(fn) if isinstance(x, (ast.For, ast.While, ast.AsyncFor)) for y in ast.walk(x)}
    store_lines: dict = {}

    def note(name: str, value, stmt):
        stores[name] = stores.get(name, 0) + 1
        defs[name] = (value, stmt)
        store_lines.setdefault(name, []).append((getattr(stmt, "lineno", 0), id(stmt) in in_loop))

    nested = [x for x in ast.walk(fn) if isinstance(x, (ast.FunctionDef, ast.AsyncFunctionDef, ast.Lambda, ast.ClassDef)) and x is not fn]
    inside_nested = {id(y) for x in nested for y in ast.walk(x)}
    for st in ast.walk(fn):
        if id(st) in inside_nested:
            continue
        if isinstance(st, ast.Assign) and len(st.targets) == 1:
            t = st.targets[0]
            if isinstance(t, ast.Name):
                note(t.id, st.value, st)
            elif isinstance(t, (ast.Tuple, ast.List)) and isinstance(st.value, (ast.Tuple, ast.List)) and len(t.elts) == len(st.value.elts) \
                    and all(isinstance(e, ast.Name) for e in t.elts):
                for e, v in zip(t.elts, st.value.elts):
                    note(e.id, v, st)
            else:
                for x in ast.walk(t):
                    if isinstance(x, ast.Name):
                        note(x.id, None, st)
        elif isinstance(st, (ast.AugAssign, ast.AnnAssign)):
            for x in ast.walk(st.target):
                if isinstance(x, ast.Name):
                    note(x.id, None if isinstance(st, ast.AugAssign) or st.value is None else st.value, st)
                    if isinstance(st, ast.AugAssign):
                        stores[x.id] += 1
        elif isinstance(st, (ast.For, ast.AsyncFor, ast.comprehension)):
            for x in ast.walk(st.target):
                if isinstance(x, ast.Name):
                    note(x.id, None, st)
                    stores[x.id] += 1
        elif isinstance(st, (ast.With, ast.AsyncWith)):
            for it in st.items:
                if it.optional_vars is not None:
                    for x in ast.walk(it.optional_vars):
                        if isinstance(x, ast.Name):
                            note(x.id, None, st)
                            stores[x.id] += 1
        elif isinstance(st, ast.ExceptHandler) and st.name:
            note(st.name, None, st)
            stores[st.name] += 1
        elif isinstance(st, ast.NamedExpr) and isinstance(st.target, ast.Name):
            note(st.target.id, None, st)
            stores[st.target.id] += 1
    stable = {n for n in params if n not in stores}

    def ok(name: str, seen: frozenset) -> bool:
        if name in seen or name in params:
            return False
        if stores.get(name) != 1 or defs[name][0] is None or id(defs[name][1]) in in_loop:
            return False
        v = defs[name][0]
        if any(isinstance(x, (ast.Yield, ast.YieldFrom, ast.Await, ast.NamedExpr, ast.Lambda, ast.ListComp, ast.GeneratorExp, ast.DictComp, ast.SetComp)) for x in ast.walk(v)):
            return False
        dline = getattr(defs[name][1], "lineno", 0)
        for x in ast.walk(v):
            if isinstance(x, ast.Name) and isinstance(x.ctx, ast.Load) and x.id in store_lines:
                # every (re)binding of a name the expression reads lies before the definition, outside loops: its value cannot change afterwards
                if not all(ln < dline and not lp for ln, lp in store_lines[x.id]):
                    return False
        return True

    inlinable = {n for n in stores if ok(n, frozenset())}

    class Sub(ast.NodeTransformer):

        def __init__(self):
            self.depth = 0

        def visit_Name(self, node):
            if isinstance(node.ctx, ast.Load) and node.id in inlinable and self.depth < 6:
                v, st = defs[node.id]
                if getattr(node, "lineno", 0) > getattr(st, "lineno", 0) or (getattr(node, "lineno", 0) == getattr(st, "lineno", 0) and False):
                    self.depth += 1
                    new = self.visit(copy.deepcopy(v))
                    self.depth -= 1
                    return new
            return node

        def visit_FunctionDef(self, node):
            if node is fn:
                self.generic_visit(node)
            return node

        def visit_Lambda(self, node):
            return node

        def visit_Assign(self, node):
            node.value = self.visit(node.value)
            return node

    Sub().visit(fn)
    ast.fix_missing_locations(fn)
    return fn


class Fn:
    """A function of the repository prepared for path/dataflow rules."""

    def __init__(self, world, modname: str, path: str, inline: bool = False, node=None):
        from .core import AnalysisError
        self.world = world
        self.mod = world.src.need(modname)
        fn = node if node is not None else find_function(self.mod.tree, path)  # node: one particular definition among several of the same name (dispatch overloads)
        if fn is None or not isinstance(fn, (ast.FunctionDef, ast.AsyncFunctionDef)):
            raise AnalysisError(f"anchor function {modname}:{path} not found")
        if inline:
            fn = inline_locals(fn)
        self.fn = fn
        self.path = path
        self.cfg = CFG(fn)
        self.params = [p.arg for p in fn.args.posonlyargs + fn.args.args + fn.args.kwonlyargs]

    @property
    def qual(self) -> str:
        return f"{self.mod.name}:{self.path}"

    def callee(self, n: Node, call: ast.Call) -> Optional[str]:
        f = call.func
        root = f
        while isinstance(root, ast.Attribute):
            root = root.value
        if isinstance(root, ast.Name):
            if self.cfg.reaching().get(n, {}).get(root.id):
                return None  # locally (re)bound: not the module-level object
            if isinstance(f, ast.Name) and self._enclosing_binds(root.id):
                return None
            return resolve_name(self.world, self.mod.name, f)
        return None

    def _enclosing_binds(self, name: str) -> bool:
        """Is `name` a parameter/local of a function lexically enclosing self.fn (closure variable)?"""
        for outer in ast.walk(self.mod.tree):
            if isinstance(outer, (ast.FunctionDef, ast.AsyncFunctionDef)) and outer is not self.fn:
                if any(x is self.fn for x in ast.walk(outer)):
                    a = outer.args
                    if name in [p.arg for p in a.posonlyargs + a.args + a.kwonlyargs] + \
                            ([a.vararg.arg] if a.vararg else []) + ([a.kwarg.arg] if a.kwarg else []):
                        return True
                    for s in ast.walk(outer):
                        if isinstance(s, ast.Name) and isinstance(s.ctx, ast.Store) and s.id == name \
                                and not any(x is s for x in ast.walk(self.fn)):
                            return True
        return False

    def calls(self, *quals: str) -> list[tuple[Node, ast.Call]]:
        """All calls in the function body (not in nested defs) whose callee resolves to one of `quals`
        (a qual may also be given as a bare last component prefixed with '~' for method calls: '~append')."""
        out = []
        for n in self.cfg.stmt_nodes():
            for c in node_calls(n):
                q = self.callee(n, c)
                if q in quals:
                    out.append((n, c))
                elif isinstance(c.func, ast.Attribute) and ("~" + c.func.attr) in quals:
                    out.append((n, c))
        return out

    def slice(self, n: Node, *exprs: ast.AST, control: bool = False) -> Slice:
        return self.cfg.slice(n, exprs, control=control)

    def line(self, x) -> int:
        a = x.ast if isinstance(x, Node) else x
        return getattr(a, "lineno", 0)


def kw(call: ast.Call, name: str) -> Optional[ast.AST]:
    for k in call.keywords:
        if k.arg == name:
            return k.value
    return None


def numeric_consts(sl: Slice) -> set:
    return {c for c in sl.consts if isinstance(c, (int, float, complex)) and not isinstance(c, bool)}


# ---------------------------------------------------------------------------------------------
# path conditions inside loops / blocks


def _ends_abruptly(body: list) -> bool:
    return bool(body) and isinstance(body[-1], (ast.Continue, ast.Return, ast.Raise, ast.Break))


def conditions_for(fn: ast.AST, target: ast.AST, stop: Optional[ast.AST] = None, skip_raise_guards: bool = False) -> Optional[list]:
    """Conditions that necessarily hold when statement `target` (an ast.stmt inside `fn`) starts executing, collected
    from lexically enclosing if/while tests (with polarity) and from earlier sibling guards of the form
    `if T: ...; continue/return/raise/break` (recorded as (T, False)). Stops at loop `stop` (exclusive) when given.
    Returns a list of (test expr, polarity) or None when the target is not found."""

    def search(body: list, conds: list) -> Optional[list]:
        local = list(conds)
        for s in body:
            if s is target:
                return local
            if isinstance(s, ast.If):
                r = search(s.body, local + [(s.test, True)])
                if r is not None:
                    return r
                r = search(s.orelse, local + [(s.test, False)])
                if r is not None:
                    return r
                if not s.orelse and _ends_abruptly(s.body):
                    if not (skip_raise_guards and isinstance(s.body[-1], ast.Raise)):
                        local = local + [(s.test, False)]
                elif s.orelse and _ends_abruptly(s.orelse) and not _ends_abruptly(s.body):
                    local = local + [(s.test, True)]
            elif isinstance(s, (ast.For, ast.AsyncFor, ast.While)):
                inner_conds = [] if s is stop else local + [("loop", s)]
                r = search(s.body, inner_conds)
                if r is not None:
                    return r
                r = search(s.orelse, local)
                if r is not None:
                    return r
            elif isinstance(s, (ast.With, ast.AsyncWith)):
                r = search(s.body, local)
                if r is not None:
                    return r
            elif isinstance(s, ast.Try):
                for blk in (s.body, s.orelse, s.finalbody):
                    r = search(blk, local + ([("try", s)] if blk is s.body else []))
                    if r is not None:
                        return r
                for h in s.handlers:
                    r = search(h.body, local + [("except", h)])
                    if r is not None:
                        return r
            elif isinstance(s, ast.Match):
                for c in s.cases:
                    r = search(c.body, local + [("case", c)])
                    if r is not None:
                        return r
            else:
                # the target may be an expression statement containing the node of interest
                if any(x is target for x in ast.walk(s)):
                    return local
        return None

    return search(getattr(fn, "body", []), [])


def stmt_of(fn: ast.AST, inner: ast.AST) -> Optional[ast.stmt]:
    """Innermost simple statement of `fn` containing expression node `inner`."""
    best = None
    for s in ast.walk(fn):
        if isinstance(s, ast.stmt) and not isinstance(s, (ast.If, ast.For, ast.While, ast.With, ast.Try, ast.FunctionDef, ast.ClassDef, ast.Match)):
            if any(x is inner for x in ast.walk(s)):
                best = s
    return best


def loop_passes(cfg: CFG, loop: Node, pred) -> bool:
    """Every path from the loop header through the body back to the header passes a node satisfying `pred`."""
    body_first = [s for s in loop.succ if any(t is loop and br is True for t, br in s.lexical_tests)]
    seen = set()
    stack = [s for s in body_first if not pred(s)]
    if not body_first:
        return False
    while stack:
        n = stack.pop()
        if n in seen:
            continue
        seen.add(n)
        for s in n.succ:
            if s is loop:
                return False
            if not any(t is loop for t, _ in s.lexical_tests):
                continue  # left the loop (break/return/raise): not a path back to the header
            if not pred(s) and s not in seen:
                stack.append(s)
    return True


def loops_over(fnq: Fn, what) -> list[Node]:
    return [n for n in fnq.cfg.stmt_nodes() if n.kind == "for" and what(n)]


def has_subscript(exprs: Iterable[ast.AST]) -> bool:
    return any(isinstance(x, (ast.Subscript, ast.Slice)) for e in exprs for x in ast.walk(e))
