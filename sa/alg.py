"""E4 - exact algebra for closed-form formula tables read out of the source.

Terms (a tiny expression language) are built by per-file readers from the repository's AST; `normalize` maps a term to a
multivariate rational function over Fraction in atoms, modulo the relations  sin(a)^2 = 1 - cos(a)^2  (per angle atom) and
q^2 = radicand (per square-root atom). Equality of two normal forms is decided by cross-multiplication; formal derivation
knows product/quotient/chain rules for these atoms and treats undefined functions f(x, y, z) with commuting mixed partials.
Nothing here executes repository or SymPy code.
"""
from __future__ import annotations

from dataclasses import dataclass
from fractions import Fraction
from typing import Optional, Union

from .core import AnalysisError

# ------------------------------------------------------------------------------------------ polynomials


def _mono_mul(a: tuple, b: tuple) -> tuple:
    d = dict(a)
    for k, e in b:
        d[k] = d.get(k, 0) + e
    return tuple(sorted(((k, e) for k, e in d.items() if e), key=repr))


SQRT_RADICANDS: dict[tuple, "Poly"] = {}  # atom key ('sqrt', canonical radicand repr) -> radicand polynomial


class Poly:
    __slots__ = ("t", )

    def __init__(self, t=None):
        self.t = {m: c for m, c in (t or {}).items() if c != 0}

    @staticmethod
    def const(c) -> "Poly":
        return Poly({(): Fraction(c)})

    @staticmethod
    def atom(a) -> "Poly":
        return Poly({((a, 1), ): Fraction(1)})

    def __add__(self, o: "Poly") -> "Poly":
        d = dict(self.t)
        for m, c in o.t.items():
            d[m] = d.get(m, 0) + c
        return Poly(d)

    def __neg__(self) -> "Poly":
        return Poly({m: -c for m, c in self.t.items()})

    def __sub__(self, o: "Poly") -> "Poly":
        return self + (-o)

    def __mul__(self, o: "Poly") -> "Poly":
        d: dict = {}
        for m1, c1 in self.t.items():
            for m2, c2 in o.t.items():
                m = _mono_mul(m1, m2)
                d[m] = d.get(m, 0) + c1 * c2
        return Poly(d).reduce()

    def reduce(self) -> "Poly":
        """sin(a)^2 -> 1 - cos(a)^2 ;  sqrt(R)^2 -> R"""
        cur = self
        for _ in range(200):
            out: dict = {}
            changed = False
            extra = Poly()
            for m, c in cur.t.items():
                hit = None
                for k, e in m:
                    if k[0] in ("sin", "sqrt") and e >= 2:
                        hit = (k, e)
                        break
                if hit is None:
                    out[m] = out.get(m, 0) + c
                    continue
                changed = True
                k, e = hit
                rest = tuple((kk, ee) for kk, ee in m if kk != k)
                lower = _mono_mul(rest, ((k, e - 2), ) if e - 2 else ())
                base = Poly({lower: c})
                if k[0] == "sin":
                    repl = Poly.const(1) - Poly({((("cos", k[1]), 2), ): Fraction(1)})
                else:
                    repl = SQRT_RADICANDS[k]
                # multiply without recursion into reduce (we loop anyway)
                d2: dict = {}
                for m1, c1 in base.t.items():
                    for m2, c2 in repl.t.items():
                        mm = _mono_mul(m1, m2)
                        d2[mm] = d2.get(mm, 0) + c1 * c2
                extra = extra + Poly(d2)
            cur = Poly(out) + extra
            if not changed:
                return cur
        raise AnalysisError("algebra: reduction did not terminate")

    def is_zero(self) -> bool:
        return not self.reduce().t

    def atoms(self) -> set:
        return {k for m in self.t for k, _ in m}

    def key(self) -> tuple:
        return tuple(sorted(((m, c) for m, c in self.t.items()), key=repr))

    def __repr__(self) -> str:
        if not self.t:
            return "0"
        parts = []
        for m, c in sorted(self.t.items(), key=repr):
            mono = "*".join(f"{_atom_str(k)}^{e}" if e != 1 else _atom_str(k) for k, e in m)
            parts.append(f"{c}" if not mono else (mono if c == 1 else f"{c}*{mono}"))
        return " + ".join(parts)


def _atom_str(k) -> str:
    if k[0] == "v":
        return str(k[1])
    if k[0] in ("sin", "cos"):
        return f"{k[0]}({k[1]})"
    if k[0] == "sqrt":
        return f"sqrt({SQRT_RADICANDS[k]!r})"
    if k[0] == "f":
        return f"{k[1]}" + ("_" + "".join(map(str, k[2])) if k[2] else "")
    if k[0] == "app":
        return f"{k[1]}({', '.join(k[2])})"
    return repr(k)


class Rat:
    """rational function num/den (no gcd normalisation; equality by cross-multiplication)"""
    __slots__ = ("n", "d")

    def __init__(self, n: Poly, d: Optional[Poly] = None):
        self.n = n
        self.d = d if d is not None else Poly.const(1)
        if not self.d.t:
            raise ZeroDivisionError("algebra: zero denominator")

    def __add__(self, o: "Rat") -> "Rat":
        if self.d.key() == o.d.key():
            return Rat(self.n + o.n, self.d)
        return Rat(self.n * o.d + o.n * self.d, self.d * o.d)

    def __neg__(self) -> "Rat":
        return Rat(-self.n, self.d)

    def __sub__(self, o: "Rat") -> "Rat":
        return self + (-o)

    def __mul__(self, o: "Rat") -> "Rat":
        return Rat(self.n * o.n, self.d * o.d)

    def __truediv__(self, o: "Rat") -> "Rat":
        if o.n.is_zero():
            raise ZeroDivisionError("algebra: division by zero")
        return Rat(self.n * o.d, self.d * o.n)

    def __pow__(self, k: int) -> "Rat":
        if k < 0:
            return C(1) / (self**(-k))
        r = C(1)
        for _ in range(k):
            r = r * self
        return r

    def eq(self, o: "Rat") -> bool:
        return (self.n * o.d - o.n * self.d).is_zero()

    def is_zero(self) -> bool:
        return self.n.is_zero()

    def __repr__(self) -> str:
        if self.d.key() == Poly.const(1).key():
            return repr(self.n)
        return f"({self.n!r}) / ({self.d!r})"


def C(c) -> Rat:
    return Rat(Poly.const(c))


def A(a) -> Rat:
    return Rat(Poly.atom(a))


def V(name: str) -> Rat:
    return A(("v", name))


# ------------------------------------------------------------------------------------------ square roots


def _perfect_square(q: Fraction) -> Optional[Fraction]:
    if q < 0:
        return None
    import math
    n, d = q.numerator, q.denominator
    rn, rd = math.isqrt(n), math.isqrt(d)
    if rn * rn == n and rd * rd == d:
        return Fraction(rn, rd)
    return None


def sqrt_poly(p: Poly) -> Rat:
    """sqrt of a polynomial; atoms are assumed non-negative where a monomial root is taken (callers state that assumption)."""
    p = p.reduce()
    if not p.t:
        return C(0)
    if len(p.t) == 1:
        (m, c), = p.t.items()
        rc = _perfect_square(c)
        if rc is not None and all(e % 2 == 0 for _, e in m):
            return Rat(Poly({tuple((k, e // 2) for k, e in m): rc}))
    alt = _monomial_via_sin(p)
    if alt is not None:
        return alt
    # pull out the even part of the monomial content: sqrt(c^4 - c^2 v^2) = c sqrt(c^2 - v^2)
    content: dict = {}
    first = True
    for m in p.t:
        d = dict(m)
        if first:
            content = dict(d)
            first = False
        else:
            content = {k: min(e, d.get(k, 0)) for k, e in content.items()}
    content = {k: (e // 2) * 2 for k, e in content.items() if k[0] == "v" and e >= 2}
    if content:
        div = tuple(sorted(content.items(), key=repr))
        rest = Poly({_mono_mul(m, tuple((k, -e) for k, e in div)): c for m, c in p.t.items()})
        outer = Rat(Poly({tuple(sorted(((k, e // 2) for k, e in content.items()), key=repr)): Fraction(1)}))
        return outer * sqrt_poly(rest)
    # common numeric content that is a perfect square is pulled out; the rest becomes one atom
    lead = p.t[sorted(p.t, key=repr)[0]]
    scale = Fraction(1)
    if lead < 0 and all(c < 0 for c in p.t.values()):
        raise AnalysisError(f"algebra: square root of a negative polynomial {p!r}")
    rc = _perfect_square(abs(lead))
    if rc is not None and rc != 0 and lead > 0:
        scale = rc
        p = Poly({m: c / lead for m, c in p.t.items()})
    key = ("sqrt", repr(p.key()))
    SQRT_RADICANDS.setdefault(key, p)
    return Rat(Poly({((key, 1), ): scale}))


def _raw_mul(a: dict, b: dict) -> dict:
    d: dict = {}
    for m1, c1 in a.items():
        for m2, c2 in b.items():
            m = _mono_mul(m1, m2)
            d[m] = d.get(m, 0) + c1 * c2
    return {m: c for m, c in d.items() if c != 0}


def _monomial_via_sin(p: Poly) -> Optional[Rat]:
    """The normal form rewrites sin^2 to 1 - cos^2; a perfect square such as r^2 sin(t)^2 is then stored as r^2 - r^2 cos(t)^2.
    Try the opposite orientation (cos^2 -> 1 - sin^2) for each subset of the angles involved and accept a perfect-square monomial."""
    import itertools
    angles = sorted({k[1] for m in p.t for k, e in m if k[0] == "cos" and e >= 2})
    if not angles or len(angles) > 3:
        return None
    for r in range(1, len(angles) + 1):
        for subset in itertools.combinations(angles, r):
            cur: dict = {}
            for m, c in p.t.items():
                term = {(): c}
                for k, e in m:
                    if k[0] == "cos" and k[1] in subset and e >= 2:
                        one_minus = {(): Fraction(1), ((("sin", k[1]), 2), ): Fraction(-1)}
                        for _ in range(e // 2):
                            term = _raw_mul(term, one_minus)
                        if e % 2:
                            term = _raw_mul(term, {((k, 1), ): Fraction(1)})
                    else:
                        term = _raw_mul(term, {((k, e), ): Fraction(1)})
                for mm, cc in term.items():
                    cur[mm] = cur.get(mm, 0) + cc
            cur = {m: c for m, c in cur.items() if c != 0}
            if len(cur) == 1:
                (m, c), = cur.items()
                rc = _perfect_square(c)
                if rc is not None and all(e % 2 == 0 for _, e in m):
                    return Rat(Poly({tuple((k, e // 2) for k, e in m): rc}))
    return None


def sqrt_rat(r: Rat) -> Rat:
    return sqrt_poly(r.n) / sqrt_poly(r.d)


# ------------------------------------------------------------------------------------------ derivation


def _d_atom(a, v: str) -> Rat:
    kind = a[0]
    if kind == "v":
        return C(1) if a[1] == v else C(0)
    if kind == "sin":
        return A(("cos", a[1])) if a[1] == v else C(0)
    if kind == "cos":
        return -A(("sin", a[1])) if a[1] == v else C(0)
    if kind == "f":
        # undefined function of all coordinates: mixed partials commute (sorted multi-index)
        if v not in a[3]:
            return C(0)
        return A(("f", a[1], tuple(sorted(a[2] + (v, ))), a[3]))
    if kind == "sqrt":
        rad = SQRT_RADICANDS[a]
        return d_poly(rad, v) / (C(2) * A(a))
    raise AnalysisError(f"algebra: cannot differentiate atom {a!r}")


def d_poly(p: Poly, v: str) -> Rat:
    res = C(0)
    for m, c in p.t.items():
        for i, (k, e) in enumerate(m):
            rest = tuple((kk, ee) for j, (kk, ee) in enumerate(m) if j != i)
            lower = _mono_mul(rest, ((k, e - 1), ) if e - 1 else ())
            res = res + Rat(Poly({lower: c * e})) * _d_atom(k, v)
    return res


def diff(r: Rat, v: str) -> Rat:
    dn, dd = d_poly(r.n, v), d_poly(r.d, v)
    if dd.is_zero():
        return dn / Rat(r.d)
    return (dn * Rat(r.d) - Rat(r.n) * dd) / Rat(r.d * r.d)


# ------------------------------------------------------------------------------------------ terms


@dataclass(frozen=True)
class T:
    op: str  # num var add sub mul div neg pow sin cos tan sqrt atan2 acos diff fun
    args: tuple = ()
    val: object = None

    def __repr__(self) -> str:
        if self.op == "num":
            return str(self.val)
        if self.op == "var":
            return str(self.val)
        if self.op == "fun":
            return f"{self.val}(...)"
        if self.op == "app":
            return f"{self.val}({', '.join(map(repr, self.args))})"
        return f"{self.op}({', '.join(map(repr, self.args))})"


def num(x) -> T:
    return T("num", (), Fraction(x))


def var(name: str) -> T:
    return T("var", (), name)


def fun(name: str, coords: tuple) -> T:
    return T("fun", (), (name, tuple(coords)))


def op(o: str, *args: T) -> T:
    return T(o, tuple(args))


def substitute(t: T, env: dict[str, T]) -> T:
    if t.op == "var":
        return env.get(t.val, t)
    if t.op in ("num", "fun"):
        return t
    return T(t.op, tuple(substitute(a, env) for a in t.args), t.val)


def app(name: str, *args: T) -> T:
    """generic function `name` applied to argument terms"""
    return T("app", tuple(args), name)


def normalize(t) -> Rat:
    if isinstance(t, int) and not isinstance(t, bool):
        return C(t)
    o = t.op
    if o == "num":
        return C(t.val)
    if o == "var":
        return V(t.val)
    if o == "pi":
        return V("pi")  # a transcendental constant: an independent atom outside trigonometric functions
    if o == "fun":
        name, coords = t.val
        return A(("f", name, (), coords))
    if o == "app":
        # a generic (undefined) function applied to argument TERMS: an opaque atom keyed by the normal forms of its arguments
        return A(("app", t.val, tuple(repr(normalize(a)) for a in t.args)))
    if o == "add":
        return normalize(t.args[0]) + normalize(t.args[1])
    if o == "sub":
        return normalize(t.args[0]) - normalize(t.args[1])
    if o == "mul":
        # a factor outside the decidable class does not matter when the other factor is identically zero
        vals, err = [], None
        for x in t.args:
            try:
                vals.append(normalize(x))
            except AnalysisError as e:
                vals.append(None)
                err = e
        if err is not None:
            if any(v is not None and v.is_zero() for v in vals):
                return C(0)
            raise err
        return vals[0] * vals[1]
    if o == "div":
        return normalize(t.args[0]) / normalize(t.args[1])
    if o == "neg":
        return -normalize(t.args[0])
    if o == "pow":
        e = t.args[1]
        if e.op == "num" and e.val.denominator == 1:
            return normalize(t.args[0])**int(e.val)
        if e.op == "num" and e.val == Fraction(1, 2):
            return sqrt_rat(normalize(t.args[0]))
        if e.op == "num" and e.val == Fraction(-1, 2):
            return C(1) / sqrt_rat(normalize(t.args[0]))
        if e.op == "neg" and e.args[0].op == "num" and e.args[0].val.denominator == 1:
            return normalize(t.args[0])**(-int(e.args[0].val))
        raise AnalysisError(f"algebra: unsupported exponent {e!r}")
    if o == "sqrt":
        return sqrt_rat(normalize(t.args[0]))
    if o in ("sin", "cos", "tan"):
        return _trig(o, t.args[0])
    if o == "diff":
        r = normalize(t.args[0])
        for v in t.args[1:]:
            if v.op != "var":
                raise AnalysisError(f"algebra: derivative with respect to a non-variable {v!r}")
            r = diff(r, v.val)
        return r
    raise AnalysisError(f"algebra: term {t!r} is outside the decidable class")


def _trig(o: str, a: T) -> Rat:
    if o == "tan":
        return _trig("sin", a) / _trig("cos", a)
    if a.op == "var":
        return A((o, a.val))
    if a.op == "num" and a.val == 0:
        return C(0) if o == "sin" else C(1)
    if a.op == "pi":
        return C(0) if o == "sin" else C(-1)
    if a.op in ("mul", "div") and any(x.op == "pi" for x in a.args):
        # rational multiples of pi that occur in practice
        other = [x for x in a.args if x.op != "pi"]
        if len(other) == 1 and other[0].op == "num":
            q = other[0].val if a.op == "mul" or a.args[0].op != "pi" else None
            if a.op == "div" and a.args[0].op == "pi":
                q = 1 / other[0].val
            if q is not None:
                table = {Fraction(1, 2): (1, 0), Fraction(1): (0, -1), Fraction(3, 2): (-1, 0), Fraction(2): (0, 1), Fraction(0): (0, 1), Fraction(-1, 2): (-1, 0), Fraction(-1): (0, -1)}
                if q in table:
                    return C(table[q][0]) if o == "sin" else C(table[q][1])
    if a.op == "mod" and _is_two_pi_multiple(a.args[1]):
        return _trig(o, a.args[0])  # sin and cos have period 2 pi
    if a.op == "atan2":
        y, x = normalize(a.args[0]), normalize(a.args[1])
        h = sqrt_rat(x * x + y * y)
        return (y if o == "sin" else x) / h
    if a.op == "acos":
        u = normalize(a.args[0])
        return u if o == "cos" else sqrt_rat(C(1) - u * u)
    if a.op == "asin":
        u = normalize(a.args[0])
        return u if o == "sin" else sqrt_rat(C(1) - u * u)
    if a.op == "neg":
        r = _trig(o, a.args[0])
        return -r if o == "sin" else r
    if a.op in ("add", "sub"):
        s1, c1, s2, c2 = _trig("sin", a.args[0]), _trig("cos", a.args[0]), _trig("sin", a.args[1]), _trig("cos", a.args[1])
        sg = C(1) if a.op == "add" else C(-1)
        if o == "sin":
            return s1 * c2 + sg * c1 * s2
        return c1 * c2 - sg * s1 * s2
    raise AnalysisError(f"algebra: {o} of {a!r} is outside the decidable class")


def _is_two_pi_multiple(t: T) -> bool:
    if t.op == "mul" and len(t.args) == 2:
        a, b = t.args
        for x, y in ((a, b), (b, a)):
            if x.op == "pi" and y.op == "num" and y.val != 0 and (y.val / 2).denominator == 1:
                return True
    return False


# ------------------------------------------------------------------------------------------ vectors (lists of 3 Rat)


def vdot(u: list, v: list) -> Rat:
    r = C(0)
    for a, b in zip(u, v):
        r = r + a * b
    return r


def vcross(u: list, v: list) -> list:
    return [u[1] * v[2] - u[2] * v[1], u[2] * v[0] - u[0] * v[2], u[0] * v[1] - u[1] * v[0]]


def vscale(s: Rat, v: list) -> list:
    return [s * x for x in v]


def vadd(u: list, v: list) -> list:
    return [a + b for a, b in zip(u, v)]


def vsub(u: list, v: list) -> list:
    return [a - b for a, b in zip(u, v)]


def veq(u: list, v: list) -> bool:
    return len(u) == len(v) and all(a.eq(b) for a, b in zip(u, v))


def generic_vector(name: str) -> list:
    return [V(f"{name}{i}") for i in range(3)]


# ------------------------------------------------------------------------------------------ numeric witnesses


def _eval_poly(p: Poly, val) -> float:
    tot = 0.0
    for m, c in p.t.items():
        t = float(c)
        for k, e in m:
            t *= val(k)**e
        tot += t
    return tot


def eval_rat(r: Rat, point: dict) -> float:
    """Numeric value of a normal form at `point` (variable name -> float). sin/cos/sqrt atoms are computed, generic function
    atoms (and their formal derivatives) get independent pseudo-random values: any assignment is admissible for a generic function."""
    import math
    import zlib

    cache: dict = {}

    def val(k) -> float:
        if k in cache:
            return cache[k]
        if k[0] == "v":
            if k[1] not in point:
                point[k[1]] = 0.37 + (zlib.crc32(repr(k).encode()) % 1000) / 1300.0
            v = point[k[1]]
        elif k[0] == "sin":
            v = math.sin(val(("v", k[1])))
        elif k[0] == "cos":
            v = math.cos(val(("v", k[1])))
        elif k[0] == "sqrt":
            v = math.sqrt(_eval_poly(SQRT_RADICANDS[k], val))
        elif k[0] in ("f", "app"):
            v = 0.21 + (zlib.crc32((repr(k) + repr(sorted(point.get("__salt__", "")))).encode()) % 1000) / 900.0
        else:
            raise AnalysisError(f"algebra: cannot evaluate atom {k!r}")
        cache[k] = v
        return v

    return _eval_poly(r.n, val) / _eval_poly(r.d, val)


def _atom_names(atoms, seen=None) -> set:
    """variable names of a set of atoms, including those inside the radicands of square-root atoms"""
    out: set = set()
    seen = seen if seen is not None else set()
    for k in atoms:
        if k in seen:
            continue
        seen.add(k)
        if k[0] in ("v", "sin", "cos"):
            out.add(k[1])
        elif k[0] == "sqrt" and k in SQRT_RADICANDS:
            out |= _atom_names(SQRT_RADICANDS[k].atoms(), seen)
    return out


def witness(a: Rat, b: Rat, tries: int = 12) -> Optional[dict]:
    """A concrete point at which the two normal forms take different values, or None when they agree at every tried point."""
    import random
    rng = random.Random(20240607)
    for i in range(tries):
        names = sorted(_atom_names([k for r in (a, b) for p in (r.n, r.d) for k in p.atoms()]))
        point = {n: rng.uniform(0.35, 1.25) for n in names}
        point["__salt__"] = str(i)
        try:
            va, vb = eval_rat(a, dict(point)), eval_rat(b, dict(point))
        except (ValueError, ZeroDivisionError):
            continue
        if abs(va - vb) > 1e-7 * max(1.0, abs(va), abs(vb)):
            pt = {k: round(v, 6) for k, v in point.items() if k != "__salt__"}
            return {"point": pt, "left": va, "right": vb}
    return None


def decide_equal(a: Rat, b: Rat, what: str = "") -> tuple[bool, Optional[dict]]:
    """(equal?, witness). Equality is decided by normal form; an inequality is reported only together with a numeric witness.
    Normal forms that differ while all sample points agree mean the algebra is incomplete for this formula: ANALYSIS-ERROR."""
    if a.eq(b):
        return True, None
    w = witness(a, b)
    if w is None:
        raise AnalysisError(f"algebra: cannot decide {what}: normal forms differ ({a!r} vs {b!r}) but agree numerically at all sample points")
    return False, w


def same(a: Rat, b: Rat, what: str = "") -> bool:
    return decide_equal(a, b, what)[0]


def eval_term(t, point: dict) -> float:
    """Direct numeric value of a term (no derivatives) at `point`; used only to exhibit a witness when a term leaves the
    class the normal form decides."""
    import math
    if isinstance(t, int):
        return float(t)
    o = t.op
    if o == "num":
        return float(t.val)
    if o == "var":
        return point[t.val]
    if o == "pi":
        return math.pi
    if o == "piecewise":
        for k in range(0, len(t.args), 2):
            if eval_term(t.args[k + 1], point):
                return eval_term(t.args[k], point)
        raise ValueError("no branch of the Piecewise applies")
    if o == "fun" or (o == "diff" and t.args[0].op == "fun" and t.args[1].op == "var"):
        # a generic function and its formal derivative take independent values at the sample point: any assignment is admissible
        import zlib
        return 0.23 + (zlib.crc32(repr((o, t.val, [(x.op, x.val) for x in t.args])).encode()) % 1000) / 870.0
    a = [eval_term(x, point) for x in t.args] if o != "diff" else []
    if o == "app":
        # a generic function applied to terms: equal argument values give equal results, otherwise independent values
        import zlib
        return 0.19 + (zlib.crc32(repr((t.val, [float(f"{v:.6g}") for v in a])).encode()) % 1000) / 910.0
    if o == "add":
        return a[0] + a[1]
    if o == "sub":
        return a[0] - a[1]
    if o == "mul":
        return a[0] * a[1]
    if o == "div":
        return a[0] / a[1]
    if o == "neg":
        return -a[0]
    if o == "pow":
        return a[0]**a[1]
    if o == "sqrt":
        return math.sqrt(a[0])
    if o in ("sin", "cos", "tan", "acos", "asin"):
        return getattr(math, o)(a[0])
    if o == "atan2":
        if a[0] == 0 and a[1] == 0:
            raise ValueError("atan2(0, 0)")
        return math.atan2(a[0], a[1])
    if o == "mod":
        return a[0] % a[1]  # SymPy's Mod takes the sign of the divisor, like Python's %
    if o in ("eq", "ne", "gt", "ge", "lt", "le"):
        import operator
        return 1.0 if getattr(operator, o)(a[0], a[1]) else 0.0
    if o == "and":
        return 1.0 if all(a) else 0.0
    if o == "or":
        return 1.0 if any(a) else 0.0
    if o == "piecewise":
        for k in range(0, len(a), 2):
            if a[k + 1]:
                return a[k]
        raise ValueError("no branch of the Piecewise applies")
    raise AnalysisError(f"algebra: cannot evaluate {t!r} numerically")


def _vars_of(t, out: set) -> None:
    if isinstance(t, int):
        return
    if t.op == "var":
        out.add(t.val)
    for x in t.args:
        _vars_of(x, out)


def same_terms(a, b, what: str = "") -> bool:
    """Equality of two terms: exact normal form when both are in the decidable class; otherwise a numeric witness can still
    prove them different (agreement at all sample points outside the class stays undecided: ANALYSIS-ERROR)."""
    if repr(a) == repr(b):
        return True  # syntactically identical terms
    try:
        return same(normalize(a), normalize(b), what)
    except AnalysisError as e:
        if "outside the decidable class" not in str(e) and "unsupported exponent" not in str(e):
            raise
        import random
        rng = random.Random(977)
        names: set = set()
        _vars_of(a, names)
        _vars_of(b, names)
        for _ in range(6):
            point = {n: rng.uniform(0.35, 1.25) for n in names}
            try:
                va, vb = eval_term(a, point), eval_term(b, point)
            except (ValueError, ZeroDivisionError, OverflowError):
                continue
            if abs(va - vb) > 1e-7 * max(1.0, abs(va), abs(vb)):
                return False
        raise
