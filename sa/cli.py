"""./check <ID> [--tier quick|thorough] [--replay <violation file>]"""
from __future__ import annotations

import argparse
import importlib
import json
import os
import sys
import traceback

from .core import AnalysisError, Run, Source, finish, VERIF

PROPERTIES = ["C01", "C02", "C03", "C04", "C05", "C06", "C07", "C08", "C09", "C10", "C11", "C12", "C13", "C14", "C15", "C16", "C18",
              "C19", "C20"]


def run_check(pid: str, tier: str, replay_key=None, src=None, write=True, quiet=False) -> tuple[int, Run]:
    mod = importlib.import_module(f"sa.rules.{pid.lower()}")
    src = src or Source()
    run = Run(pid, src, tier)
    try:
        mod.check(run)
    except AnalysisError as e:
        # a refusal further down does not retract what was already decided: findings on resolved constructs stand on their own
        from .core import load_known
        known = {(k["property"], k["key"]) for k in load_known().get("findings", [])}
        if not any((pid, f.key) not in known for f in run.findings):
            raise
        run.notes["incomplete"] = str(e)
        if not quiet:
            print(f"ANALYSIS-INCOMPLETE property={pid} {e} (the findings below were decided before the refusal)")
    code = finish(run, mod.EXPLANATION, mod.ASSUMPTIONS, mod.TRUSTED, replay_key=replay_key, write=write, quiet=quiet)
    return code, run


def main(argv=None) -> int:
    ap = argparse.ArgumentParser()
    ap.add_argument("pid")
    ap.add_argument("--tier", default=os.environ.get("VERIF_TIER") or "quick", choices=["quick", "thorough"])
    ap.add_argument("--replay", default=None)
    a = ap.parse_args(argv)
    pid = a.pid.upper()
    try:
        if pid not in PROPERTIES:
            raise AnalysisError(f"no check for {pid}")
        key = None
        if a.replay:
            key = json.loads(open(a.replay).read())["key"]
        code, _ = run_check(pid, a.tier, replay_key=key)
        return code
    except AnalysisError as e:
        print(f"ANALYSIS-ERROR property={pid} {e}")
        return 2
    except Exception:  # a crash of the analyser is never a verdict
        traceback.print_exc()
        print(f"ANALYSIS-ERROR property={pid} internal error (traceback above)")
        return 2


if __name__ == "__main__":
    sys.exit(main())
