"""C05 - quantity construction computes SI value and dimension, or refuses: the quantity collector and Quantity.__init__ evaluated
abstractly on expression trees (E3 by evaluation)."""
from __future__ import annotations

import ast
import itertools
from fractions import Fraction

from ..core import Run, AnalysisError, dotted, norm
from ..dim import World
from ..alg import T, num, var, op, app
from ..pyreader import Raised
from ..gate import GateReader, Dim, Fac, Obj, MagnitudeUse, quantity
from ..exprtree import Node, Leaves, CollectReader, spec_quantity, Refused, same_value, is_zero_term

EXPLANATION = (
    "collect_quantity.py is EVALUATED (sa/pyreader.py + sa/exprtree.py) on a family of a few hundred expression trees over quantities of "
    "three dimensions, a zero-valued quantity, a prefix, numbers (exact and floating point), a free symbol and an unevaluated derivative, "
    "with every node kind the property names (products, powers, sums, absolute value, min/max, elementary functions) at depth one and two. "
    "For each tree the answer - (scale factor term, dimension) or a refusal - is compared with what the property states: S1 the scale "
    "factor is the value of the expression on the leaves' SI values (exact normal form) and the dimension the dimensional product of the "
    "parts (a dimension raised to the exact value of the exponent, also when it is written as a float); S3 the tree is refused exactly "
    "when terms of a sum or min/max have inequivalent dimensions, an exponent or function argument is dimensional, or a free symbol or "
    "derivative remains - a zero-valued term never causes a refusal and never fixes the common dimension. Whatever the shape of the code "
    "(dispatch table or isinstance chain, loops or comprehensions, helpers, guard clauses), only its answers are judged. S4 "
    "Quantity.__init__ is evaluated on gate objects: the registered scale factor is the collected one itself, the registered dimension the "
    "explicit or the collected one, nothing is registered for a non-numeric scale, and an explicit dimension that contradicts a "
    "dimensional expression is refused. K5 (shared with C04) decides the any-dimension predicate. NOT decided: SymPy's own arithmetic on "
    "the scale factors (automatic evaluation of Mul/Add/Pow/Min/Max on numbers) and expression kinds outside the family.")
ASSUMPTIONS = ["SymPy's Mul/Add/Pow args, equivalent_dims and is_dimensionless behave as documented",
               "SymPy evaluates arithmetic on numeric scale factors correctly"]
TRUSTED = ["sympy expression tree API", "python ast", "sa/pyreader.py abstract evaluator", "sa/alg.py normal form"]

CQ = "symplyphysics.core.dimensions.collect_quantity"
QM = "symplyphysics.core.symbols.quantities"


def float_num(x) -> T:
    """Float(x): a number whose is_Float is true and which nsimplify(rational=True) turns into the exact x (an int or a Fraction)"""
    return app("Float", num(x))


class QReader(CollectReader):
    """+ floating point numbers as app("Float", exact value)"""

    def hook_attr(self, base, attr, n):
        if isinstance(base, T) and attr == "is_Float":
            return base.op == "app" and base.val == "Float"
        return super().hook_attr(base, attr, n)

    def hook_call(self, n, env, fns):
        name = (dotted(n.func) or "").split(".")[-1]
        if name in ("nsimplify", "Rational", "Integer") and n.args and name not in self.functions:
            v = self.ev(n.args[0], env, fns)
            kw_ = {k.arg: self.ev(k.value, env, fns) for k in n.keywords if k.arg}
            tol = kw_.get("tolerance")
            if name == "nsimplify" and tol is not None:
                # SymPy: a tolerance < 1 replaces every Float by Rational(x).limit_denominator(ceiling(1/tolerance)) - the nearest small fraction, not the number
                tv = tol.val if isinstance(tol, T) and tol.op == "num" else (Fraction(tol) if isinstance(tol, int) else None)
                if tv is None or not (0 < tv < 1) or not (isinstance(v, T) and v.op == "app" and v.val == "Float" and v.args[0].op == "num"):
                    return app("nsimplify_with_tolerance", v if isinstance(v, T) else num(v))
                import math
                return num(Fraction(v.args[0].val).limit_denominator(math.ceil(1 / tv)))
            if name == "Rational" and len(n.args) == 1 and isinstance(v, T) and v.op == "app" and v.val == "Float" and v.args[0].op == "num":
                # Rational(Float) is the exact BINARY value of the float (0.1 -> 3602879701896397/36028797018963968), not the decimal it was written as
                return num(Fraction(float(v.args[0].val)))
            if isinstance(v, T) and v.op == "app" and v.val == "Float":
                return v.args[0]
            return v
        if name == "is_number" and len(n.args) == 1 and name not in self.functions:
            v = self.ev(n.args[0], env, fns)
            if isinstance(v, T) and v.op == "app" and v.val == "Float":
                return True
        return super().hook_call(n, env, fns)

    def hook_binop(self, o, l, r, n):
        if isinstance(l, Dim) and isinstance(o, ast.Pow) and isinstance(r, T) and r.op == "app" and r.val == "Float":
            return l if l.dimensionless() else ("dim-float-power", l, repr(r.args[0]))  # Dimension(length**2.0): not equivalent to length**2 (SymPy >= 1.13)
        return super().hook_binop(o, l, r, n)


def strip_float(t):
    if isinstance(t, T):
        if t.op == "app" and t.val == "Float":
            return t.args[0]
        return T(t.op, tuple(strip_float(a) for a in t.args), t.val)
    return t


def tree_family(lv: Leaves, deep: bool = False) -> list:
    L, Tm, M = Dim.of(length=1), Dim.of(time=1), Dim.of(mass=1)
    a, b, c, m_ = lv.quantity("a", L), lv.quantity("b", L), lv.quantity("c", Tm), lv.quantity("m", M)
    z, k, x = lv.quantity("z", Tm, zero=True), lv.prefix("k"), lv.free("x")
    half = num(Fraction(1, 2))
    ratio = Node("Mul", [a, Node("Pow", [b, -1])])  # dimensionless, non-zero
    out = []

    def add(label, t):
        out.append((label, t))

    leaves = [("a", a), ("b", b), ("c", c), ("z", z), ("k", k), ("2", 2), ("0", 0), ("a/b", ratio)]
    for (n1, t1), (n2, t2) in itertools.product(leaves, repeat=2):
        for cls in ("Mul", "Add", "Min", "Max"):
            add(f"{cls}({n1}, {n2})", Node(cls, [t1, t2]))
    for (n1, t1), (n2, t2), (n3, t3) in [(leaves[0], leaves[2], leaves[4]), (leaves[3], leaves[0], leaves[1]), (leaves[0], leaves[3], leaves[2]), (leaves[5], leaves[0], leaves[1]),
                                         (leaves[2], leaves[0], leaves[1]), (leaves[0], leaves[1], leaves[2]), (leaves[6], leaves[3], leaves[0]), (leaves[3], leaves[6], leaves[3])]:
        for cls in ("Mul", "Add", "Min", "Max"):
            add(f"{cls}({n1}, {n2}, {n3})", Node(cls, [t1, t2, t3]))
    # 1.6667: a float that is no small fraction (an adiabatic index written with four decimals): its exact value is 16667/10000, the nearest "nice" fraction 5/3 is another number
    exps = [("2", 2), ("-1", -1), ("1/2", half), ("2.0", float_num(2)), ("1.6667", float_num(Fraction(16667, 10000))), ("c", c), ("z", z), ("a/b", ratio), ("0", 0)]
    for (nb, tb), (ne, te) in itertools.product([("a", a), ("c", c), ("2", 2), ("z", z), ("a*c", Node("Mul", [a, c])), ("a/b", ratio)], exps):
        add(f"Pow({nb}, {ne})", Node("Pow", [tb, te]))
    for nm, t in leaves + [("a+b", Node("Add", [a, b])), ("a+c", Node("Add", [a, c]))]:
        add(f"Abs({nm})", Node("Abs", [t]))
        add(f"sin({nm})", Node("Function", [t], name="sin"))
    add("atan2(a/b, 2)", Node("Function", [ratio, 2], name="atan2"))
    add("atan2(a, 2)", Node("Function", [a, 2], name="atan2"))
    add("atan2(2, c)", Node("Function", [2, c], name="atan2"))
    # arguments that agree in dimension are dimensional all the same
    add("atan2(a, b)", Node("Function", [a, b], name="atan2"))
    add("atan2(a, 2*b)", Node("Function", [a, Node("Mul", [2, b])], name="atan2"))
    add("atan2(z, c)", Node("Function", [z, c], name="atan2"))
    add("free symbol", x)
    add("x*a", Node("Mul", [x, a]))
    add("a + x", Node("Add", [a, x]))
    add("Derivative", Node("Derivative", [a, [x, 1]]))
    add("a*Derivative", Node("Mul", [a, Node("Derivative", [a, [x, 1]])]))
    # depth two: every node kind over compound children
    compound = [("a*b", Node("Mul", [a, b])), ("a+b", Node("Add", [a, b])), ("a/b", ratio), ("z*a", Node("Mul", [z, a])), ("Abs(c)", Node("Abs", [c])), ("Min(a, b)", Node("Min", [a, b])),
                ("a**2", Node("Pow", [a, 2])), ("a+c", Node("Add", [a, c])), ("sqrt(a*b)", Node("Pow", [Node("Mul", [a, b]), half])), ("(a*b)**1.0", Node("Pow", [Node("Mul", [a, b]), float_num(1)]))]
    partners = [("a", a), ("c", c), ("2", 2), ("z", z), ("a*b", Node("Mul", [a, b]))]
    for (n1, t1), (n2, t2) in itertools.product(compound, partners):
        for cls in ("Mul", "Add", "Max"):
            add(f"{cls}({n1}, {n2})", Node(cls, [t1, t2]))
            add(f"{cls}({n2}, {n1})", Node(cls, [t2, t1]))
    for n1, t1 in compound:
        add(f"Pow({n1}, 2)", Node("Pow", [t1, 2]))
        add(f"Pow(m, {n1})", Node("Pow", [m_, t1]))
        add(f"Abs({n1})", Node("Abs", [t1]))
        add(f"exp({n1})", Node("Function", [t1], name="exp"))
    if deep:
        # thorough: compound x compound at depth three, every sum-like and product node kind
        for (n1, t1), (n2, t2) in itertools.product(compound, repeat=2):
            for cls in ("Mul", "Add", "Min", "Max"):
                add(f"{cls}({n1}, {n2})", Node(cls, [t1, t2]))
            add(f"Pow({n1}, {n2})", Node("Pow", [t1, t2]))
    return out


def _collector(run: Run) -> None:
    m = run.src.need(CQ)
    lv = Leaves()
    misc = run.src.need("symplyphysics.core.dimensions.miscellaneous")
    # helpers of the sibling module the collectors import (followed into their source); the predicates K5 decides keep their hooks
    misc_functions = {f_.name: f_ for f_ in misc.tree.body if isinstance(f_, ast.FunctionDef) and f_.name not in ("is_any_dimension", "is_number")}
    fam = tree_family(lv, run.tier == "thorough")
    run.require(len(fam) >= 400, "tree family shrank")
    reported = set()
    for label, tree in fam:
        try:
            want = spec_quantity(tree, lv)
        except Refused as e:
            want = e
        except AnalysisError:
            continue  # outside what the specification function decides
        R = QReader(m.tree, "collect_quantity.py", lv)
        R.extern_functions = misc_functions
        try:
            got = R.call("collect_quantity_factor_and_dimension", [tree])
        except Raised as r:
            got = r
        rid = "S3" if isinstance(want, Refused) or isinstance(got, Raised) else "S1"
        run.ob(rid, label)
        problem = None
        if isinstance(want, Refused):
            if not isinstance(got, Raised):
                problem = f"is accepted (answer {got!r}) although {want}: the property demands a refusal"
        elif isinstance(got, Raised):
            problem = f"is refused ({got.exc}) although every sum-like node has terms of one dimension (zero-valued terms aside), exponents and function arguments are dimensionless and no symbol remains"
        else:
            wv, wd = want
            if not (isinstance(got, list) and len(got) == 2):
                problem = f"answers {got!r}, not a (scale factor, dimension) pair"
            else:
                gv, gd = got
                if not (isinstance(gv, (T, int)) and same_value(strip_float(gv), strip_float(wv))):
                    problem = f"has scale factor {gv!r}; the value of the expression on the SI values of its leaves is {wv!r}"
                elif wd is not None and not (isinstance(wd, tuple) and wd[0] == "opaque-dim") and not (gd == wd or (isinstance(gd, Dim) and isinstance(wd, Dim) and gd.exps == wd.exps)):
                    problem = f"has dimension {gd!r}; the dimensional product of its parts is {wd!r}" + \
                        (" (a float exponent as written gives a dimension SymPy does not consider equivalent to the exact one)" if isinstance(gd, tuple) and gd[0] == "dim-float-power" else "")
        if problem:
            kind = (rid, problem.split(";")[0][:60], getattr(tree, "cls", "leaf"))
            if kind in reported:
                continue
            reported.add(kind)
            run.violate(rid, f"{CQ}:collect_quantity_factor_and_dimension:{label}", m, m.tree, f"Quantity collector: `{label}` {problem}")
    run.sample({"collector": CQ, "trees": len(fam)})


class InitReader(GateReader):

    def __init__(self, module, where):
        super().__init__(module, where)
        self.registered: dict = {}
        self.super_init = None
        self.collected = None

    def hook_call(self, n, env, fns):
        f = dotted(n.func) or ""
        name = f.split(".")[-1]
        if name == "collect_quantity_factor_and_dimension" and len(n.args) == 1 and name not in self.functions:
            self.ev(n.args[0], env, fns)
            return list(self.collected)
        if name == "get_dimension_system" and not n.args:
            return ("dimsys", )
        if name in ("set_quantity_dimension", "set_quantity_scale_factor") and len(n.args) == 2:
            who, what = self.ev(n.args[0], env, fns), self.ev(n.args[1], env, fns)
            self.registered.setdefault(name, []).append((who, what))
            return None
        if isinstance(n.func, ast.Attribute) and n.func.attr == "__init__" and isinstance(n.func.value, ast.Call) and dotted(n.func.value.func) == "super":
            self.super_init = ([self.ev(a, env, fns) for a in n.args], {k.arg: self.ev(k.value, env, fns) for k in n.keywords if k.arg})
            return None
        return super().hook_call(n, env, fns)


def _quantity_init(run: Run) -> None:
    from .c11 import _methods_module
    qm = run.src.need(QM)
    mm = _methods_module(qm, "Quantity")
    L, Tm, ANG = Dim.of(length=1), Dim.of(time=1), Dim.of(angle=1)
    scales = {"finite": Fac("finite", "s"), "zero": Fac("zero", "s"), "symbolic": Fac("symbolic", "s")}
    cases = []
    for sk, sc in scales.items():
        for cd_name, cd in (("dimensionless", Dim()), ("length", L), ("angle", ANG)):
            for ed_name, ed in (("no explicit dimension", None), ("explicit length", L), ("explicit time", Tm)):
                cases.append((f"{sk} scale, collected {cd_name}, {ed_name}", sc, cd, ed))
    for label, sc, cd, ed in cases:
        run.ob("S4", label)
        R = InitReader(mm, "quantities.py")
        R.collected = (sc, cd)
        me = Obj("Quantity", {"name": "QTY"}, "self")
        try:
            R.call("__init__", [me, "EXPR"], {"dimension": ed})
            raised = None
        except Raised as r:
            raised = r
        except MagnitudeUse as mu:
            run.violate("S4", f"{QM}:Quantity.__init__:magnitude:{norm(mu.node, 40)}", qm, mu.node, f"Quantity.__init__ ({label}): {mu.what} - construction depends on the magnitude")
            continue
        must_refuse = None
        if sc.kind == "symbolic":
            must_refuse = "the collected scale is not a number (a free symbol remains)"
        elif ed is not None and sc.kind != "zero" and not cd.erased().dimensionless() and cd.erased() != ed.erased():
            must_refuse = f"the expression has dimension {cd!r} of its own and the explicit dimension is {ed!r}: it would be relabelled"
        problem = None
        regs = R.registered
        if must_refuse:
            if raised is None:
                problem = f"is accepted although {must_refuse}"
            elif regs:
                problem = f"registers {sorted(regs)} before refusing"
        elif raised is not None:
            problem = f"is refused ({raised.exc}) although the scale is numeric and the dimensions agree"
        else:
            want_dim = ed if ed is not None else cd
            sd, ss = regs.get("set_quantity_dimension", []), regs.get("set_quantity_scale_factor", [])
            if len(sd) != 1 or len(ss) != 1:
                problem = f"registers dimension {len(sd)} time(s) and scale factor {len(ss)} time(s) with the unit system"
            elif sd[0][0] is not me or ss[0][0] is not me:
                problem = "registers something else than the quantity under construction"
            elif ss[0][1] is not sc:
                problem = f"registers the scale factor {ss[0][1]!r}, which is not the collected factor of the expression unchanged"
            elif not (isinstance(sd[0][1], Dim) and sd[0][1] == want_dim):
                problem = f"registers dimension {sd[0][1]!r}; the {'explicit' if ed is not None else 'collected'} dimension is {want_dim!r}"
            elif R.super_init is None or not any(isinstance(x, Dim) and x == want_dim for x in list(R.super_init[0]) + list(R.super_init[1].values())):
                problem = f"does not hand the dimension {want_dim!r} to the DimensionSymbol initialiser"
        if problem:
            run.violate("S4", f"{QM}:Quantity.__init__:{label}", qm, qm.tree, f"Quantity.__init__, {label}: {problem}")
    run.sample({"constructor": QM + ":Quantity.__init__", "cases": len(cases)})


def check(run: Run) -> None:
    run.rule("S1", "the collector's answer for a tree is (value of the expression on the leaves' SI values, dimensional product of the parts), exponents taken exactly")
    run.rule("S3", "a tree is refused exactly when a sum/min/max has terms of inequivalent dimensions (zero-valued terms aside), an exponent or function argument is dimensional, "
             "or a free symbol / unevaluated derivative remains")
    run.rule("S4", "Quantity.__init__ registers the collected scale factor itself and the explicit-or-collected dimension, nothing for a non-numeric scale, and refuses an explicit "
             "dimension that contradicts a dimensional expression")
    w = World(run.src)
    from .c04 import _k5
    _k5(run, w)  # the any-dimension predicate itself (shared with C04): exactly {0, +oo, -oo, zoo, NaN}, magnitude independent
    _collector(run)
    _quantity_init(run)
