"""C05 - quantity construction computes SI value and dimension, or refuses: structure of the quantity collector (E3)."""
from __future__ import annotations

import ast

from ..core import Run, AnalysisError, dotted, norm
from ..dim import World
from ..flow import CFG, Fn, node_calls, node_of, conditions_for, stmt_of
from .collectors import CQ, run_collector_rules, homomorphism, _fn, sum_like_discipline

EXPLANATION = (
    "Structural necessary conditions of a compositional collector, decided on collect_quantity.py and Quantity.__init__: "
    "S1 children coverage - in every handler of the dispatch table each child of the node (args, base, exp) is passed, itself, to "
    "the recursive collector on every path (a child whose dimension is never asked for cannot influence the result); S2 the "
    "first-match dispatch table handles Mul, Pow, Add, Abs, Min/Max, Derivative, Function and lists no class before its subclass; "
    "S3 sum-like handlers (Add, Min/Max) compare with equivalent_dims, consult the any-dimension escape for both operands and "
    "refuse with an error; Pow and Function demand dimensionless exponent/arguments; S4 unevaluated derivatives and free symbols "
    "are refused, and Quantity.__init__ tests complex(scale) before both SI.set_quantity_* calls; S6 homomorphism shape - the "
    "Mul/Add/Pow handlers combine child values with their own operator only and child dimensions with * / ** exponent-value / "
    "nothing. The value-level statement (scale factor equals the SI value for all expression trees) is not decided.")
ASSUMPTIONS = ["SymPy's Mul/Add/Pow args, equivalent_dims and is_dimensionless behave as documented",
               "the value-level arithmetic beyond operator kind is not examined"]
TRUSTED = ["sympy expression tree API", "python ast"]


def _has_raise_under(fn: ast.FunctionDef, pred) -> bool:
    scopes = [fn] + [x for x in ast.walk(fn) if isinstance(x, ast.FunctionDef) and x is not fn]
    for sc in scopes:
        for r in [x for x in ast.walk(sc) if isinstance(x, ast.Raise)]:
            conds = conditions_for(sc, r) or []
            if any(not isinstance(t, str) and pred(t, p) for t, p in conds):
                return True
    return False


def _calls(e: ast.AST) -> list[str]:
    return [dotted(c.func) or "" for c in ast.walk(e) if isinstance(c, ast.Call)]


def sum_like_rules(run: Run, mod, fn: ast.FunctionDef, label: str) -> None:
    run.ob("S3", f"{mod.name}:{label}:any-dimension")
    anyd = [c for c in ast.walk(fn) if isinstance(c, ast.Call) and dotted(c.func) == "is_any_dimension"]
    operands = {norm(c.args[0]) for c in anyd if c.args}
    if len(operands) < 2:
        run.violate("S3", f"{mod.name}:{label}:any-dimension", mod, fn,
                    f"the {label} handler consults the any-dimension escape for {sorted(operands) or 'no operand'}: a zero/infinite/NaN term on the other side is refused wrongly")
    run.ob("S3", f"{mod.name}:{label}:equivalence")
    if not _has_raise_under(fn, lambda t, p: "dimsys_SI.equivalent_dims" in _calls(t) and ((isinstance(t, ast.UnaryOp) and isinstance(t.op, ast.Not) and p is True) or (not isinstance(t, ast.UnaryOp) and p is False))):
        run.violate("S3", f"{mod.name}:{label}:equivalence", mod, fn, f"the {label} handler no longer refuses operands whose dimensions fail dimsys_SI.equivalent_dims")


def check(run: Run) -> None:
    run.rule("S1", "every child of the node is passed, itself, to the recursive collector on every path of its handler")
    run.rule("S2", "dispatch table complete; no class listed before its subclass; first-match dispatch loop")
    run.rule("S3", "sum-like handlers: equivalent_dims refusal + any-dimension escape for both operands; Pow/Function demand dimensionless exponent/arguments")
    run.rule("S4", "unevaluated derivatives and non-numbers are refused; Quantity.__init__ tests complex(scale) before registering the quantity")
    run.rule("S6", "Mul/Add/Pow handlers combine child values with their own operator and child dimensions with * / ** / nothing")
    w = World(run.src)
    from .c04 import _k5
    _k5(run, w)  # the any-dimension predicate itself (shared with C04): exactly {0, +oo, -oo, NaN}, magnitude independent
    info = run_collector_rules(run, w, CQ, None)
    mod, h = info["mod"], info["handlers"]
    if any(k not in h for k in ("Mul", "Add", "Pow", "Derivative", "SymFunction", "SymQuantity", "Prefix")):
        return  # a missing dispatch entry is reported by S2; the handler-specific rules have nothing to look at
    # S3
    sum_like_discipline(run, mod, h["Add"], "Add", "collect_quantity_factor_and_dimension")
    mm = h.get("MinMaxBase") or h.get("Min")
    if mm is not None:  # absence is reported by S2
        sum_like_discipline(run, mod, mm, "Min/Max", "collect_quantity_factor_and_dimension")
    for cls, what in (("Pow", "exponent"), ("SymFunction", "argument")):
        if cls not in h:
            continue
        fn = h[cls]
        run.ob("S3", f"{mod.name}:{cls}:dimensionless-{what}")
        raises = [x for x in ast.walk(fn) if isinstance(x, ast.Raise)]
        tests = [t for t in ast.walk(fn) if isinstance(t, ast.If) and "dimsys_SI.is_dimensionless" in _calls(t.test) and "is_any_dimension" in _calls(t.test)]
        if not raises or not tests:
            run.violate("S3", f"{mod.name}:{cls}:dimensionless-{what}", mod, fn, f"the {cls} handler no longer refuses a dimensional {what} (test on is_dimensionless/is_any_dimension + raise)")
        else:
            # the raise must be reachable exactly when the test fails: every normal return is under the test (True) or the raise under (False)
            cfg = CFG(fn)
            for r in cfg.returns():
                conds = conditions_for(fn, r.ast) or []
                def established(t, p) -> bool:
                    """the path condition (t, p) says that the admission test holds: `if test:` taken, or `if not test: raise` passed"""
                    if isinstance(t, str) or t is not tests[0].test:
                        return False
                    negated = isinstance(t, ast.UnaryOp) and isinstance(t.op, ast.Not)
                    return (p is True and not negated) or (p is False and negated)
                if cls == "Pow" and not any(established(t, p) for t, p in conds):
                    run.violate("S3", f"{mod.name}:{cls}:unguarded-return", mod, r.ast, f"the {cls} handler returns a result without having tested that the {what} is dimensionless")
    # S4
    ud = h["Derivative"]
    run.ob("S4", "unevaluated-derivative")
    cfg = CFG(ud)
    if cfg.normal_exits():
        run.violate("S4", f"{mod.name}:{ud.name}:returns", mod, ud, "the Derivative handler of the quantity collector can return: an unevaluated derivative is no longer refused")
    dflt = _fn(mod, "_collect_default")
    run.ob("S4", "default-refuses-non-numbers")
    if not _has_raise_under(dflt, lambda t, p: "is_number" in _calls(t) and ((isinstance(t, ast.UnaryOp) and p is True) or (not isinstance(t, ast.UnaryOp) and p is False))):
        run.violate("S4", f"{mod.name}:_collect_default:refusal", mod, dflt, "_collect_default no longer raises for a non-number (free symbol)")
    ent = _fn(mod, "collect_quantity_factor_and_dimension")
    run.ob("S4", "default-is-fallback")
    ecfg = CFG(ent)
    last = [r for r in ecfg.returns() if not r.lexical_tests]
    if not last or not all(isinstance(r.ast.value, ast.Call) and dotted(r.ast.value.func) == "_collect_default" for r in last):
        run.violate("S4", f"{mod.name}:entry:fallback", mod, ent, "nodes without a handler no longer fall through to _collect_default")
    q = Fn(w, "symplyphysics.core.symbols.quantities", "Quantity.__init__")
    sets = [(n, c) for n in q.cfg.stmt_nodes() for c in node_calls(n) if dotted(c.func) in ("SI.set_quantity_dimension", "SI.set_quantity_scale_factor")]
    run.require(len(sets) == 2, "Quantity.__init__ no longer registers dimension and scale factor with SI")
    cplx = [n for n in q.cfg.stmt_nodes() for c in node_calls(n) if dotted(c.func) == "complex"]
    for n, c in sets:
        run.ob("S4", f"Quantity.__init__:{dotted(c.func)}")
        if not q.cfg.dominated_by(n, lambda y: y in cplx):
            run.violate("S4", f"{q.qual}:{dotted(c.func)}:unchecked", q.mod, c, "the quantity is registered without the complex(scale) numeric check having passed")
    tr = [x for x in ast.walk(q.fn) if isinstance(x, ast.Try)]
    run.ob("S4", "Quantity.__init__:refusal")
    if not any(any(isinstance(y, ast.Raise) for hd in t.handlers for y in ast.walk(hd)) and any(dotted(c.func) == "complex" for s in t.body for c in ast.walk(s) if isinstance(c, ast.Call)) for t in tr):
        run.violate("S4", f"{q.qual}:refusal", q.mod, q.fn, "a failing complex(scale) no longer leads to a raise")
    for n, c in sets:
        if dotted(c.func) == "SI.set_quantity_scale_factor" and len(c.args) == 2:
            run.ob("S4", "Quantity.__init__:scale-is-collected")
            sl = q.slice(n, c.args[1])
            touched = sorted(sl.calls - {"collect_quantity_factor_and_dimension", "sympify", "S"})
            if "collect_quantity_factor_and_dimension" not in sl.calls or "expr" not in sl.params or touched \
                    or any(isinstance(x, (ast.BinOp, ast.UnaryOp)) and not isinstance(getattr(x, "op", None), ast.Not) for e in sl.exprs for x in ast.walk(e)):
                run.violate("S4", f"{q.qual}:scale", q.mod, c,
                            "the registered scale factor is not the collected factor of `expr` unchanged"
                            + (f": it passes through {touched} on some path (rounding, dropping a part or re-scaling changes the SI value the quantity stands for)" if touched else ""))
        if dotted(c.func) == "SI.set_quantity_dimension" and len(c.args) == 2:
            run.ob("S4", "Quantity.__init__:dimension-is-collected")
            sl = q.slice(n, c.args[1])
            if "collect_quantity_factor_and_dimension" not in sl.calls or "dimension" not in sl.params:
                run.violate("S4", f"{q.qual}:dimension", q.mod, c, "the registered dimension is neither the explicit `dimension` nor the collected one")
    # an explicit dimension= does not relabel an expression that has a dimension of its own: the collected dimension is compared with it, and a mismatch raises
    run.ob("S4", "Quantity.__init__:explicit-dimension-checked")
    collected_names = set()
    for n_ in q.cfg.stmt_nodes():
        a_ = n_.ast
        if isinstance(a_, ast.Assign) and isinstance(a_.value, ast.Call) and dotted(a_.value.func) == "collect_quantity_factor_and_dimension" \
                and isinstance(a_.targets[0], ast.Tuple) and len(a_.targets[0].elts) == 2 and isinstance(a_.targets[0].elts[1], ast.Name):
            collected_names.add(a_.targets[0].elts[1].id)
    relabel_guard = False
    for t_ in [n_ for n_ in q.cfg.stmt_nodes() if n_.kind == "test" and isinstance(n_.ast, ast.If)]:
        if not any(isinstance(x, ast.Raise) for st_ in t_.ast.body for x in ast.walk(st_)):
            continue
        sl_ = q.slice(t_, t_.ast.test, control=True)
        names_ = {x.id for e_ in sl_.exprs for x in ast.walk(e_) if isinstance(x, ast.Name)} | sl_.params
        if any(c_.endswith("equivalent_dims") for c_ in sl_.calls) and "dimension" in names_ and (collected_names & names_ or "collect_quantity_factor_and_dimension" in sl_.calls):
            if all(q.cfg.dominated_by(n_, lambda y, t_=t_: y is t_) or any(tt is t_ for tt, _ in t_.lexical_tests) for n_, c_ in sets if dotted(c_.func) == "SI.set_quantity_dimension"):
                relabel_guard = True
            # the guard may itself sit under `if dimension is not None`: then dominance is by the outer test; accept when every setter comes after it in the function
            elif all(getattr(n_.ast, "lineno", 0) > getattr(t_.ast, "lineno", 0) for n_, c_ in sets):
                relabel_guard = True
    if not relabel_guard:
        run.violate("S4", f"{q.qual}:explicit-dimension-relabels", q.mod, q.fn,
                    "Quantity(expr, dimension=d) registers d without comparing it with the dimension collected from expr: Quantity(0.44 * units.second, dimension=units.length) "
                    "is a length - a dimensional expression is silently relabelled instead of refused")
    # S6
    homomorphism(run, mod, "Mul", h["Mul"], {"Mult"}, {"Mult"})
    homomorphism(run, mod, "Add", h["Add"], {"Add"}, set())
    homomorphism(run, mod, "Pow", h["Pow"], {"Pow"}, {"Pow"})
    # Pow: the dimension is raised to the exponent's *value*
    for cfg2, r, fe, de in __import__("sa.rules.collectors", fromlist=["returned_pairs"]).returned_pairs(h["Pow"]):
        run.ob("S6", "Pow:dimension-exponent")
        if not (isinstance(fe, ast.BinOp) and isinstance(de, ast.BinOp) and isinstance(fe.op, ast.Pow) and isinstance(de.op, ast.Pow)
                and __import__("sa.rules.collectors", fromlist=["same_exponent"]).same_exponent(cfg2, r, fe.right, de.right)):
            run.violate("S6", f"{mod.name}:_collect_pow:exponent", mod, r.ast, f"Pow handler returns ({norm(fe, 40)}, {norm(de, 40)}): value and dimension are not raised to the same exponent value")
        elif not any(c_.split(".")[-1] in ("nsimplify", "Rational") for c_ in cfg2.slice(r, [de.right]).calls):
            run.violate("S6", f"{mod.name}:_collect_pow:float-exponent", mod, r.ast,
                        "the dimension is raised to the exponent as written: a float exponent (area**0.5, meter**2.0) gives Dimension(length**1.0), which SymPy (Float(1.0) != 1) does "
                        "not consider equivalent to length - the verdict depends on how the number is written; the dimension's exponent must be made exact (nsimplify / Rational)")
    # leaves
    for cls, attr in (("SymQuantity", "dimension"), ("Prefix", None)):
        fn = h[cls]
        run.ob("S6", f"leaf:{cls}")
        for cfg2, r, fe, de in __import__("sa.rules.collectors", fromlist=["returned_pairs"]).returned_pairs(fn):
            if dotted(fe) != f"{fn.args.args[0].arg}.scale_factor" or (attr and dotted(de) != f"{fn.args.args[0].arg}.{attr}") or (attr is None and dotted(de) != "dimensionless"):
                run.violate("S6", f"{mod.name}:{fn.name}:leaf", mod, r.ast, f"the {cls} leaf returns ({norm(fe, 40)}, {norm(de, 40)}) instead of (scale factor, {'its dimension' if attr else 'dimensionless'})")
