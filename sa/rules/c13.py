"""C13 - circulation and flux integrals: the integrands are the differential forms of Stokes' / Green's / Gauss' theorems (E4).

Only this structural clause is decided; the agreement of the two sides of each theorem for all fields and regions is mathematics
(trusted) plus sympy.integrate / simplify (trusted)."""
from __future__ import annotations

import ast

from ..core import Run, AnalysisError, dotted, norm
from ..alg import T, num, var, op, fun, app, normalize, same, substitute
from ..alg import same_terms as _same_terms
from ..pyreader import PyReader, VVal, Sys, Raised, term_has
from .c12 import H
from .c11 import SubsReader, _Point, scalars_of, _methods_module, _generic_expr
from ..reader import SYSTEMS

EXPLANATION = (
    "core/fields/analysis.py (with geometry/elements.py, geometry/normals.py and vectors/arithmetics.py, which it calls) is evaluated "
    "abstractly with a generic field value A = F(r(.)) and generic parametrisations r(t), r(u, v) given as undefined functions; every "
    "call of sympy.integrate is captured as (integrand, [(variable, from, to), ...]). Decided in exact normal form: J1 the circulation "
    "integrand is A . dr/dt over (t, a, b); J2 the surface-flux integrand is A . (r_u x r_v) with each parameter paired with its own "
    "limits; J3 circulation over a surface is the surface flux of curl_operator(field) over the same surface and limits; J4 the planar "
    "flux integrand (A . n_hat) |dr/dt| equals A_x y' - A_y x'; J5 the planar divergence integrand is div F |r_u x r_v|; J6 the volume "
    "integrand is div F times the Jacobian h1 h2 h3 of the coordinate system, integrated over z, y, x with each variable paired with "
    "its own limits. With these forms, parametrisation-speed independence and the sign change under orientation reversal are "
    "properties of the forms themselves, and Stokes'/Green's/Gauss' theorems state the equalities. J7 no assumption-forcing "
    "simplification (posify, force=True) on the way to an integrand. NOT decided: that "
    "sympy.integrate / simplify evaluate the integrals correctly (so the numerical agreement itself), nor the laws/fields wrappers' "
    "unit handling.")
ASSUMPTIONS = ["Stokes', Green's and Gauss' theorems (mathematics)", "sympy.integrate, simplify, sympy.vector differentiation are correct",
               "curl_operator / divergence_operator are the true operators (C12)"]
TRUSTED = ["vector calculus theorems", "sympy.integrate", "python ast", "sa/pyreader.py abstract evaluator", "sa/alg.py normal form"]

AN = "symplyphysics.core.fields.analysis"
MODS = ["symplyphysics.core.vectors.arithmetics", "symplyphysics.core.geometry.elements", "symplyphysics.core.geometry.normals", AN]


def same_terms(a, b, what: str = "") -> bool:
    """an integrand that divides by an identically vanishing term (the unit vector of a zero normal) is no value at all"""
    try:
        return _same_terms(a, b, what)
    except ZeroDivisionError:
        return False


class Field:
    """opaque vector field F: apply(point) yields the generic values F_i(point); curl/div yield fields / expressions that are
    again generic functions of the point"""

    def __init__(self, system: Sys, value: list, tag: str = "F"):
        self.system, self.value, self.tag = system, value, tag

    uniform = False  # a uniform field has the same value at every point (and constant curl / divergence)

    def at(self, point: list) -> list:
        if self.uniform:
            return [var(f"{self.tag}{i}") for i in range(3)]
        p = list(point) + [num(0)] * (3 - len(point))
        return [app(f"{self.tag}{i}", *p[:3]) for i in range(3)]


class ScalarFieldObj:
    """a scalar field given by an expression in the base scalars of its system (ScalarField.from_expression)"""

    def __init__(self, system: Sys, expr):
        self.system, self.expr = system, expr


class AnalysisReader(PyReader):

    def __init__(self, module, where):
        super().__init__(module, where, depth_limit=8)
        self.integrals = []

    def hook_call(self, n, env, fns):
        f = dotted(n.func) or ""
        name = f.split(".")[-1]
        if isinstance(n.func, ast.Attribute):
            base_node = n.func.value
            if n.func.attr == "apply":
                base = self.ev(base_node, env, fns)
                if isinstance(base, Field):
                    pt = self.ev(n.args[0], env, fns)
                    if not isinstance(pt, list):
                        self.fail(n, "field applied to something that is not a list of coordinates")
                    return VVal(base.at([self.scalar(x, n) for x in pt]), base.system)
                if isinstance(base, ScalarFieldObj):
                    # ScalarField.apply -> __call__ -> _subs_with_point: every base scalar replaced at once by the coordinate, 0 when missing (C11-T7/T8)
                    pt = self.ev(n.args[0], env, fns)
                    if not isinstance(pt, list):
                        self.fail(n, "field applied to something that is not a list of coordinates")
                    p = [self.scalar(x, n) for x in pt] + [num(0)] * (3 - len(pt))
                    return substitute(self.scalar(base.expr, n), {nm: p[k] for k, nm in enumerate(SYSTEMS[base.system.kind])})
            if f in ("ScalarField.from_expression", ) and len(n.args) == 2:
                e, cs = self.ev(n.args[0], env, fns), self.ev(n.args[1], env, fns)
                if isinstance(cs, Sys):
                    return ScalarFieldObj(cs, e)
            if n.func.attr == "to_sympy_vector" and not n.args:
                v = self.ev(base_node, env, fns)
                if isinstance(v, VVal):
                    return v
            if f == "Vector.from_sympy_vector" and len(n.args) == 2:
                v = self.ev(n.args[0], env, fns)
                cs = self.ev(n.args[1], env, fns)
                if isinstance(v, VVal) and isinstance(cs, Sys):
                    return VVal(list(v.components), cs)
            if n.func.attr == "base_scalars" and not n.args:
                cs = self.ev(base_node, env, fns)
                if isinstance(cs, Sys):
                    return [var(x) for x in SYSTEMS[cs.kind]]
        if name == "diff" and len(n.args) == 2:
            v = self.ev(n.args[0], env, fns)
            p = self.ev(n.args[1], env, fns)
            if isinstance(v, VVal):
                return VVal([op("diff", c, p) for c in v.components], v.system)
        if name == "curl_operator" and len(n.args) == 1:
            fld = self.ev(n.args[0], env, fns)
            if isinstance(fld, Field):
                cf = Field(fld.system, [], tag="curl" + fld.tag)
                cf.uniform = fld.uniform
                return cf
        if name == "divergence_operator" and len(n.args) == 1:
            fld = self.ev(n.args[0], env, fns)
            if isinstance(fld, Field):
                # an expression in the base scalars of the field's system
                if fld.uniform:
                    return var(f"div{fld.tag}")
                return app(f"div{fld.tag}", *[var(x) for x in SYSTEMS[fld.system.kind]])
        if name == "integrate" and len(n.args) >= 2 and not isinstance(n.args[0], ast.Starred):
            integrand = self.ev(n.args[0], env, fns)
            limits = []
            raw = []
            for a in n.args[1:]:
                if isinstance(a, ast.Starred):
                    more = self.ev(a.value, env, fns)  # integrate(f, *ranges)
                    if not isinstance(more, list):
                        self.fail(a, "starred integration limits that are no sequence")
                    raw += [(a, x) for x in more]
                else:
                    raw.append((a, self.ev(a, env, fns)))
            for a, lim in raw:
                if not (isinstance(lim, list) and len(lim) == 3):
                    self.fail(a, "integration limits are not a (variable, from, to) triple")
                limits.append(tuple(lim))
            self.integrals.append((self.scalar(integrand, n), limits))
            return ("integral", len(self.integrals) - 1)
        if name == "simplify" and len(n.args) == 1:
            return self.ev(n.args[0], env, fns)
        return NotImplemented

    def ev(self, n, env, fns):
        if isinstance(n, ast.Attribute):
            base = None
            try:
                base = self.ev(n.value, env, fns) if isinstance(n.value, (ast.Name, ast.Attribute)) else None
            except AnalysisError:
                base = None
            if isinstance(base, Field) and n.attr == "coordinate_system":
                return base.system
            if isinstance(base, Sys) and n.attr == "coord_system":
                return base
        return super().ev(n, env, fns)


def _has_nonnegative_factor(t) -> bool:
    """is one multiplicative factor of the term a square root or an absolute value?"""
    if not isinstance(t, T):
        return False
    if t.op in ("sqrt", "abs"):
        return True
    if t.op == "pow" and t.args[1].op == "num" and t.args[1].val.denominator == 2:
        return True
    if t.op in ("mul", "neg"):
        return any(_has_nonnegative_factor(x) for x in t.args)
    if t.op == "div":
        return _has_nonnegative_factor(t.args[0])
    return False


class _StoredField:
    """`self` of a ScalarField / VectorField that keeps a value instead of a callable"""

    def __init__(self, system: Sys, value):
        self.system, self.value = system, value


class ApplyReader(SubsReader):

    def hook_attr(self, base, attr, n):
        if isinstance(base, _StoredField):
            if attr in ("_point_function", "field_function"):
                return self.value_of(base)
            if attr in ("_coordinate_system", "coordinate_system"):
                return base.system
        return super().hook_attr(base, attr, n)

    @staticmethod
    def value_of(base):
        return list(base.value) if isinstance(base.value, list) else base.value

    def hook_call(self, n, env, fns):
        f = dotted(n.func) or ""
        if f == "callable" and len(n.args) == 1:
            v = self.ev(n.args[0], env, fns)
            if isinstance(v, (list, T, int)):
                return False
            self.fail(n, "callable() of an unknown object")
        if f == "isinstance" and len(n.args) == 2:
            v = self.ev(n.args[0], env, fns)
            if isinstance(v, _Point):
                # the point `field.apply` builds for a trajectory in a Cartesian system (the system J8 evaluates with)
                return bool({"CartesianPoint", "Point"} & set(self.class_names(n.args[1])))
        return super().hook_call(n, env, fns)


def _stored_value_fields(run: Run) -> None:
    """J8: the integrals above apply the field to the trajectory (`field.apply` -> `__call__`), the other side of each theorem differentiates
    `apply_to_basis()` with respect to the base scalars. For a callable that is one function; a stored value has to be substituted."""
    cs = Sys("P", "CARTESIAN")
    sc = scalars_of(cs)
    for modname, cls, vector in (("symplyphysics.core.fields.vector_field", "VectorField", True), ("symplyphysics.core.fields.scalar_field", "ScalarField", False)):
        m = run.src.need(modname)
        mm = _methods_module(m, cls)
        for npt in (2, 3):
            for selfref in (False, True):
                coords = [sc[(i + 1) % 3] if selfref else var(f"g{i}") for i in range(npt)]
                full = coords + [num(0)] * (3 - npt)
                exprs = [_generic_expr(sc, f"e{j}") for j in range(3 if vector else 1)]
                R = ApplyReader(mm, modname.rsplit(".", 1)[1] + ".py", {})
                run.ob("J8", f"{cls}.__call__[stored value, {npt} coordinates{', trajectory in base scalars' if selfref else ''}]")
                try:
                    got = R.call("__call__", [_StoredField(cs, exprs if vector else exprs[0]), _Point(coords)])
                except Raised as r:
                    got = r
                want = [substitute(e, {sc[k].val: full[k] for k in range(3)}) for e in exprs]
                if vector:
                    gl = list(got.components) if isinstance(got, VVal) and got.system == cs else None
                else:
                    gl = [got] if isinstance(got, (T, int)) else None
                ok = gl is not None and len(gl) == len(want) and all(isinstance(x, (T, int)) and same_terms(x, y) for x, y in zip(gl, want)) and not R.hazards
                if not ok:
                    run.violate("J8", f"{modname}:{cls}.__call__:stored-value", m, m.tree,
                                f"{cls}.__call__ on a field that stores a value returns it without replacing (at once) the base scalars by the coordinates of the point "
                                f"({('raises ' + got.exc) if isinstance(got, Raised) else repr(gl)[:140]}): circulation_along_curve / flux_across_curve / flux_across_surface then integrate "
                                f"the base scalars of VectorField([-C.y, C.x, 0], C) as constants (circulation 0 on the unit circle) while curl_operator / divergence_operator "
                                f"differentiate them (2*pi over the disc), and results keep coordinate variables")
                    break
            else:
                continue
            break


def check(run: Run) -> None:
    for rid, text in [
        ("J1", "circulation integrand = A . dr/dt over (t, a, b)"),
        ("J2", "surface flux integrand = A . (r_u x r_v); each parameter integrated over its own limits"),
        ("J3", "circulation over a surface = surface flux of curl_operator(field) over the same surface and limits"),
        ("J4", "planar flux integrand (A . n_hat) |dr/dt| = A_x y' - A_y x'"),
        ("J5", "planar divergence integrand = (div F)(r(u, v)) |r_u x r_v|: the divergence taken at the points of the region"),
        ("J6", "volume integrand = div F * h1 h2 h3, integrated over z, y, x each with its own limits"),
        ("J7", "no assumption-forcing simplification (posify, force=True) on the way to an integrand"),
        ("J8", "a field that stores a value (expression / component list in the base scalars) is, when applied to a trajectory, the same function of the point "
               "the operators differentiate: the point's coordinates replace the base scalars, as for a callable-backed field"),
    ]:
        run.rule(rid, text)
    for mn in MODS[1:]:
        mm = run.src.need(mn)
        run.ob("J7", mn)
        for c in ast.walk(mm.tree):
            if isinstance(c, ast.Call):
                d = (dotted(c.func) or (c.func.attr if isinstance(c.func, ast.Attribute) else "")).split(".")[-1]
                forced = any(k.arg == "force" and isinstance(k.value, ast.Constant) and k.value.value is True for k in c.keywords)
                if d == "posify" or forced or (d == "refine" and len(c.args) > 1):
                    run.violate("J7", f"{mn}:{d}:{norm(c, 50)}", mm, c,
                                f"`{norm(c, 60)}` rewrites an integrand factor under the assumption that its symbols are positive: |dr/dt| = sqrt(16 t^2) becomes 4t instead of "
                                f"4|t|, so fluxes over parameter ranges with negative values change sign")
    body = []
    for mn in MODS:
        m = run.src.need(mn)
        body += [s for s in m.tree.body if isinstance(s, (ast.FunctionDef, ast.ImportFrom))]
    mod = run.src.need(AN)
    merged = ast.Module(body=body, type_ignores=[])
    cart = Sys("cs", "CARTESIAN")
    A = [var("A0"), var("A1"), var("A2")]
    t, u, v = var("t"), var("u"), var("v")
    a, b, c, d = var("a"), var("b"), var("c"), var("d")

    def fresh():
        return AnalysisReader(merged, "fields/analysis.py")

    def run_fn(R, name, *args):
        try:
            return R.call(name, list(args))
        except Raised as r:
            return r

    # ---- J1
    for ncomp in (2, 3):
        R = fresh()
        r = [fun(f"r{i}", ("t", )) for i in range(ncomp)]
        res = run_fn(R, "circulation_along_curve", Field(cart, A), r, [t, a, b])
        run.ob("J1", f"components={ncomp}")
        ok = not isinstance(res, Raised) and len(R.integrals) == 1
        if ok:
            integrand, limits = R.integrals[0]
            want = num(0)
            At = Field(cart, A).at(r)
            for i in range(ncomp):
                want = op("add", want, op("mul", At[i], op("diff", r[i], t)))
            ok = same_terms(integrand, want) and limits == [(t, a, b)]
        if not ok:
            run.violate("J1", f"{AN}:circulation_along_curve:{ncomp}", mod, mod.tree,
                        f"circulation_along_curve does not integrate A . dr/dt over (t, a, b) for a {ncomp}-component curve "
                        f"({'raises ' + res.exc if isinstance(res, Raised) else [repr(normalize(i)) for i, _ in R.integrals]}, limits {[l for _, l in R.integrals]})")
    # ---- J1 in curvilinear systems: the line element is (h1 dq1, h2 dq2, h3 dq3), not the derivative of the coordinate triple
    for kind, coords in SYSTEMS.items():
        if kind == "CARTESIAN":
            continue
        cs = Sys("cs" + kind, kind)
        R = fresh()
        r = [fun(f"r{i}", ("t", )) for i in range(3)]
        res = run_fn(R, "circulation_along_curve", Field(cs, A), r, [t, a, b])
        run.ob("J1", f"{kind.lower()}-field")
        ok = isinstance(res, Raised)
        if not ok and len(R.integrals) == 1:
            integrand, limits = R.integrals[0]
            hs, _ = H[kind]
            At = Field(cs, A).at(r)
            want = num(0)
            for i in range(3):
                want = op("add", want, op("mul", op("mul", substitute(hs[i], {nm: r[k] for k, nm in enumerate(coords)}), At[i]), op("diff", r[i], t)))
            ok = same_terms(integrand, want) and limits == [(t, a, b)]
        if not ok:
            run.violate("J1", f"{AN}:circulation_along_curve:{kind}", mod, mod.tree,
                        f"circulation_along_curve accepts a {kind.lower()} field and integrates "
                        f"{[repr(i)[:120] for i, _ in R.integrals]}, which is not F . (h1 dq1, h2 dq2, h3 dq3): the derivative of the coordinate triple is the tangent "
                        f"vector in Cartesian coordinates only (rigid rotation F_theta = r along the circle [2, t, 0] gives 0 instead of 8*pi); refuse such fields, as every "
                        f"sibling function does, or use the line element of the system")
    # ---- J2
    R = fresh()
    rs = [fun(f"r{i}", ("u", "v")) for i in range(3)]
    res = run_fn(R, "flux_across_surface", Field(cart, A), rs, [u, a, b], [v, c, d])
    run.ob("J2", "surface")
    ru, rv = [op("diff", x, u) for x in rs], [op("diff", x, v) for x in rs]
    cross = [op("sub", op("mul", ru[1], rv[2]), op("mul", ru[2], rv[1])), op("sub", op("mul", ru[2], rv[0]), op("mul", ru[0], rv[2])), op("sub", op("mul", ru[0], rv[1]), op("mul", ru[1], rv[0]))]
    ok = not isinstance(res, Raised) and len(R.integrals) == 1
    if ok:
        integrand, limits = R.integrals[0]
        want = num(0)
        As = Field(cart, A).at(rs)
        for i in range(3):
            want = op("add", want, op("mul", As[i], cross[i]))
        ok = same_terms(integrand, want) and sorted(map(repr, limits)) == sorted(map(repr, [(u, a, b), (v, c, d)]))
    if not ok:
        run.violate("J2", f"{AN}:flux_across_surface", mod, mod.tree, "flux_across_surface does not integrate A . (r_u x r_v) with each parameter over its own limits")
    # ---- J3
    R = fresh()
    res = run_fn(R, "circulation_along_surface_boundary", Field(cart, A), rs, [u, a, b], [v, c, d])
    run.ob("J3", "stokes-wiring")
    ok = not isinstance(res, Raised) and len(R.integrals) == 1
    if ok:
        integrand, limits = R.integrals[0]
        want = num(0)
        Cs = Field(cart, [], tag="curlF").at(rs)
        for i in range(3):
            want = op("add", want, op("mul", Cs[i], cross[i]))
        ok = same_terms(integrand, want) and sorted(map(repr, limits)) == sorted(map(repr, [(u, a, b), (v, c, d)]))
    if not ok:
        run.violate("J3", f"{AN}:circulation_along_surface_boundary", mod, mod.tree, "circulation over a surface is not the flux of curl_operator(field) across that surface with the same limits")
    # ---- J4
    R = fresh()
    r2 = [fun(f"r{i}", ("t", )) for i in range(2)]
    res = run_fn(R, "flux_across_curve", Field(cart, A), r2, [t, a, b])
    run.ob("J4", "planar-flux")
    ok = not isinstance(res, Raised) and len(R.integrals) == 1
    if ok:
        integrand, limits = R.integrals[0]
        A2 = Field(cart, A).at(r2)
        want = op("sub", op("mul", A2[0], op("diff", r2[1], t)), op("mul", A2[1], op("diff", r2[0], t)))
        ok = same_terms(integrand, want) and limits == [(t, a, b)]
    if not ok:
        run.violate("J4", f"{AN}:flux_across_curve", mod, mod.tree, "flux_across_curve does not integrate A_x y' - A_y x' (outward flux across a counter-clockwise planar curve) over (t, a, b)")
    R = fresh()
    res = run_fn(R, "flux_across_curve", Field(cart, A), [fun(f"r{i}", ("t", )) for i in range(3)], [t, a, b])
    run.ob("J4", "planar-only")
    if not isinstance(res, Raised):
        run.violate("J4", f"{AN}:flux_across_curve:3d", mod, mod.tree, "flux_across_curve accepts a 3-component trajectory (the planar normal is meaningless there)")
    # ---- J5
    R = fresh()
    res = run_fn(R, "flux_across_surface_boundary", Field(cart, A), rs, [u, a, b], [v, c, d])
    run.ob("J5", "planar-divergence")
    ok = not isinstance(res, Raised) and len(R.integrals) == 1
    if ok:
        integrand, limits = R.integrals[0]
        mag2 = num(0)
        for x in cross:
            mag2 = op("add", mag2, op("mul", x, x))
        # the divergence is a function of position: it has to be taken AT the points r(u, v) of the region
        want = op("mul", app("divF", *rs), op("sqrt", mag2))
        ok = same_terms(op("mul", integrand, integrand), op("mul", want, want)) and sorted(map(repr, limits)) == sorted(map(repr, [(u, a, b), (v, c, d)]))
    if not ok:
        run.violate("J5", f"{AN}:flux_across_surface_boundary", mod, mod.tree, "flux_across_surface_boundary does not integrate (div F)(r(u, v)) |r_u x r_v| with each parameter over its own limits"
                    + (f": the integrand is {normalize(R.integrals[0][0])!r} - where the divergence is left as a function of the base scalars instead of being evaluated at the points "
                       f"of the region, the result still contains coordinate variables unless the divergence is constant" if not isinstance(res, Raised) and len(R.integrals) == 1 else ""))
    # ---- J5 (planar regions given by two components): the area element is |J|, a manifestly non-negative factor, not the signed Jacobian
    R = fresh()
    r2s = [fun(f"r{i}", ("u", "v")) for i in range(2)]
    res = run_fn(R, "flux_across_surface_boundary", Field(cart, A), r2s, [u, a, b], [v, c, d])
    run.ob("J5", "planar-region-area-element")
    ok = not isinstance(res, Raised) and len(R.integrals) == 1
    if ok:
        integrand, limits = R.integrals[0]
        jac = op("sub", op("mul", op("diff", r2s[0], u), op("diff", r2s[1], v)), op("mul", op("diff", r2s[0], v), op("diff", r2s[1], u)))
        want = op("mul", app("divF", r2s[0], r2s[1], num(0)), jac)
        ok = same_terms(op("mul", integrand, integrand), op("mul", want, want)) and _has_nonnegative_factor(integrand)
    if not ok:
        run.violate("J5", f"{AN}:flux_across_surface_boundary:planar-area-element", mod, mod.tree,
                    "for a region given by two components the area element of flux_across_surface_boundary is not a manifestly non-negative |J| (square root of a sum of "
                    "squares / Abs): with the signed Jacobian the integral of the divergence changes sign for parametrisations such as (theta, r), while the flux across the "
                    "boundary does not")
    # ---- J2 / J5 with limits of one parameter depending on the other and an integrand free of both parameters (uniform field over a flat region)
    lo, hi = fun("lo", ("v", )), fun("hi", ("v", ))
    flat = [u, v, num(0)]
    for fname, rid in (("flux_across_surface", "J2"), ("flux_across_surface_boundary", "J5")):
        R = fresh()
        fld = Field(cart, A)
        fld.uniform = True
        res = run_fn(R, fname, fld, flat, [u, lo, hi], [v, c, d])
        run.ob(rid, f"{fname}:dependent-limits")
        ok = not isinstance(res, Raised) and len(R.integrals) == 1
        if ok:
            integrand, limits = R.integrals[0]
            ok = sorted(map(repr, limits)) == sorted(map(repr, [(u, lo, hi), (v, c, d)])) and not ({k_[1] for pl in (normalize(integrand).n, normalize(integrand).d) for k_ in pl.atoms() if k_[0] == "v"} & {"u", "v"})
        if not ok:
            run.violate(rid, f"{AN}:{fname}:dependent-limits", mod, mod.tree,
                        f"{fname} over a region whose first parameter runs between limits that depend on the second (u from lo(v) to hi(v)) with an integrand free of both "
                        f"parameters does not integrate over those limits ({'raises ' + res.exc if isinstance(res, Raised) else str(len(R.integrals)) + ' integrate call(s)'}): "
                        f"a shortcut such as integrand * (u1 - u0) * (v1 - v0) is only right for rectangles")
    # ---- J6
    for kind, coords in SYSTEMS.items():
        R = fresh()
        cs = Sys("cs" + kind, kind)
        lims = [[var("x0"), var("x1")], [var("y0"), var("y1")], [var("z0"), var("z1")]]
        res = run_fn(R, "flux_across_volume_boundary", Field(cs, A), *lims)
        run.ob("J6", kind)
        ok = not isinstance(res, Raised) and len(R.integrals) == 1
        if ok:
            integrand, limits = R.integrals[0]
            hs, _ = H[kind]
            want = op("mul", app("divF", *[var(x) for x in coords]), op("mul", op("mul", hs[0], hs[1]), hs[2]))
            q = [var(x) for x in coords]
            expect = [(q[2], lims[2][0], lims[2][1]), (q[1], lims[1][0], lims[1][1]), (q[0], lims[0][0], lims[0][1])]
            ok = same_terms(integrand, want) and sorted(map(repr, limits)) == sorted(map(repr, expect))
        if not ok:
            run.violate("J6", f"{AN}:flux_across_volume_boundary:{kind}", mod, mod.tree,
                        f"the {kind.lower()} volume integral is not div F * h1 h2 h3 over each coordinate with its own limits "
                        f"({'raises ' + res.exc if isinstance(res, Raised) else [(repr(normalize(i)), [tuple(map(repr, l)) for l in ls]) for i, ls in R.integrals]})")
    _stored_value_fields(run)
    run.sample({"integrals_examined": 9, "generic_field": "A = F(r(.)) as three indeterminates", "parametrisations": "undefined functions of t / (u, v)"})
