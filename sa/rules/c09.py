"""C09 - distinct symbols never alias; clones keep dimension, names and assumptions (E3 + E2)."""
from __future__ import annotations

import ast

from ..core import Run, AnalysisError, dotted, norm, PKG
from ..dim import World
from ..gate import GateReader, Dim, Obj
from ..pyreader import Raised
from ..flow import Fn, kw, node_calls, node_of, conditions_for, stmt_of, numeric_consts
from .c03 import _i3_idgen

EXPLANATION = (
    "Structural facts that make every library object a fresh mathematical object and keep clones faithful, decided on CFGs/slices "
    "of core/symbols/*.py, core/coordinate_systems, core/experimental/vectors and the three printers: N1 the internal name given to "
    "the SymPy base constructor of Symbol, IndexedSymbol, Function, Quantity, CoordinateSystem (+transform/rotate) and the "
    "experimental VectorFunction is, on every path, next_name(<literal prefix>) with no data dependence on the display name "
    "(one frozen exception: IndexedSymbol re-created by SymPy from an existing symbol); VectorSymbol hashes by id(self); no symbol class overrides identity or caches its constructor; "
    "coordinates_transform / coordinates_rotate return a fresh system on every path; N2 "
    "next_name is prefix + str(next_id(prefix)), all literal prefixes end in a letter and none is another prefix followed by digits "
    "(so (prefix, n) -> name is injective), and the counters are written only by next_id, by +1; N3 the three clone helpers pass "
    "source.dimension, default both display names to the source's, apply the subscript to both names, and default the assumptions "
    "to source.assumptions0; N4 the pretty/code/LaTeX symbol printers use display_name/display_latex for every DimensionSymbol "
    "and fall back to the generated .name only for foreign symbols. Not decided: that SymPy treats differently named symbols as "
    "distinct under subs/solve/diff (trusted).")
ASSUMPTIONS = ["SymPy symbols with different names (or different classes) are distinct objects for subs/solve/diff"]
TRUSTED = ["sympy.Symbol / UndefinedFunction / IndexedBase / Quantity / CoordSys3D identity semantics", "python ast"]

SYMS = "symplyphysics.core.symbols.symbols"
NEXT_NAME = SYMS + ".next_name"
NEXT_ID = "symplyphysics.core.symbols.id_generator.next_id"

# (module, function path, how the base-constructor call is recognised, index of the name argument)
N1_SITES = [
    (SYMS, "Symbol.__new__", "SymSymbol.__new__", 1),
    (SYMS, "IndexedSymbol.__new__", "IndexedBase.__new__", 1),
    (SYMS, "Function.__new__", "UndefinedFunction.__new__", 1),
    ("symplyphysics.core.symbols.quantities", "Quantity.__new__", "SymQuantity.__new__", 1),
    ("symplyphysics.core.coordinate_systems.coordinate_systems", "CoordinateSystem.__init__", "CoordSys3D", 0),
    ("symplyphysics.core.coordinate_systems.coordinate_systems", "coordinates_transform", ".create_new", 0),
    ("symplyphysics.core.coordinate_systems.coordinate_systems", "coordinates_rotate", ".orient_new_axis", 0),
    ("symplyphysics.core.experimental.vectors", "VectorFunction.__new__", "UndefinedVectorFunction.__new__", 1),
]


def _match(call: ast.Call, pat: str) -> bool:
    d = dotted(call.func)
    if pat.startswith("."):
        return isinstance(call.func, ast.Attribute) and call.func.attr == pat[1:]
    return d == pat


class _NameReader(GateReader):
    """a constructor evaluated for its one effect that matters here: the name it hands to the SymPy base constructor"""

    def __init__(self, module, where, pat, idx):
        super().__init__(module, where)
        self.pat, self.idx = pat, idx
        self.fresh = 0
        self.names: list = []
        self.prefixes: list = []

    def hook_call(self, n, env, fns):
        d = dotted(n.func) or ""
        if d.split(".")[-1] == "next_name" and len(n.args) == 1:  # the generator itself is the business of N2 / I3
            pre = self.ev(n.args[0], env, fns)
            literal = isinstance(n.args[0], ast.Constant) and isinstance(n.args[0].value, str)
            self.fresh += 1
            self.prefixes.append(pre if literal else None)
            return ("fresh-name", pre if literal else None, self.fresh)
        if d == self.pat:
            args = [self.ev(a, env, fns) for a in n.args]
            for k in n.keywords:
                self.ev(k.value, env, fns)
            self.names.append(args[self.idx] if len(args) > self.idx else None)
            return Obj("built", {}, "built")
        return super().hook_call(n, env, fns)


def _n1_constructor(run: Run, modname: str, path: str, pat: str, idx: int) -> list:
    """N1 for a class constructor, by evaluation: whatever is passed as display name, the name given to the SymPy base constructor is a fresh next_name(<literal>);
    the one exception is an IndexedSymbol re-created by SymPy from an existing SymPy symbol, which keeps that symbol"""
    from .c11 import _methods_module
    m = run.src.need(modname)
    cname = path.split(".")[0]
    mm = _methods_module(m, cname)
    fdef = next((x for x in mm.body if isinstance(x, ast.FunctionDef) and x.name == "__new__"), None)
    run.require(fdef is not None, f"{modname}:{path} not found")
    first_param = (fdef.args.args[1].arg if len(fdef.args.args) > 1 else None)
    existing = Obj("Symbol", {"name": "EXISTING"}, "existing sympy symbol")
    cases = [("no display name", []), ("display name d1", ["d1"]), ("display name d2", ["d2"])]
    if cname == "IndexedSymbol":
        cases.append(("an existing SymPy symbol", [existing]))
    found = []
    for label, args in cases:
        run.ob("N1", f"{cname}.__new__:{label}")
        R = _NameReader(mm, f"{cname}.__new__", pat, idx)
        try:
            R.call("__new__", [("class", cname)] + list(args))
            problem = None
        except Raised as r:
            problem = f"raises {r.exc}"
        if not problem:
            if len(R.names) != 1:
                problem = f"calls {pat} {len(R.names)} time(s)"
            else:
                nm = R.names[0]
                if args and args[0] is existing:
                    if nm is not existing and not (isinstance(nm, tuple) and nm and nm[0] == "fresh-name" and nm[1] is not None):
                        problem = f"gives {pat} the name {nm!r} for an existing SymPy symbol: neither that symbol nor a fresh next_name(<literal>)"
                elif not (isinstance(nm, tuple) and nm and nm[0] == "fresh-name"):
                    problem = (f"gives {pat} the internal name {nm!r}, which is not a fresh next_name(<literal>): two objects may get the same SymPy name and alias "
                               f"(the name must not depend on the display name)")
                elif nm[1] is None:
                    problem = f"draws the internal name from next_name(<not a literal prefix>): the prefix must not depend on the arguments"
                else:
                    found.append(nm[1])
        if problem:
            run.violate("N1", f"{modname}:{path}:{pat}:{label}", m, m.tree, f"{cname}({label}): the constructor {problem}")
    run.sample({"site": f"{modname}:{path}", "constructor": pat, "prefixes": sorted(set(found))})
    return sorted(set(found))


def _fresh_through_helper(tree: ast.Module, fn: ast.AST, arg: ast.AST):
    """the literal prefix when `arg` is a name bound, by (tuple) assignment, from a call of a module-level helper that returns next_name(<literal>) at that position on
    every path - nothing else about the helper matters for the name"""
    if not isinstance(arg, ast.Name):
        return None
    for a in [x for x in ast.walk(fn) if isinstance(x, ast.Assign) and len(x.targets) == 1 and isinstance(x.value, ast.Call) and isinstance(x.value.func, ast.Name)]:
        tgt = a.targets[0]
        if isinstance(tgt, ast.Name) and tgt.id == arg.id:
            pos = None
        elif isinstance(tgt, ast.Tuple) and any(isinstance(e, ast.Name) and e.id == arg.id for e in tgt.elts):
            pos = next(i for i, e in enumerate(tgt.elts) if isinstance(e, ast.Name) and e.id == arg.id)
        else:
            continue
        if sum(1 for x in ast.walk(fn) if isinstance(x, ast.Name) and isinstance(x.ctx, ast.Store) and x.id == arg.id) != 1:
            return None
        h = next((x for x in tree.body if isinstance(x, ast.FunctionDef) and x.name == a.value.func.id), None)
        if h is None:
            return None
        lits = set()
        rets = [r for r in ast.walk(h) if isinstance(r, ast.Return)]
        for r in rets:
            v = r.value
            if pos is not None:
                if not (isinstance(v, ast.Tuple) and len(v.elts) > pos):
                    return None
                v = v.elts[pos]
            if isinstance(v, ast.Name):
                defs = [d for d in ast.walk(h) if isinstance(d, ast.Assign) and any(isinstance(t_, ast.Name) and t_.id == v.id for t_ in d.targets)]
                if len(defs) != 1 or v.id in [p_.arg for p_ in h.args.args + h.args.kwonlyargs]:
                    return None
                v = defs[0].value
            if not (isinstance(v, ast.Call) and dotted(v.func) == "next_name" and len(v.args) == 1 and isinstance(v.args[0], ast.Constant) and isinstance(v.args[0].value, str)):
                return None
            lits.add(v.args[0].value)
        return lits.pop() if rets and len(lits) == 1 else None
    return None


def _n1(run: Run, w: World) -> None:
    run.rule("N1", "the internal name handed to the SymPy base constructor is next_name(<literal>) on every path, independent of display names")
    prefixes = []
    for modname, path, pat, idx in N1_SITES:
        if path.endswith(".__new__"):
            prefixes += _n1_constructor(run, modname, path, pat, idx)
            continue
        f = Fn(w, modname, path)
        # `make = obj.create_new; make(name, ...)`: a call through a local name bound once to the method is the method call
        aliases = set()
        if pat.startswith("."):
            for a_ in [x for x in ast.walk(f.fn) if isinstance(x, ast.Assign) and len(x.targets) == 1 and isinstance(x.targets[0], ast.Name)
                       and isinstance(x.value, ast.Attribute) and x.value.attr == pat[1:]]:
                if sum(1 for x in ast.walk(f.fn) if isinstance(x, ast.Name) and isinstance(x.ctx, ast.Store) and x.id == a_.targets[0].id) == 1:
                    aliases.add(a_.targets[0].id)
        calls = [(n, c) for n in f.cfg.stmt_nodes() for c in node_calls(n) if _match(c, pat) or (isinstance(c.func, ast.Name) and c.func.id in aliases)]
        run.require(bool(calls), f"{modname}:{path} no longer calls {pat}")
        for n, c in calls:
            run.ob("N1", f"{f.qual}:{pat}@{norm(c, 40)}")
            if len(c.args) <= idx:
                run.violate("N1", f"{f.qual}:{pat}:no-name", f.mod, c, f"{pat} is called without an explicit name argument")
                continue
            arg = c.args[idx]
            sl = f.slice(n, arg)
            nn = [cc for cc in sl.call_nodes if f.callee(node_of(f.cfg, cc) or n, cc) == NEXT_NAME]
            fresh = bool(nn) and not sl.params and all(len(cc.args) == 1 and isinstance(cc.args[0], ast.Constant) and isinstance(cc.args[0].value, str) for cc in nn) \
                and not (sl.calls - {"next_name"}) and all(isinstance(e, (ast.Name, ast.Call, ast.Constant)) for e in sl.exprs)
            if fresh:
                prefixes += [cc.args[0].value for cc in nn]
                continue
            lit = _fresh_through_helper(f.mod.tree, f.fn, arg)
            if lit is not None:
                prefixes.append(lit)  # `name, ... = helper(...)` where the helper returns next_name(<literal>) at that position on every path
                continue
            # frozen exception: IndexedSymbol re-created by SymPy's subs/solve from an existing SymPy symbol
            if path == "IndexedSymbol.__new__" and sl.params == {"name_or_symbol"} and not sl.calls:
                conds = conditions_for(f.fn, stmt_of(f.fn, c)) or []
                real = [(t, p) for t, p in conds if not isinstance(t, str)]
                if len(real) == 1 and real[0][1] is True and isinstance(real[0][0], ast.Call) and dotted(real[0][0].func) == "isinstance" \
                        and dotted(real[0][0].args[0]) == "name_or_symbol" and dotted(real[0][0].args[1]) == "SymSymbol":
                    continue
            run.violate("N1", f"{f.qual}:{pat}:{norm(arg, 60)}", f.mod, c,
                        f"the internal name `{norm(arg, 50)}` given to {pat} is not a fresh next_name(<literal>) "
                        f"(depends on {sorted(sl.params | sl.free | (sl.calls - {'next_name'})) or 'a constant'}): two objects may get the same SymPy name and alias")
        run.sample({"site": f.qual, "constructor": pat, "names": [norm(c.args[idx], 40) for _, c in calls if len(c.args) > idx]})
    # who may construct: every other call of a name-keyed SymPy base constructor in the package is held to the same rule
    known = {(mn, pth.split(".")[-1]) for mn, pth, _, _ in N1_SITES}
    pats = {"SymSymbol.__new__": 1, "IndexedBase.__new__": 1, "UndefinedFunction.__new__": 1, "SymQuantity.__new__": 1, "UndefinedVectorFunction.__new__": 1, "CoordSys3D": 0}
    for m in run.src.mods.values():
        if not m.name.startswith("symplyphysics.core") and not m.name.startswith("symplyphysics.docs"):
            continue
        for fn in [x for x in ast.walk(m.tree) if isinstance(x, (ast.FunctionDef, ast.AsyncFunctionDef))]:
            if (m.name, fn.name) in known:
                continue
            for c in [x for x in ast.walk(fn) if isinstance(x, ast.Call) and dotted(x.func) in pats]:
                if any(isinstance(g_, ast.FunctionDef) and g_ is not fn and any(y is c for y in ast.walk(g_)) for g_ in ast.walk(fn)):
                    continue
                idx = pats[dotted(c.func)]
                # a positional class argument precedes the name for the __new__ forms: SymQuantity.__new__(cls, name, ...)
                run.ob("N1", f"{m.name}:{fn.name}:{dotted(c.func)}")
                arg = c.args[idx] if len(c.args) > idx else None
                direct = isinstance(arg, ast.Call) and dotted(arg.func) == "next_name" and len(arg.args) == 1 and isinstance(arg.args[0], ast.Constant)
                if not direct and isinstance(arg, ast.Name):
                    assigns = [a for a in ast.walk(fn) if isinstance(a, ast.Assign) and any(isinstance(t, ast.Name) and t.id == arg.id for t in a.targets)]
                    direct = len(assigns) == 1 and isinstance(assigns[0].value, ast.Call) and dotted(assigns[0].value.func) == "next_name" \
                        and arg.id not in [p_.arg for p_ in fn.args.args + fn.args.kwonlyargs]
                if not direct:
                    run.violate("N1", f"{m.name}:{fn.name}:{dotted(c.func)}:{norm(arg, 40) if arg is not None else 'no-name'}", m, c,
                                f"{fn.name} constructs a SymPy object through {dotted(c.func)} with the name `{norm(arg, 40) if arg is not None else '?'}`, which is not a fresh "
                                f"next_name(<literal>): an object built here can carry the name of an existing one - it compares equal to it and, for quantities, "
                                f"overwrites its entry in the unit system")
    # factory functions hand out a NEW object on every path: each returned value derives from a fresh next_name(...) call
    for modname, path in (("symplyphysics.core.coordinate_systems.coordinate_systems", "coordinates_transform"),
                          ("symplyphysics.core.coordinate_systems.coordinate_systems", "coordinates_rotate")):
        f = Fn(w, modname, path)
        for r in f.cfg.returns():
            run.ob("N1", f"{f.qual}:return-fresh")
            sl = f.slice(r, r.ast.value) if r.ast.value is not None else None
            fresh = sl is not None and any(f.callee(node_of(f.cfg, cc) or r, cc) == NEXT_NAME for cc in sl.call_nodes)
            if not fresh and sl is not None:
                # ... or from a module-level helper every return of which carries a fresh next_name(<literal>) (name, scalars = _name_and_scalars(...))
                for cc in sl.call_nodes:
                    h = next((x for x in f.mod.tree.body if isinstance(x, ast.FunctionDef) and isinstance(cc.func, ast.Name) and x.name == cc.func.id), None)
                    if h is None:
                        continue
                    rets = [x for x in ast.walk(h) if isinstance(x, ast.Return) and x.value is not None]

                    def carries(v) -> bool:
                        if isinstance(v, ast.Tuple):
                            return any(carries(e) for e in v.elts)
                        if isinstance(v, ast.Name):
                            defs = [d for d in ast.walk(h) if isinstance(d, ast.Assign) and any(isinstance(t_, ast.Name) and t_.id == v.id for t_ in d.targets)]
                            return len(defs) == 1 and carries(defs[0].value)
                        return isinstance(v, ast.Call) and dotted(v.func) == "next_name" and len(v.args) == 1 and isinstance(v.args[0], ast.Constant)
                    if rets and all(carries(x.value) for x in rets):
                        fresh = True
            if not fresh:
                run.violate("N1", f"{f.qual}:return:{norm(r.ast, 50)}", f.mod, r.ast,
                            f"{path} can return `{norm(r.ast.value, 40) if r.ast.value is not None else None}`, which is not a newly created coordinate system: the result "
                            f"aliases an existing system (its base scalars and vectors are the same objects)")
    # VectorSymbol: identity hash and no name argument
    v = Fn(w, "symplyphysics.core.experimental.vectors", "VectorSymbol._hashable_content")
    run.ob("N1", "VectorSymbol._hashable_content")
    ok = False
    for r in v.cfg.returns():
        sl = v.slice(r, r.ast.value)
        if "id" in sl.calls and sl.params == {"self"} and not numeric_consts(sl):
            ok = True
    if not ok:
        run.violate("N1", f"{v.qual}:identity", v.mod, v.fn, "VectorSymbol._hashable_content no longer contains id(self): equal-looking vector symbols would compare equal")
    # no constructor of an identity-carrying class is cached, and none of these classes redefines equality / hashing
    ident_classes = [(SYMS, "DimensionSymbol"), (SYMS, "Symbol"), (SYMS, "IndexedSymbol"), (SYMS, "Function"),
                     ("symplyphysics.core.symbols.quantities", "Quantity"), ("symplyphysics.core.coordinate_systems.coordinate_systems", "CoordinateSystem"),
                     ("symplyphysics.core.experimental.vectors", "VectorSymbol"), ("symplyphysics.core.experimental.vectors", "VectorFunction")]
    for modname, cname in ident_classes:
        m = run.src.need(modname)
        c = next((x for x in m.tree.body if isinstance(x, ast.ClassDef) and x.name == cname), None)
        run.require(c is not None, f"class {modname}.{cname} not found")
        for meth in [x for x in c.body if isinstance(x, ast.FunctionDef)]:
            if meth.name in ("__new__", "__init__", "__call__"):
                run.ob("N1", f"{cname}.{meth.name}:uncached")
                for d in meth.decorator_list:
                    dn = (dotted(d.func) if isinstance(d, ast.Call) else dotted(d)) or ""
                    if dn.split(".")[-1] in ("cacheit", "lru_cache", "cache", "cached", "memoize", "sym_cacheit"):
                        run.violate("N1", f"{modname}:{cname}.{meth.name}:cached", m, meth,
                                    f"{cname}.{meth.name} is memoised ({dn}): two creations with equal arguments (e.g. equal display names) return ONE object")
            if meth.name in ("__eq__", "__hash__", "_hashable_content", "__ne__") and not (cname == "VectorSymbol" and meth.name == "_hashable_content"):
                run.ob("N1", f"{cname}.{meth.name}")
                run.violate("N1", f"{modname}:{cname}.{meth.name}:identity-override", m, meth,
                            f"{cname} redefines {meth.name}: object identity of library symbols must come from the fresh SymPy name only")
    vn = Fn(w, "symplyphysics.core.experimental.vectors", "VectorSymbol.__new__")
    run.ob("N1", "VectorSymbol.__new__")
    for r in vn.cfg.returns():
        sl = vn.slice(r, r.ast.value)
        if sl.params - {"cls"}:
            run.violate("N1", f"{vn.qual}:display-dependent", vn.mod, r.ast, f"VectorSymbol.__new__ passes {sorted(sl.params - {'cls'})} to the base constructor: the SymPy name would depend on the display name")
    return prefixes


def _n2(run: Run, w: World, used_prefixes: list) -> None:
    run.rule("N2", "next_name = prefix + str(next_id(prefix)); literal prefixes make (prefix, n) -> name injective; counters written only by next_id, +1")
    f = Fn(w, SYMS, "next_name")
    run.require(len(f.params) == 1, "next_name signature changed")
    p = f.params[0]
    for r in f.cfg.returns():
        run.ob("N2", "next_name-shape")
        v = r.ast.value
        ok = isinstance(v, ast.BinOp) and isinstance(v.op, ast.Add) and isinstance(v.left, ast.Name) and v.left.id == p \
            and isinstance(v.right, ast.Call) and dotted(v.right.func) == "str" and len(v.right.args) == 1 \
            and isinstance(v.right.args[0], ast.Call) and f.callee(r, v.right.args[0]) == NEXT_ID \
            and [dotted(a) for a in v.right.args[0].args] == [p]
        if not ok:
            ok = isinstance(v, ast.JoinedStr) and len(v.values) == 2 and all(isinstance(x, ast.FormattedValue) for x in v.values) \
                and dotted(v.values[0].value) == p and isinstance(v.values[1].value, ast.Call) and f.callee(r, v.values[1].value) == NEXT_ID \
                and [dotted(a) for a in v.values[1].value.args] == [p]
        if not ok:
            run.violate("N2", f"{f.qual}:shape", f.mod, r.ast, f"next_name returns `{norm(v, 60)}`, not prefix + str(next_id(prefix)): names of one prefix may repeat or collide")
    # all literal prefixes in the package
    prefixes = {}
    for m in run.src.mods.values():
        if not m.name.startswith(PKG):
            continue
        for c in ast.walk(m.tree):
            if isinstance(c, ast.Call) and (dotted(c.func) or "").split(".")[-1] == "next_name":
                if len(c.args) == 1 and isinstance(c.args[0], ast.Constant) and isinstance(c.args[0].value, str):
                    prefixes.setdefault(c.args[0].value, (m, c))
                elif m.name != SYMS:
                    run.skip("N2", f"{m.rel}:{c.lineno}", "next_name with a non-literal prefix")
    run.require(len(prefixes) >= 4, "literal name prefixes not found")
    for a, (m, c) in prefixes.items():
        run.ob("N2", f"prefix:{a}")
        if not a or not a[-1].isalpha():
            run.violate("N2", f"prefix:{a}:ends-in-digit", m, c, f"name prefix `{a}` does not end in a letter: `{a}`+n is ambiguous")
        for b in prefixes:
            if a != b and a.startswith(b) and a[len(b):].isdigit():
                run.violate("N2", f"prefix:{a}:{b}", m, c, f"name prefix `{a}` is prefix `{b}` followed by digits: generated names of the two families can coincide")
    run.sample({"rule": "N2", "prefixes": sorted(prefixes)})
    _i3_idgen(run)  # counter ownership / monotonicity (reported under I3 ids; shared with C03)


class CloneReader(GateReader):
    """the clone helpers evaluated on a source object; constructions of Symbol / Function / IndexedSymbol are recorded"""

    def __init__(self, module, where):
        super().__init__(module, where)
        self.built: list = []

    def hook_call(self, n, env, fns):
        name = (dotted(n.func) or "").split(".")[-1]
        if name in ("Symbol", "Function", "IndexedSymbol") and name not in self.functions:
            args = [self.ev(a, env, fns) for a in n.args]
            kwargs = {k.arg: self.ev(k.value, env, fns) for k in n.keywords if k.arg}
            for k in n.keywords:
                if k.arg is None:
                    extra = self.ev(k.value, env, fns)
                    if not isinstance(extra, dict):
                        self.fail(n, "** of something that is not a dict")
                    kwargs.update(extra)
            obj = Obj(name, {"args": args, "kwargs": kwargs}, "clone")
            self.built.append(obj)
            return obj
        return super().hook_call(n, env, fns)


def _n3(run: Run, w: World) -> None:
    """the three clone helpers are EVALUATED on a source symbol: what they hand to the constructor is compared with the property (declared dimension,
    names defaulting to the source's, subscript on both names, assumptions defaulting to the source's)"""
    run.rule("N3", "clone_as_symbol/function/indexed construct their class with source.dimension, display names and assumptions defaulting to the source's, a requested subscript on both names")
    m = run.src.need(SYMS)
    D = Dim.of(mass=1, length=2, time=-2)
    spec = {"clone_as_symbol": ("Symbol", 1, "dimension", True, []), "clone_as_function": ("Function", 2, "dimension", True, ["ARGS"]), "clone_as_indexed": ("IndexedSymbol", 2, "dimension", True, ["IDX"])}
    for name, (cls, dim_idx, dim_kw, has_sub, extra) in spec.items():
        fdef = next((x for x in m.tree.body if isinstance(x, ast.FunctionDef) and x.name == name), None)
        run.require(fdef is not None, f"{name} not found")
        takes_sub = any(a.arg == "subscript" for a in fdef.args.kwonlyargs + fdef.args.args)
        variants = [("defaults", {}), ("explicit names", {"display_symbol": "CODE", "display_latex": "LATEX"}), ("own assumptions", {"positive": True})]
        if takes_sub:
            variants += [("subscript", {"subscript": "SUB"}), ("subscript and names", {"subscript": "SUB", "display_symbol": "CODE", "display_latex": "LATEX"})]
        elif has_sub:
            run.violate("N3", f"{SYMS}:{name}:subscript-parameter", m, fdef,
                        f"{name} has no `subscript` parameter: {name}(source, subscript='1') is accepted, the keyword falls into **assumptions (SymPy drops the unknown key), the clone "
                        f"is named like its source, and because assumptions were 'passed' the source's own assumptions are discarded")
        for label, kwargs in variants:
            run.ob("N3", f"{name}:{label}")
            source = Obj("Symbol", {"display_name": "SRC", "display_latex": "SRCTEX", "dimension": D, "assumptions0": {"real": True, "commutative": True, "negative": False}}, "source")
            R = CloneReader(m.tree, "symbols.py")
            try:
                got = R.call(name, [source] + list(extra), dict(kwargs))
                problem = None
            except Raised as r:
                got, problem = None, f"raises {r.exc}"
            if not problem:
                if not (isinstance(got, Obj) and got.cls == cls and got in R.built):
                    problem = f"does not return a {cls}(...) it constructs (got {got!r})"
            if not problem:
                a_, k_ = got.attrs["args"], got.attrs["kwargs"]
                dim = a_[dim_idx] if len(a_) > dim_idx else k_.get(dim_kw)
                code = a_[0] if a_ else k_.get("display_symbol")
                latex = k_.get("display_latex")
                want_code = kwargs.get("display_symbol", "SRC")
                want_latex = kwargs.get("display_latex", "SRCTEX")
                own = {k: v for k, v in kwargs.items() if k not in ("display_symbol", "display_latex", "subscript")}
                want_assumptions = own or {"real": True, "commutative": True, "negative": False}
                got_assumptions = {k: v for k, v in k_.items() if k not in ("display_latex", "display_symbol", dim_kw)}
                if not (isinstance(dim, Dim) and dim == D):
                    problem = f"passes {dim!r} as dimension instead of source.dimension"
                elif not isinstance(code, str) or not isinstance(latex, str):
                    problem = f"does not pass both display names to {cls} (code {code!r}, LaTeX {latex!r})"
                elif "subscript" in kwargs and not (code.startswith(want_code) and "SUB" in code and latex.startswith(want_latex) and "SUB" in latex):
                    problem = f"with subscript 'SUB' names the clone ({code!r}, {latex!r}): the subscript has to reach both the code name and the LaTeX name"
                elif "subscript" not in kwargs and (code != want_code or latex != want_latex):
                    problem = f"names the clone ({code!r}, {latex!r}); expected ({want_code!r}, {want_latex!r}) - explicit names win, otherwise the source's"
                elif got_assumptions != want_assumptions:
                    whose = "the caller's" if own else "source.assumptions0 when none are passed: a clone of a real/positive symbol must not lose that knowledge"
                    problem = f"forwards the assumptions {got_assumptions!r}; expected {want_assumptions!r} ({whose})"
            if problem:
                run.violate("N3", f"{SYMS}:{name}:{label}", m, fdef, f"{name} ({label}) {problem}")
        run.sample({"clone": f"{SYMS}:{name}"})


def _name_uses(fn: ast.AST) -> list[ast.AST]:
    out = []
    for x in ast.walk(fn):
        if isinstance(x, ast.Attribute) and x.attr == "name" and isinstance(x.ctx, ast.Load):
            out.append(x)
        elif isinstance(x, ast.Call) and dotted(x.func) == "getattr" and len(x.args) >= 2 and isinstance(x.args[1], ast.Constant) and x.args[1].value == "name":
            out.append(x)
    return out


def _under_negated_isinstance(fn: ast.AST, node: ast.AST) -> bool:
    """`node` is evaluated only when isinstance(<expr>, DimensionSymbol|Symbol) is false."""
    parents = {}
    for p in ast.walk(fn):
        for ch in ast.iter_child_nodes(p):
            parents[id(ch)] = p
    cur = node
    while id(cur) in parents:
        p = parents[id(cur)]
        if isinstance(p, ast.IfExp) and cur is p.orelse and isinstance(p.test, ast.Call) and dotted(p.test.func) == "isinstance":
            return True
        cur = p
    st = stmt_of(fn, node)
    conds = conditions_for(fn, st) or [] if st is not None else []
    for t, pol in conds:
        if isinstance(t, str):
            continue
        if isinstance(t, ast.Call) and dotted(t.func) == "isinstance" and pol is False:
            return True
    return False


def _n4(run: Run, w: World) -> None:
    run.rule("N4", "symbol printers show display_name/display_latex for DimensionSymbols; the generated .name is used only for foreign symbols")
    sites = [
        (SYMS, "SymbolPrinter._print_Symbol", "display_name"),
        ("symplyphysics.docs.printer_code", "SymbolCodePrinter._print_Symbol", "display_name"),
        ("symplyphysics.docs.printer_latex", "SymbolLatexPrinter._print_Symbol", "display_latex"),
    ]
    for modname, path, attr in sites:
        try:
            f = Fn(w, modname, path)
        except AnalysisError:
            # class name may differ: find the method by name
            mod = run.src.need(modname)
            cands = [c.name for c in mod.tree.body if isinstance(c, ast.ClassDef) and any(isinstance(s, ast.FunctionDef) and s.name == "_print_Symbol" for s in c.body)]
            run.require(len(cands) == 1, f"{modname}: _print_Symbol not found")
            f = Fn(w, modname, f"{cands[0]}._print_Symbol")
        run.ob("N4", f"{f.qual}")
        ok = False
        for r in f.cfg.returns():
            sl = f.slice(r, r.ast.value)
            if attr in sl.attr_names:
                ok = True
        if not ok:
            run.violate("N4", f"{f.qual}:display", f.mod, f.fn, f"{path} never prints `{attr}`: symbols would appear under generated names (SYM123)")
        for u in _name_uses(f.fn):
            run.ob("N4", f"{f.qual}:name-use@{norm(u, 30)}")
            if not _under_negated_isinstance(f.fn, u):
                run.violate("N4", f"{f.qual}:name-use:{norm(u, 40)}", f.mod, u,
                            f"`{norm(u, 40)}` (the generated internal name) can be printed for a library symbol: it is not guarded by a failed isinstance(..., DimensionSymbol) test")
        run.sample({"printer": f.qual, "attribute": attr})
    # DimensionSymbol._sympystr and Symbol.__init__ fallback
    f = Fn(w, SYMS, "DimensionSymbol._sympystr")
    run.ob("N4", "DimensionSymbol._sympystr")
    if not any("display_name" in f.slice(r, r.ast.value).attr_names for r in f.cfg.returns()):
        run.violate("N4", f"{f.qual}:display", f.mod, f.fn, "str() of a library symbol no longer prints display_name")
    g = Fn(w, SYMS, "Symbol.__init__")
    run.ob("N4", "Symbol.__init__:fallback")
    calls = [(n, c) for n in g.cfg.stmt_nodes() for c in node_calls(n) if isinstance(c.func, ast.Attribute) and c.func.attr == "__init__"]
    good = False
    for n, c in calls:
        if c.args:
            s = g.slice(n, c.args[0])
            first = [e for e in s.exprs if isinstance(e, ast.BoolOp) and isinstance(e.op, ast.Or)]
            if "display_symbol" in s.params and (not first or dotted(first[0].values[0]) == "display_symbol"):
                good = True
    if not good:
        run.violate("N4", f"{g.qual}:fallback", g.mod, g.fn, "Symbol.__init__ does not give the caller's display_symbol precedence over the generated name")
    # generated class names (FUN12) in the human-readable printers and their helpers: `X.__name__` may be printed only for foreign objects
    from ..flow import conditions_for, stmt_of

    def is_dimsym_test(t, target: str) -> bool:
        return isinstance(t, ast.Call) and dotted(t.func) == "isinstance" and len(t.args) == 2 and dotted(t.args[0]) == target \
            and "DimensionSymbol" in {dotted(e) for e in (t.args[1].elts if isinstance(t.args[1], ast.Tuple) else [t.args[1]])}

    nn = 0
    for modname in ("symplyphysics.docs.miscellaneous", "symplyphysics.docs.printer_code", "symplyphysics.docs.printer_latex", "symplyphysics.docs.printer_pretty"):
        m = run.src.mods.get(modname)
        if m is None:
            continue
        for fn in [x for x in ast.walk(m.tree) if isinstance(x, ast.FunctionDef)]:
            for u in [x for x in ast.walk(fn) if isinstance(x, ast.Attribute) and x.attr == "__name__" and isinstance(x.ctx, ast.Load)]:
                if any(isinstance(g_, ast.FunctionDef) and g_ is not fn and any(y is u for y in ast.walk(g_)) for g_ in ast.walk(fn)):
                    continue  # reported for the inner function
                target = dotted(u.value)
                if target is None or target.split(".")[0] in ("type", "cls", "self.__class__"):
                    continue
                nn += 1
                run.ob("N4", f"{modname}:{fn.name}:{target}.__name__")
                st = stmt_of(fn, u)
                conds = [(t, pol) for t, pol in (conditions_for(fn, st) or []) if not isinstance(t, str)]
                ok = any(pol is False and is_dimsym_test(t, target) for t, pol in conds)
                if not ok and isinstance(st, ast.Assign) and len(st.targets) == 1 and isinstance(st.targets[0], ast.Name) and st.value is u:
                    # `v = X.__name__` followed by `if isinstance(X, DimensionSymbol): v = X.display_...` in the same function
                    v = st.targets[0].id
                    for later in [x for x in ast.walk(fn) if isinstance(x, ast.If) and is_dimsym_test(x.test, target)]:
                        if any(isinstance(a, ast.Assign) and any(isinstance(t_, ast.Name) and t_.id == v for t_ in a.targets) and isinstance(a.value, ast.Attribute)
                               and a.value.attr.startswith("display_") for a in later.body):
                            ok = True
                if not ok:
                    run.violate("N4", f"{modname}:{fn.name}:{target}.__name__", m, u,
                                f"`{target}.__name__` - for a library function the generated class name (FUN12) - reaches human-readable output of {fn.name} without a failed "
                                f"isinstance({target}, DimensionSymbol) test or a display-name override: functions are printed under internal names")
    run.floor("N4", nn, 2, "__name__ reads in the printers")


# SymPy base classes of the library's dimensioned symbols whose instances SymPy REBUILDS from their args (Basic.doit, simplify: `self.func(*args)`):
# they are not Atom subclasses. Symbol and Quantity (AtomicExpr) are atoms: doit() returns the object itself.
REBUILT_BASES = {"IndexedBase"}


def _n5(run: Run, w: World) -> None:
    """display names and the declared dimension live in Python attributes set by __init__, not in SymPy's args: a class that SymPy rebuilds from its args loses them
    (the rebuilt IndexedSymbol prints its generated name SYM<n> and is dimensionless). Such a class has to be its own result of doit() - or hand out a `func`
    that returns the object itself, as Quantity does."""
    run.rule("N5", "a dimensioned symbol class that SymPy rebuilds from its args (not an Atom) evaluates to itself: doit() returns self, or func returns the object")
    m = run.src.need(SYMS)
    for cls in [c for c in m.tree.body if isinstance(c, ast.ClassDef)]:
        bases = {(dotted(b) or "").split(".")[-1] for b in cls.bases}
        if "DimensionSymbol" not in bases or not (bases & REBUILT_BASES):
            continue
        run.ob("N5", cls.name)
        ok = False
        for f_ in [x for x in cls.body if isinstance(x, ast.FunctionDef)]:
            rets = [r for r in ast.walk(f_) if isinstance(r, ast.Return)]
            if f_.name == "doit" and rets and all(isinstance(r.value, ast.Name) and r.value.id == "self" for r in rets):
                ok = True
            if f_.name == "func" and any(dotted(d) == "property" for d in f_.decorator_list) and rets:
                # lambda *_: self / partial(<identity method>, self)
                for r in rets:
                    v = r.value
                    if isinstance(v, ast.Lambda) and isinstance(v.body, ast.Name) and v.body.id == "self":
                        ok = True
                    if isinstance(v, ast.Call) and dotted(v.func) == "partial" and len(v.args) == 2 and dotted(v.args[1]) == "self":
                        ok = True
        if not ok:
            run.violate("N5", f"{SYMS}:{cls.name}:rebuilt-from-args", m, cls,
                        f"{cls.name} derives from {sorted(bases & REBUILT_BASES)[0]}, which SymPy rebuilds as `self.func(*self.args)` in doit()/simplify(); the rebuilt object goes through "
                        f"__init__ with the bare label and comes out with the generated name SYM<n> as display name and dimensionless - `law.subs(global_index, local_index).doit()` "
                        f"(the library's own idiom for indexed sums) then prints SYM244[1] + SYM244[2] and loses the declared dimension. Define doit() to return self (or a func that does)")


def _n6(run: Run, w: World) -> None:
    """Python hands the same call arguments to __new__ and __init__. A keyword that __init__ names but __new__ does not falls into __new__'s **assumptions and
    becomes a SymPy assumption of the object (`dimension: True`); the clone helpers forward source.assumptions0 together with source.dimension, so the constructor
    then receives the keyword twice and the clone raises TypeError."""
    run.rule("N6", "for the classes the clone helpers construct, every keyword parameter of __init__ is a parameter of __new__ under the same name (it must not leak into the SymPy assumptions)")
    m = run.src.need(SYMS)
    for cname in ("Symbol", "Function", "IndexedSymbol"):
        cls = next((c for c in m.tree.body if isinstance(c, ast.ClassDef) and c.name == cname), None)
        run.require(cls is not None, f"class {cname} not found")
        fs = {f_.name: f_ for f_ in cls.body if isinstance(f_, ast.FunctionDef)}
        if "__new__" not in fs or "__init__" not in fs:
            continue
        nw, it = fs["__new__"], fs["__init__"]
        if nw.args.kwarg is None:
            continue  # an unknown keyword is a TypeError at once, nothing can leak
        new_names = {a.arg for a in nw.args.posonlyargs + nw.args.args + nw.args.kwonlyargs}
        for a in (it.args.args + it.args.kwonlyargs)[1:]:
            run.ob("N6", f"{cname}:{a.arg}")
            if a.arg not in new_names:
                run.violate("N6", f"{SYMS}:{cname}:{a.arg}", m, nw,
                            f"{cname}.__init__ takes `{a.arg}` but {cname}.__new__ does not name it: `{cname}(..., {a.arg}=...)` passes it to __new__'s **{nw.args.kwarg.arg}, "
                            f"SymPy stores it as the assumption `{a.arg}: True`, and clone_as_symbol/function/indexed of such a symbol raise TypeError (got multiple values for "
                            f"argument '{a.arg}') because they forward source.assumptions0")


MEMOISERS = {"cache", "lru_cache", "cacheit", "cached", "memoize", "memoized"}
SYMBOL_MAKERS = {"Symbol", "Function", "IndexedSymbol", "VectorSymbol", "VectorFunction", "SymSymbol", "SymFunction", "IndexedBase", "CoordSys3D", "next_name",
                 "clone_as_symbol", "clone_as_function", "clone_as_indexed", "clone_as_vector_symbol", "clone_as_vector_function", "symbols", "Dummy"}


def _n7(run: Run) -> None:
    """N7: a function a constructor calls to make the new object's own symbols is not memoised - a memoised maker hands the SAME symbols to every object,
    so the base vectors / scalars of two coordinate systems (or whatever the objects own) are one SymPy object and merge in sums, substitutions and solutions."""
    run.rule("N7", "no memoising decorator on a function that creates library symbols and is called from a constructor (each object gets its own symbols)")
    n = 0
    for m in run.src.mods.values():
        if not m.name.startswith("symplyphysics.core"):
            continue
        called_from_ctor = set()
        for c in [x for x in ast.walk(m.tree) if isinstance(x, ast.FunctionDef) and x.name in ("__init__", "__new__", "__init_subclass__")]:
            for call in [x for x in ast.walk(c) if isinstance(x, ast.Call)]:
                called_from_ctor.add((dotted(call.func) or "").split(".")[-1])
        for fn in [x for x in ast.walk(m.tree) if isinstance(x, (ast.FunctionDef, ast.AsyncFunctionDef))]:
            makes = sorted({(dotted(c.func) or "").split(".")[-1] for c in ast.walk(fn) if isinstance(c, ast.Call)} & SYMBOL_MAKERS)
            if not makes or fn.name not in called_from_ctor:
                continue
            n += 1
            run.ob("N7", f"{m.name}:{fn.name}")
            memo = [d for d in fn.decorator_list if ((dotted(d.func) if isinstance(d, ast.Call) else dotted(d)) or "").split(".")[-1] in MEMOISERS]
            if memo:
                run.violate("N7", f"{m.name}:{fn.name}:memoised", m, fn,
                            f"{fn.name} creates symbols ({', '.join(makes)}) for the object under construction and is memoised (@{norm(memo[0], 30)}): every later object of the class "
                            f"receives the very same symbols, so the symbols of two distinct objects are one SymPy object (2*e_z(A) + 3*e_z(B) is 5*e_z)")
    run.floor("N7", n, 4, "symbol-making functions called from constructors")


ASSUMPTION_KEYS = {"zero", "nonzero", "positive", "negative", "nonnegative", "nonpositive", "real", "complex", "imaginary", "finite", "infinite", "integer", "rational",
                   "irrational", "even", "odd", "prime", "composite", "hermitian", "antihermitian", "extended_real", "extended_positive", "extended_negative", "algebraic", "transcendental"}


def _n8(run: Run) -> None:
    """N8: the constructors of the symbol classes hand the SymPy base constructor the caller's assumptions and no others. A hard-coded assumption (zero=False on every vector
    symbol) changes what SymPy does with every expression the symbol occurs in: Eq(a, 0) evaluates to False, so an equation a = 0 can no longer be written"""
    run.rule("N8", "no symbol constructor passes a hard-coded assumption (zero=, positive=, real=, ...) to the SymPy base constructor: only the caller's **assumptions")
    n = 0
    for modname in ("symplyphysics.core.symbols.symbols", "symplyphysics.core.experimental.vectors"):
        m = run.src.need(modname)
        for c in [x for x in m.tree.body if isinstance(x, ast.ClassDef)]:
            for fn in [f for f in c.body if isinstance(f, ast.FunctionDef) and f.name in ("__new__", "__init__")]:
                for call in [x for x in ast.walk(fn) if isinstance(x, ast.Call) and isinstance(x.func, ast.Attribute) and x.func.attr in ("__new__", "__init__")]:
                    n += 1
                    run.ob("N8", f"{modname}:{c.name}.{fn.name}:{norm(call.func, 30)}")
                    forced = [k for k in call.keywords if k.arg in ASSUMPTION_KEYS and isinstance(k.value, ast.Constant)]
                    if forced:
                        run.violate("N8", f"{modname}:{c.name}.{fn.name}:{forced[0].arg}", m, call,
                                    f"{c.name}.{fn.name} passes the hard-coded assumption {forced[0].arg}={forced[0].value.value!r} to `{norm(call.func, 40)}`: every object of the class carries it "
                                    f"whatever the caller said, and SymPy acts on it (with zero=False, Eq(a, 0) evaluates to False: the equation a = 0 cannot be written any more)")
    run.floor("N8", n, 8, "base-constructor calls in the symbol classes")


def check(run: Run) -> None:
    w = World(run.src)
    prefixes = _n1(run, w)
    _n2(run, w, prefixes)
    _n3(run, w)
    _n4(run, w)
    _n5(run, w)
    _n6(run, w)
    _n7(run)
    _n8(run)
