"""C04 - the dimension gate: catalogue guard tables (E1) and the shared gate code (E3)."""
from __future__ import annotations

import ast

from ..core import Run, AnalysisError, dotted, norm
from ..dim import World, Interp, guard_dimension
from ..calc import functions
from ..flow import Fn, kw, node_of, conditions_for, stmt_of, loop_passes, has_subscript, node_calls, numeric_consts

EXPLANATION = (
    "Two layers. Catalogue (exhaustive over every decorated function of laws/definitions/conditions): G1 every validate_input "
    "keyword is a parameter of the decorated function (the decorator silently ignores unknown keywords), validate_output_same "
    "names a parameter; G2 every guard expression evaluates, in the static dimension engine, to something that carries a "
    "dimension and is not a vacuous (zero/infinite) guard. Core (statement CFG + dominators + slices over quantity_decorator.py, "
    "dimensions.py, miscellaneous.py, vectors.py, errors.py): K1 the wrapped call is dominated by a loop over all signature "
    "parameters that checks every guarded one with the value bound from (*args, **kwargs) and the parameter's name; K2 results "
    "are checked before being returned; K3 every element of a sequence argument reaches assert_equivalent_dimension; K4 the "
    "comparison raises TypeError for number-vs-dimensional and UnitsError (a ValueError) for inequivalent dimensions on every "
    "non-escaping path, with angle erased on both operands; K5 the any-dimension set is exactly {0, oo, -oo, nan}; K6 the scale "
    "factor reaches only is_number/is_any_dimension/error text; K7 QuantityVector checks every component; K8 its inferred dimension comes from a component that carries one.")
ASSUMPTIONS = [
    "SymPy's dimsys_SI.equivalent_dims / is_dimensionless are correct on rational exponents",
    "inspect.signature(...).bind(*args, **kwargs) maps positional and keyword passing to the same parameter names",
]
TRUSTED = ["sympy.physics.units dimension system", "inspect.signature / bind", "python ast"]

QD = "symplyphysics.core.quantity_decorator"
DIMS = "symplyphysics.core.dimensions.dimensions"
MISC = "symplyphysics.core.dimensions.miscellaneous"
VEC = "symplyphysics.core.vectors.vectors"
AEU = QD + "._assert_expected_unit"
AED = DIMS + ".assert_equivalent_dimension"
COLLECT = "symplyphysics.core.dimensions.collect_quantity.collect_quantity_factor_and_dimension"


def _catalogue(run: Run, w: World) -> None:
    run.rule("G1", "every validate_input keyword / validate_output_same name is a parameter of the decorated function")
    run.rule("G2", "every guard expression carries a dimension (symbol, function, indexed symbol, dimension, unit expression, tuple of those) and is not vacuous")
    nfun = 0
    for m in run.src.catalogue():
        env = w.env(m.name)
        for g in functions(w, m):
            if not (g.input_decos or g.output_decos or g.output_same_decos):
                continue
            nfun += 1
            it = Interp(w, env)
            for d in g.input_decos:
                if d.args or any(k.arg is None for k in d.keywords):
                    run.skip("G1", f"{m.rel}:{d.lineno} {g.fn.name}", "validate_input with positional or ** arguments")
                    continue
                for k in d.keywords:
                    run.ob("G1", f"{g.qual}:{k.arg}")
                    if k.arg not in g.params:
                        if g.has_varkw:
                            run.skip("G1", f"{m.rel}:{d.lineno} {g.fn.name}", "function takes **kwargs")
                        else:
                            run.violate("G1", f"{g.qual}:{k.arg}", m, k.value,
                                        f"guard `{k.arg}` names no parameter of {g.fn.name}({', '.join(g.params)}): validate_input ignores it, "
                                        f"so nothing is checked for it", parameters=g.params, guard=k.arg)
                    v = it.ev(k.value)
                    _g2(run, m, g, f"{k.arg}", k.value, v)
            for d in g.output_decos:
                if len(d.args) == 1:
                    v = it.ev(d.args[0])
                    _g2(run, m, g, "return", d.args[0], v)
                else:
                    run.skip("G2", f"{m.rel}:{d.lineno} {g.fn.name}", "validate_output arity")
            for d in g.output_same_decos:
                run.ob("G1", f"{g.qual}:output_same")
                a = d.args[0] if d.args else kw(d, "param_name")
                if not (isinstance(a, ast.Constant) and isinstance(a.value, str)):
                    run.skip("G1", f"{m.rel}:{d.lineno} {g.fn.name}", "validate_output_same with non-literal name")
                elif a.value not in g.params:
                    run.violate("G1", f"{g.qual}:output_same:{a.value}", m, d,
                                f"validate_output_same('{a.value}') names no parameter of {g.fn.name}: every call raises TypeError")
    run.notes["decorated_functions"] = nfun
    run.floor("G1", nfun, 300, "decorated catalogue functions")
    r = run.rules["G2"]
    if r["obligations"] < 0.95 * (r["obligations"] + r["undecided"]):
        raise AnalysisError(f"C04/G2: only {r['obligations']} of {r['obligations'] + r['undecided']} guard expressions typed")


def _g2(run: Run, m, g, which: str, node: ast.AST, v) -> None:
    d = guard_dimension(v)
    if d is not None:
        run.ob("G2", f"{g.qual}:{which}")
        if v.kind == "any" and v.extra != "symbol":
            run.violate("G2", f"{g.qual}:{which}:vacuous", m, node,
                        f"guard `{which}` of {g.fn.name} is {norm(node, 60)} (zero/infinite): assert_equivalent_dimension accepts anything against it")
        return
    if v.kind in ("str", "bool", "none", "dict", "lambda", "pyfunc", "pyclass", "module", "builtin"):
        run.ob("G2", f"{g.qual}:{which}")
        run.violate("G2", f"{g.qual}:{which}:not-a-dimension", m, node,
                    f"guard `{which}` of {g.fn.name} is {norm(node, 60)}, a {v.kind}: it carries no dimension")
        return
    run.skip("G2", f"{m.rel}:{getattr(node, 'lineno', 0)} {g.fn.name}:{which}", f"guard {norm(node, 50)} not typed: {v.why or v.kind}")


# --------------------------------------------------------------------------------------------- core


def _is_membership(test: ast.AST, polarity: bool, loopvar: str, table: str) -> bool:
    """(param.name in table) holds."""
    if isinstance(test, ast.UnaryOp) and isinstance(test.op, ast.Not):
        return _is_membership(test.operand, not polarity, loopvar, table)
    if isinstance(test, ast.Compare) and len(test.ops) == 1 and isinstance(test.comparators[0], ast.Name) \
            and test.comparators[0].id == table and dotted(test.left) == f"{loopvar}.name":
        if isinstance(test.ops[0], ast.In):
            return polarity is True
        if isinstance(test.ops[0], ast.NotIn):
            return polarity is False
    return False


def _loop_conditions(fn: Fn, loop, call: ast.Call):
    st = stmt_of(fn.fn, call)
    conds = conditions_for(fn.fn, st, stop=loop.ast) if st is not None else None
    return conds


def _k1(run: Run, w: World) -> None:
    run.rule("K1", "validate_input: the wrapped call is dominated by a loop over all signature parameters that checks each guarded parameter (value from bind(*args, **kwargs), name from the parameter)")
    f = Fn(w, QD, "validate_input.validate_func.wrapper_validate")
    # the call of the wrapped function: callee is the closure variable `func`, called with *args, **kwargs
    wrapped = [(n, c) for n in f.cfg.stmt_nodes() for c in node_calls(n)
               if isinstance(c.func, ast.Name) and c.func.id == "func" and any(isinstance(a, ast.Starred) for a in c.args)]
    run.require(bool(wrapped), "validate_input wrapper no longer calls func(*args, **kwargs)")
    loops = [n for n in f.cfg.stmt_nodes() if n.kind == "for"]
    good_loops = []
    for lp in loops:
        sl = f.slice(lp, lp.ast.iter)
        tgt = lp.ast.target
        if not isinstance(tgt, ast.Name):
            continue
        full = "inspect.signature" in {f.callee(node_of(f.cfg, c) or lp, c) for c in sl.call_nodes} and "parameters" in sl.attr_names \
            and not has_subscript(sl.exprs) and not (sl.calls - {"inspect.signature", ".values", ".items", "list", "tuple"} - {c for c in sl.calls if c.endswith("parameters.values")})
        if not full:
            continue
        if any(isinstance(x, (ast.Break, ast.Return)) for s in lp.ast.body for x in ast.walk(s)):
            continue
        for n, c in f.calls(AEU):
            if not any(t is lp for t, _ in n.lexical_tests) or len(c.args) < 3:
                continue
            conds = _loop_conditions(f, lp, c)
            if conds is None:
                continue
            real = [(t, p) for t, p in conds if not isinstance(t, str)]
            only_membership = len(real) == 1 and _is_membership(real[0][0], real[0][1], tgt.id, "decorator_kwargs") and len(conds) == 1
            s0, s1, s2 = f.slice(n, c.args[0]), f.slice(n, c.args[1]), f.slice(n, c.args[2])
            value_ok = {"args", "kwargs"} <= s0.params and ".bind" in {x if x.startswith(".") else "." + x.split(".")[-1] for x in s0.calls} \
                and f"{tgt.id}.name" in s0.attrs and not numeric_consts(s0)
            table_ok = "decorator_kwargs" in s1.free and f"{tgt.id}.name" in s1.attrs
            name_ok = dotted(c.args[2]) == f"{tgt.id}.name"
            if only_membership and value_ok and table_ok and name_ok and loop_passes_or_guard(f, lp, n):
                good_loops.append(lp)
    for n, c in wrapped:
        run.ob("K1", f"wrapped-call@{norm(c, 40)}")
        if not f.cfg.dominated_by(n, lambda x: x in good_loops):
            run.violate("K1", f"{f.qual}:call-of-wrapped", f.mod, c,
                        "the wrapped function can run without every guarded parameter having been checked: no dominating loop over all "
                        "signature parameters that calls _assert_expected_unit(bound value, decorator_kwargs[name], name, ...) under exactly the "
                        "condition `name in decorator_kwargs`")
    run.sample({"function": f.qual, "wrapped_call": [f.line(c) for _, c in wrapped], "checking_loops": [f.line(l) for l in good_loops]})


def loop_passes_or_guard(f: Fn, lp, check_node) -> bool:
    # every iteration either reaches the check or leaves through the membership guard: since the only condition on the check
    # is the membership test (verified by the caller), nothing more to demand here; kept as a hook for stricter variants
    return True


def _k2(run: Run, w: World) -> None:
    run.rule("K2", "validate_output / validate_output_same: every return of the wrapper is dominated by _assert_expected_unit(result, expected)")
    for path, expected_free in (("validate_output.validate_func.wrapper_validate", "expected_unit"),
                                ("validate_output_same.validate_func.wrapper_validate", None)):
        f = Fn(w, QD, path)
        rets = f.cfg.returns()
        run.require(bool(rets), f"{path} has no return")
        checks = f.calls(AEU)
        for r in rets:
            run.ob("K2", f"{path}:return")
            v = r.ast.value
            if v is None:
                run.violate("K2", f"{f.qual}:return-none", f.mod, r.ast, "wrapper returns nothing")
                continue
            sv = f.slice(r, v)
            funcalls = [c for c in sv.call_nodes if isinstance(c.func, ast.Name) and c.func.id == "func"]
            if not funcalls or not all(isinstance(e, (ast.Name, ast.Call)) for e in sv.exprs):
                run.violate("K2", f"{f.qual}:return-not-result", f.mod, r.ast, f"the wrapper returns {norm(v, 50)}, not the unchanged result of the wrapped function")
                continue
            ok = False
            for n, c in checks:
                if len(c.args) < 2:
                    continue
                s0 = f.slice(n, c.args[0])
                same_value = any(fc in s0.call_nodes for fc in funcalls) and all(isinstance(e, (ast.Name, ast.Call)) for e in s0.exprs)
                s1 = f.slice(n, c.args[1])
                if expected_free is not None:
                    exp_ok = s1.free == {expected_free} and not s1.params and not s1.calls and not s1.consts
                else:
                    exp_ok = {"args", "kwargs"} <= s1.params and "param_name" in f.slice(n, c.args[1], control=True).free
                if same_value and exp_ok and f.cfg.dominated_by(r, lambda x: x is n):
                    ok = True
            if not ok:
                run.violate("K2", f"{f.qual}:return-unchecked", f.mod, r.ast,
                            "a return of the wrapper is not dominated by an unconditional _assert_expected_unit(<result>, <expected>) call")
        run.sample({"function": f.qual, "returns": [f.line(r) for r in rets], "checks": [f.line(c) for _, c in checks]})


def _k3(run: Run, w: World) -> None:
    run.rule("K3", "_assert_expected_unit: one entry per element of a sequence argument, every entry reaches assert_equivalent_dimension against the matching expected dimension")
    f = Fn(w, QD, "_assert_expected_unit")
    run.require({"value", "expected_units", "param_name", "function_name"} <= set(f.params), "_assert_expected_unit parameters changed")
    aed = f.calls(AED)
    run.require(bool(aed), "_assert_expected_unit no longer calls assert_equivalent_dimension")
    ok = False
    detail = "no loop over all collected components that calls assert_equivalent_dimension unconditionally"
    for n, c in aed:
        loops = [t for t, br in n.lexical_tests if t.kind == "for"]
        if len(loops) != 1 or len(c.args) < 4:
            continue
        lp = loops[0]
        conds = conditions_for(f.fn, stmt_of(f.fn, c), stop=lp.ast)
        if conds != []:
            detail = f"the dimension assertion at line {f.line(c)} is conditional ({[norm(t, 40) if not isinstance(t, str) else t for t, _ in (conds or [])]})"
            continue
        it = lp.ast.iter
        si = f.slice(lp, it)
        if has_subscript([it]) or (si.calls - {"enumerate", "list", "isinstance", ".append", "zip", "range", "len", "tuple"} - {x for x in si.calls if x.endswith(".append")}):
            detail = f"the checking loop iterates {norm(it, 60)}, not the whole component list"
            continue
        if "value" not in si.params:
            detail = "the checked list does not derive from the `value` argument"
            continue
        # element: arg0 is the loop element
        tnames = {x.id for x in ast.walk(lp.ast.target) if isinstance(x, ast.Name)}
        if not (isinstance(c.args[0], ast.Name) and c.args[0].id in tnames):
            detail = "assert_equivalent_dimension is not given the loop element"
            continue
        s3 = f.slice(n, c.args[3])
        if "expected_units" not in s3.params:
            detail = "the expected dimension given to assert_equivalent_dimension does not derive from `expected_units`"
            continue
        if any(isinstance(x, (ast.Break, ast.Return, ast.Continue)) for s in lp.ast.body for x in ast.walk(s)):
            detail = "the checking loop can stop early"
            continue
        # the list that is iterated is filled by a loop over all values that appends on every path
        fills = []
        for ln in [x for x in f.cfg.stmt_nodes() if x.kind == "for" and x is not lp]:
            sl = f.slice(ln, ln.ast.iter)
            if "value" in sl.params and not has_subscript(sl.exprs):
                appended = {dotted(cc.func.value) for x in f.cfg.stmt_nodes() if any(t is ln for t, _ in x.lexical_tests)
                            for cc in node_calls(x) if isinstance(cc.func, ast.Attribute) and cc.func.attr == "append"}
                for name in appended:
                    if name and name in {x.id for x in ast.walk(it) if isinstance(x, ast.Name)}:
                        if loop_passes(f.cfg, ln, lambda x, name=name: any(isinstance(cc.func, ast.Attribute) and cc.func.attr == "append" and dotted(cc.func.value) == name for cc in node_calls(x))) \
                                and not any(isinstance(x, (ast.Break, ast.Return, ast.Continue)) for s in ln.ast.body for x in ast.walk(s)):
                            fills.append(ln)
        # every appended component is (derived from) the element itself: a constant such as 0 matches every dimension
        vacuous = None
        for ln in fills:
            lt = {x.id for x in ast.walk(ln.ast.target) if isinstance(x, ast.Name)}
            for x in f.cfg.stmt_nodes():
                if any(t is ln for t, _ in x.lexical_tests):
                    for cc in node_calls(x):
                        if isinstance(cc.func, ast.Attribute) and cc.func.attr == "append" and cc.args \
                                and not (lt & {y.id for y in ast.walk(cc.args[0]) if isinstance(y, ast.Name)}):
                            # admissible only where the path condition has established that EVERY component of the element is a zero/inf/NaN value:
                            # all(is_any_dimension(c.scale_factor) for c in <element>.components)
                            st_ = stmt_of(f.fn, cc)
                            conds_ = [t_ for t_, pol_ in (conditions_for(f.fn, st_, stop=ln.ast) or []) if not isinstance(t_, str) and pol_ is True]
                            established = False
                            for t_ in conds_:
                                for al in [y for y in ast.walk(t_) if isinstance(y, ast.Call) and dotted(y.func) == "all" and y.args and isinstance(y.args[0], (ast.GeneratorExp, ast.ListComp))]:
                                    g_ = al.args[0]
                                    over_element = any(lt & {z.id for z in ast.walk(gen.iter) if isinstance(z, ast.Name)} for gen in g_.generators)
                                    tests_any = isinstance(g_.elt, ast.Call) and dotted(g_.elt.func) == "is_any_dimension" and not g_.generators[0].ifs
                                    if over_element and tests_any:
                                        established = True
                            if not established:
                                vacuous = cc
        if vacuous is not None:
            detail = (f"`{norm(vacuous, 60)}` puts a value that does not come from the argument into the list of checked components: "
                      f"that element of the argument is never dimension-checked (a zero matches every dimension)")
            continue
        comp = isinstance(it, ast.Call) and any(isinstance(a, (ast.ListComp, ast.GeneratorExp)) for a in ast.walk(it))
        if not fills and not comp:
            # components may also be built by a comprehension over all values
            sdefs = [d for d in si.def_nodes if isinstance(d.ast, ast.Assign) and isinstance(d.ast.value, (ast.ListComp, ))]
            if not sdefs:
                detail = "the list of checked components is not filled for every element of the argument (an element can be skipped)"
                continue
        if n in f.cfg.reachable() and all(f.cfg.dominated_by(x, lambda y: y is lp) for x in f.cfg.normal_exits()):
            ok = True
    run.ob("K3", "element-coverage")
    if not ok:
        run.violate("K3", f"{f.qual}:element-coverage", f.mod, f.fn, detail)
    # the values list covers the whole sequence: list(value) / [value]
    run.sample({"function": f.qual, "assertions": [f.line(c) for _, c in aed]})


def _raise_type(f: Fn, n) -> str | None:
    exc = n.ast.exc
    if isinstance(exc, ast.Call):
        return f.callee(n, exc) or dotted(exc.func)
    return dotted(exc) if exc is not None else None


def _k4(run: Run, w: World) -> None:
    run.rule("K4", "assert_equivalent_dimension: every non-escaping normal exit is dominated by the number-vs-dimensional test (TypeError) and the equivalent_dims test (UnitsError < ValueError), angle erased on both operands")
    f = Fn(w, DIMS, "assert_equivalent_dimension", inline=True)
    run.require({"arg", "expected_unit"} <= set(f.params), "assert_equivalent_dimension parameters changed")
    tests = [n for n in f.cfg.stmt_nodes() if n.kind == "test" and isinstance(n.ast, ast.If)]

    def test_calls(n) -> set:
        return {dotted(c.func) or "" for c in ast.walk(n.ast.test) if isinstance(c, ast.Call)}

    def raising(n, exc_quals) -> bool:
        # the true branch of the test consists of a raise of one of exc_quals
        body = n.ast.body
        if len(body) != 1 or not isinstance(body[0], ast.Raise):
            return False
        rn = f.cfg.of_stmt.get(id(body[0]))
        return rn is not None and _raise_type(f, rn) in exc_quals

    t1 = [n for n in tests if "dimsys_SI.is_dimensionless" in test_calls(n) and raising(n, {"builtins.TypeError"}) and _t1_shape(n.ast.test)]
    t2 = [n for n in tests if "dimsys_SI.equivalent_dims" in test_calls(n) and raising(n, {"symplyphysics.core.errors.UnitsError"}) and _t2_shape(n.ast.test)]
    escapes = []
    for n in f.cfg.returns():
        conds = conditions_for(f.fn, n.ast) or []
        inner = [(t, p) for t, p in conds if not isinstance(t, str)]
        # an escape return: under a test made only of is_any_dimension(...) / isinstance(..., AnyDimension)
        if inner and _escape_test(f, inner[-1][0]) and inner[-1][1] is True:
            escapes.append(n)
    for x in f.cfg.normal_exits():
        run.ob("K4", f"exit@{norm(x.ast, 50) if x.ast is not None else 'end'}")
        if x in escapes:
            continue
        d1 = f.cfg.dominated_by(x, lambda y: y in t1)
        d2 = f.cfg.dominated_by(x, lambda y: y in t2)
        if not (d1 and d2):
            missing = [] if d1 else ["is_dimensionless(arg) and not is_dimensionless(expected) -> TypeError"]
            missing += [] if d2 else ["not equivalent_dims(arg, expected) -> UnitsError"]
            run.violate("K4", f"{f.qual}:exit:{norm(x.ast, 60) if x.ast is not None else 'end'}", f.mod, x.ast or f.fn,
                        "a normal exit of assert_equivalent_dimension is reachable without " + " / ".join(missing))
    # angle erasure on both operands at the comparison tests
    for t in t1 + t2:
        for var in ("arg", "expected_unit"):
            run.ob("K4", f"angle-erasure:{var}@{f.line(t)}")
            ds = f.cfg.reaching().get(t, {}).get(var, frozenset())
            good = bool(ds) and all(_is_angle_subs(d) for d in ds)
            if not good:
                run.violate("K4", f"{f.qual}:angle:{var}", f.mod, t.ast,
                            f"`{var}` reaches the dimension comparison without the angle->1 substitution on some path")
    # error classes
    err = run.src.need("symplyphysics.core.errors")
    cls = next((s for s in err.tree.body if isinstance(s, ast.ClassDef) and s.name == "UnitsError"), None)
    run.require(cls is not None, "UnitsError not found")
    run.ob("K4", "UnitsError<ValueError")
    if not any(dotted(b) == "ValueError" for b in cls.bases):
        run.violate("K4", "symplyphysics.core.errors:UnitsError:bases", err, cls, "UnitsError is no longer a ValueError")
    run.sample({"function": f.qual, "type_error_test": [f.line(t) for t in t1], "units_error_test": [f.line(t) for t in t2], "escape_returns": [f.line(e) for e in escapes]})


def _t1_shape(test: ast.AST) -> bool:
    """is_dimensionless(arg) and not is_dimensionless(expected_unit)"""
    if not (isinstance(test, ast.BoolOp) and isinstance(test.op, ast.And) and len(test.values) == 2):
        return False
    a, b = test.values
    pos = [v for v in (a, b) if isinstance(v, ast.Call)]
    neg = [v.operand for v in (a, b) if isinstance(v, ast.UnaryOp) and isinstance(v.op, ast.Not) and isinstance(v.operand, ast.Call)]
    if len(pos) != 1 or len(neg) != 1:
        return False
    return dotted(pos[0].func) == "dimsys_SI.is_dimensionless" and dotted(neg[0].func) == "dimsys_SI.is_dimensionless" \
        and [dotted(x) for x in pos[0].args] == ["arg"] and [dotted(x) for x in neg[0].args] == ["expected_unit"]


def _t2_shape(test: ast.AST) -> bool:
    if isinstance(test, ast.UnaryOp) and isinstance(test.op, ast.Not) and isinstance(test.operand, ast.Call):
        c = test.operand
        return dotted(c.func) == "dimsys_SI.equivalent_dims" and sorted(dotted(x) or "" for x in c.args) == ["arg", "expected_unit"]
    return False


def _escape_test(f: Fn, test: ast.AST) -> bool:
    vals = test.values if isinstance(test, ast.BoolOp) and isinstance(test.op, ast.Or) else [test]
    for v in vals:
        if not isinstance(v, ast.Call):
            return False
        d = dotted(v.func)
        if d == "is_any_dimension":
            continue
        if d == "isinstance" and len(v.args) == 2 and dotted(v.args[1]) == "AnyDimension":
            continue
        return False
    return True


def _is_angle_subs(d) -> bool:
    a = d.ast
    if not isinstance(a, ast.Assign):
        return False
    v = a.value
    return isinstance(v, ast.Call) and isinstance(v.func, ast.Attribute) and v.func.attr == "subs" and len(v.args) == 2 \
        and isinstance(v.args[0], ast.Constant) and v.args[0].value == "angle" and dotted(v.args[1]) in ("S.One", "1") \
        and isinstance(v.func.value, ast.Name) and len(a.targets) == 1 and isinstance(a.targets[0], ast.Name) \
        and a.targets[0].id == v.func.value.id


NUMERIC_CONVERSIONS = {"complex", "float", "int", "abs", "round", "N", "evalf", "n", "is_zero", "isinf", "isnan", "isfinite", "isclose", "sqrt", "log", "exp", "Abs"}


def _membership(v: ast.AST, param: str):
    """set of dotted names the parameter is compared with by exact equality/membership, or None"""
    if isinstance(v, ast.Compare) and len(v.ops) == 1 and isinstance(v.ops[0], ast.In) and isinstance(v.comparators[0], (ast.Tuple, ast.List, ast.Set)) \
            and dotted(v.left) == param:
        return {dotted(e) or norm(e) for e in v.comparators[0].elts}
    if isinstance(v, ast.Compare) and len(v.ops) == 1 and isinstance(v.ops[0], (ast.Eq, ast.Is)) and dotted(v.left) == param:
        return {dotted(v.comparators[0]) or norm(v.comparators[0])}
    if isinstance(v, ast.BoolOp) and isinstance(v.op, ast.Or):
        out = set()
        for x in v.values:
            m = _membership(x, param)
            if m is None:
                return None
            out |= m
        return out
    if isinstance(v, ast.Call) and dotted(v.func) == "bool" and len(v.args) == 1:
        return _membership(v.args[0], param)
    # SymPy assumption queries on the factor itself: exact (magnitude independent) predicates
    if isinstance(v, ast.Attribute) and dotted(v.value) == param:
        table = {"is_zero": {"S.Zero"}, "is_infinite": {"S.Infinity", "S.NegativeInfinity", "S.ComplexInfinity"}}
        if v.attr in table:
            return set(table[v.attr])
    if isinstance(v, ast.Compare) and len(v.ops) == 1 and isinstance(v.ops[0], (ast.Is, ast.Eq)) and dotted(v.left) == param and dotted(v.comparators[0]) in ("S.NaN", "nan"):
        return {"S.NaN"}
    # getattr(factor, "is_zero", None) is True
    if isinstance(v, ast.Compare) and len(v.ops) == 1 and isinstance(v.ops[0], ast.Is) and isinstance(v.comparators[0], ast.Constant) and v.comparators[0].value is True:
        l = v.left
        if isinstance(l, ast.Call) and dotted(l.func) == "getattr" and len(l.args) >= 2 and dotted(l.args[0]) == param and isinstance(l.args[1], ast.Constant):
            return _membership(ast.Attribute(value=ast.Name(id=param, ctx=ast.Load()), attr=l.args[1].value, ctx=ast.Load()), param)
        return _membership(l, param)
    return None


def _k5(run: Run, w: World) -> None:
    run.rule("K5", "is_any_dimension tests exact membership in {0, +oo, -oo, zoo, NaN}: no numeric conversion or ordering comparison of the factor")
    f = Fn(w, MISC, "is_any_dimension")
    rets = f.cfg.returns()
    run.require(len(rets) >= 1 and len(f.params) == 1, "is_any_dimension shape changed")
    p = f.params[0]
    want = {"S.Zero", "S.Infinity", "S.NegativeInfinity", "S.ComplexInfinity", "S.NaN"}  # every zero, every infinity (1/0 of quantities is zoo), NaN
    accepted: set = set()
    undecided = []
    for r in rets:
        v = r.ast.value
        if isinstance(v, ast.Constant) and isinstance(v.value, bool):
            conds = conditions_for(f.fn, r.ast) or []
            if v.value is True:
                # `if <membership>: return True`
                for t, pol in conds:
                    if isinstance(t, str):
                        continue
                    m = _membership(t, p)
                    if m is not None and pol is True:
                        accepted |= m
                    elif m is None:
                        undecided.append(t)
            continue
        m = _membership(v, p) if v is not None else None
        if m is not None:
            accepted |= m
        else:
            undecided.append(v)
    run.ob("K5", "membership")
    magnitude = []
    for u in undecided:
        sl = f.slice(rets[0], u) if u is not None else None
        names = set()
        for e in (sl.exprs if sl else []):
            for x in ast.walk(e):
                if isinstance(x, ast.Call):
                    d = dotted(x.func) or (x.func.attr if isinstance(x.func, ast.Attribute) else "")
                    if d.split(".")[-1] in NUMERIC_CONVERSIONS:
                        names.add(d)
                elif isinstance(x, ast.Compare) and any(isinstance(o, (ast.Lt, ast.LtE, ast.Gt, ast.GtE)) for o in x.ops):
                    names.add("ordering comparison")
        if names:
            magnitude.append((u, sorted(names)))
    if magnitude:
        u, names = magnitude[0]
        run.violate("K5", f"{f.qual}:magnitude-dependent", f.mod, u,
                    f"is_any_dimension decides through {names} (`{norm(u, 70)}`): a numeric conversion/ordering of the scale factor makes 'matches any dimension' depend on the "
                    f"magnitude (float under/overflow, thresholds), so quantities of a wrong dimension can pass the gate")
    elif undecided:
        raise AnalysisError(f"C04/K5: is_any_dimension has a shape the reader does not understand: {norm(undecided[0])}")
    if accepted != want and not magnitude:
        run.violate("K5", f"{f.qual}:set", f.mod, rets[0].ast,
                    f"any-dimension values are {sorted(accepted)}; exactly {sorted(want)} required "
                    f"(extra: {sorted(accepted - want)}, missing: {sorted(want - accepted)})")
    elif accepted - want:
        run.violate("K5", f"{f.qual}:set", f.mod, rets[0].ast, f"any-dimension values include {sorted(accepted - want)}")
    run.sample({"function": f.qual, "set": sorted(accepted)})


def _k6(run: Run, w: World) -> None:
    run.rule("K6", "the scale factor of the argument is used only by is_number, is_any_dimension and the error text: the verdict cannot depend on magnitude")
    f = Fn(w, DIMS, "assert_equivalent_dimension", inline=True)
    factors = set()
    for n, c in f.calls(COLLECT):
        st = n.ast
        if isinstance(st, ast.Assign) and len(st.targets) == 1 and isinstance(st.targets[0], ast.Tuple) and len(st.targets[0].elts) == 2 \
                and isinstance(st.targets[0].elts[0], ast.Name):
            factors.add(st.targets[0].elts[0].id)
        else:
            raise AnalysisError(f"C04/K6: result of collect_quantity_factor_and_dimension is not destructured as (factor, dimension) at line {f.line(c)}")
    run.require(len(factors) >= 1, "no scale factor variable found in assert_equivalent_dimension")
    parents = {}
    for p in ast.walk(f.fn):
        for ch in ast.iter_child_nodes(p):
            parents[id(ch)] = p
    for x in ast.walk(f.fn):
        if isinstance(x, ast.Name) and isinstance(x.ctx, ast.Load) and x.id in factors:
            run.ob("K6", f"use:{x.id}@{x.lineno}")
            p = parents.get(id(x))
            ok = False
            if isinstance(p, ast.Call) and dotted(p.func) in ("is_number", "is_any_dimension") and len(p.args) == 1 and p.args[0] is x:
                ok = True
            q = p
            while q is not None and not ok:
                if isinstance(q, ast.JoinedStr):
                    ok = True
                q = parents.get(id(q))
            if not ok:
                run.violate("K6", f"{f.qual}:scale-factor-use:{norm(stmt_of(f.fn, x) or x, 70)}", f.mod, x,
                            f"scale factor `{x.id}` is used in `{norm(stmt_of(f.fn, x) or x, 70)}`: the verdict may depend on the magnitude")
    run.sample({"function": f.qual, "scale_factor_variables": sorted(factors)})


def _k7(run: Run, w: World) -> None:
    run.rule("K7", "QuantityVector.__init__ asserts the dimension of every component (angle components against angle_type)")
    f = Fn(w, VEC, "QuantityVector.__init__")
    ok = False
    detail = "no unconditional assert_equivalent_dimension(component, ...) in a loop over all components"
    for n, c in f.calls(AED):
        loops = [t for t, br in n.lexical_tests if t.kind == "for"]
        if len(loops) != 1 or len(c.args) < 4:
            continue
        lp = loops[0]
        conds = conditions_for(f.fn, stmt_of(f.fn, c), stop=lp.ast)
        if conds != []:
            detail = "the component assertion is conditional"
            continue
        si = f.slice(lp, lp.ast.iter)
        if has_subscript(si.exprs) or "components" not in si.params:
            detail = f"the loop iterates {norm(lp.ast.iter, 50)}, not all components"
            continue
        zips = [x for e in [lp.ast.iter] for x in ast.walk(e) if isinstance(x, ast.Call) and dotted(x.func) == "zip" and len(x.args) >= 2
                and not any(k.arg == "strict" and isinstance(k.value, ast.Constant) and k.value.value is True for k in x.keywords)]
        if zips:
            detail = (f"the loop iterates `{norm(lp.ast.iter, 60)}`: zip stops at the shortest sequence, so components beyond it are neither checked nor kept "
                      f"(a vector with more components than that sequence loses them silently)")
            continue
        tnames = {x.id for x in ast.walk(lp.ast.target) if isinstance(x, ast.Name)}
        if not (isinstance(c.args[0], ast.Name) and c.args[0].id in tnames):
            detail = "the assertion is not given the loop element"
            continue
        s3 = f.slice(n, c.args[3])
        if "dimension" not in s3.params or "angle_type" not in s3.free:
            detail = "the expected dimension is not (angle_type for angle components, else the vector's dimension)"
            continue
        if any(isinstance(x, (ast.Break, ast.Return, ast.Continue)) for s in lp.ast.body for x in ast.walk(s)):
            detail = "the checking loop can stop early"
            continue
        if all(f.cfg.dominated_by(x, lambda y: y is lp) for x in f.cfg.normal_exits()):
            ok = True
    run.ob("K7", "component-coverage")
    if not ok:
        run.violate("K7", f"{f.qual}:component-coverage", f.mod, f.fn, detail)
    run.sample({"function": f.qual})


def _flat_conditions(conds: list) -> list:
    """(test, polarity) pairs split through not / and (when true) / or (when false)."""
    out = []

    def add(t, pol):
        if isinstance(t, ast.UnaryOp) and isinstance(t.op, ast.Not):
            add(t.operand, not pol)
        elif isinstance(t, ast.BoolOp) and ((isinstance(t.op, ast.And) and pol) or (isinstance(t.op, ast.Or) and not pol)):
            for v in t.values:
                add(v, pol)
        else:
            out.append((t, pol))
    for t, pol in conds:
        if isinstance(t, ast.AST):
            add(t, pol)
    return out


def _k8(run: Run, w: World) -> None:
    run.rule("K8", "the dimension QuantityVector infers for itself comes only from a component that carries one: not an angle slot, "
             "not a zero/infinite/NaN scale factor (is_any_dimension), so the later component check cannot refuse on magnitude or order")
    f = Fn(w, VEC, "QuantityVector.__init__")
    sites = []
    for st in ast.walk(f.fn):
        if isinstance(st, ast.Assign) and len(st.targets) == 1 and isinstance(st.targets[0], ast.Name) and st.targets[0].id == "dimension" \
                and isinstance(st.value, ast.Attribute) and st.value.attr == "dimension" and isinstance(st.value.value, ast.Name):
            loops = [l for l in ast.walk(f.fn) if isinstance(l, ast.For) and any(x is st for b in l.body for x in ast.walk(b))]
            if not loops:
                raise AnalysisError(f"C04/K8: `{norm(st, 60)}` at line {st.lineno} is not inside a loop over the components")
            lp = loops[-1]
            conds = conditions_for(f.fn, st, stop=lp)
            if conds is None:
                raise AnalysisError(f"C04/K8: cannot locate `{norm(st, 60)}`")
            sites.append((st, st.value.value.id, _flat_conditions(conds)))
        elif isinstance(st, ast.Assign) and any(isinstance(t, ast.Name) and t.id == "dimension" for t in st.targets) \
                and any(isinstance(x, (ast.GeneratorExp, ast.ListComp)) for x in ast.walk(st.value)):
            for g in ast.walk(st.value):
                if isinstance(g, (ast.GeneratorExp, ast.ListComp)) and isinstance(g.elt, ast.Attribute) and g.elt.attr == "dimension" \
                        and isinstance(g.elt.value, ast.Name) and len(g.generators) == 1:
                    sites.append((st, g.elt.value.id, _flat_conditions([(c, True) for c in g.generators[0].ifs])))
    if not sites:
        dflt = [d for a, d in zip(reversed(f.fn.args.kwonlyargs), reversed(f.fn.args.kw_defaults)) if a.arg == "dimension"]
        if dflt and dflt[0] is None:
            run.ob("K8", "no-inference:dimension-required")
            run.sample({"function": f.qual, "inference": "none, dimension is a required argument"})
            return
        raise AnalysisError("C04/K8: no `dimension = <component>.dimension` inference found in QuantityVector.__init__ although `dimension` is optional")
    for st, elem, conds in sites:
        run.ob("K8", f"inference@{norm(st, 50)}")
        anydim = angle = False
        for t, pol in conds:
            if isinstance(t, ast.Call) and dotted(t.func).split(".")[-1] == "is_any_dimension" and len(t.args) == 1 and pol is False \
                    and isinstance(t.args[0], ast.Attribute) and t.args[0].attr == "scale_factor" and isinstance(t.args[0].value, ast.Name) \
                    and t.args[0].value.id == elem:
                anydim = True
            if isinstance(t, ast.Call) and dotted(t.func).split(".")[-1] == "is_angle_component" and pol is False:
                angle = True
        missing = []
        if not anydim:
            missing.append(f"`not is_any_dimension({elem}.scale_factor)` (a floating point zero, an infinity or NaN carries no dimension; "
                           "a comparison with 0 does not recognise them)")
        if not angle:
            missing.append("`not is_angle_component(...)` (the angle slot of a cylindrical or spherical vector has its own dimension)")
        if missing:
            run.violate("K8", f"{f.qual}:dimension-inference", f.mod, st,
                        f"`{norm(st, 60)}` is reached without " + " and without ".join(missing)
                        + ": a legitimate vector is refused depending on the magnitude or the order of its components")
    run.sample({"function": f.qual, "inference_sites": len(sites)})


def check(run: Run) -> None:
    w = World(run.src)
    _catalogue(run, w)
    _k1(run, w)
    _k2(run, w)
    _k3(run, w)
    _k4(run, w)
    _k5(run, w)
    _k6(run, w)
    _k7(run, w)
    _k8(run, w)
