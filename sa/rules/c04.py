"""C04 - the dimension gate: catalogue guard tables (E1) and the shared gate code (E3)."""
from __future__ import annotations

import ast

from ..core import Run, AnalysisError, dotted, norm
from ..dim import World, Interp, guard_dimension
from ..calc import functions
from ..flow import Fn, kw, node_of, conditions_for, stmt_of, loop_passes, has_subscript, node_calls, numeric_consts
from ..alg import T
from ..pyreader import Raised
from ..gate import GateReader, Dim, Fac, Obj, MagnitudeUse, quantity, dimensioned, qvector

EXPLANATION = (
    "Two layers. Catalogue (exhaustive over every decorated function of laws/definitions/conditions): G1 every validate_input "
    "keyword is a parameter of the decorated function (the decorator silently ignores unknown keywords), validate_output_same "
    "names a parameter; G2 every guard expression evaluates, in the static dimension engine, to something that carries a "
    "dimension and is not a vacuous (zero/infinite) guard. Core (statement CFG + dominators + slices over quantity_decorator.py, "
    "dimensions.py, miscellaneous.py, vectors.py, errors.py): K1 the wrapped call is dominated by a loop over all signature "
    "parameters that checks every guarded one with the value bound from (*args, **kwargs) and the parameter's name; K2 results "
    "are checked before being returned; K3 every element of a sequence argument reaches assert_equivalent_dimension; K4 the "
    "comparison raises TypeError for number-vs-dimensional and UnitsError (a ValueError) for inequivalent dimensions on every "
    "non-escaping path, with angle erased on both operands; K5 the any-dimension set is exactly {0, oo, -oo, nan}; K6 the scale "
    "factor reaches only is_number/is_any_dimension/error text; K7 QuantityVector checks every component; K8 its inferred dimension comes from a component that carries one.")
ASSUMPTIONS = [
    "SymPy's dimsys_SI.equivalent_dims / is_dimensionless are correct on rational exponents",
    "inspect.signature(...).bind(*args, **kwargs) maps positional and keyword passing to the same parameter names",
]
TRUSTED = ["sympy.physics.units dimension system", "inspect.signature / bind", "python ast"]

QD = "symplyphysics.core.quantity_decorator"
DIMS = "symplyphysics.core.dimensions.dimensions"
MISC = "symplyphysics.core.dimensions.miscellaneous"
VEC = "symplyphysics.core.vectors.vectors"
AEU = QD + "._assert_expected_unit"
AED = DIMS + ".assert_equivalent_dimension"
COLLECT = "symplyphysics.core.dimensions.collect_quantity.collect_quantity_factor_and_dimension"


def _catalogue(run: Run, w: World) -> None:
    run.rule("G1", "every validate_input keyword / validate_output_same name is a parameter of the decorated function")
    run.rule("G2", "every guard expression carries a dimension (symbol, function, indexed symbol, dimension, unit expression, tuple of those) and is not vacuous")
    nfun = 0
    for m in run.src.catalogue():
        env = w.env(m.name)
        for g in functions(w, m):
            if not (g.input_decos or g.output_decos or g.output_same_decos):
                continue
            nfun += 1
            it = Interp(w, env)
            for d in g.input_decos:
                if d.args or any(k.arg is None for k in d.keywords):
                    run.skip("G1", f"{m.rel}:{d.lineno} {g.fn.name}", "validate_input with positional or ** arguments")
                    continue
                for k in d.keywords:
                    run.ob("G1", f"{g.qual}:{k.arg}")
                    if k.arg not in g.params:
                        if g.has_varkw:
                            run.skip("G1", f"{m.rel}:{d.lineno} {g.fn.name}", "function takes **kwargs")
                        else:
                            run.violate("G1", f"{g.qual}:{k.arg}", m, k.value,
                                        f"guard `{k.arg}` names no parameter of {g.fn.name}({', '.join(g.params)}): validate_input ignores it, "
                                        f"so nothing is checked for it", parameters=g.params, guard=k.arg)
                    v = it.ev(k.value)
                    _g2(run, m, g, f"{k.arg}", k.value, v)
            for d in g.output_decos:
                if len(d.args) == 1:
                    v = it.ev(d.args[0])
                    _g2(run, m, g, "return", d.args[0], v)
                else:
                    run.skip("G2", f"{m.rel}:{d.lineno} {g.fn.name}", "validate_output arity")
            for d in g.output_same_decos:
                run.ob("G1", f"{g.qual}:output_same")
                a = d.args[0] if d.args else kw(d, "param_name")
                if not (isinstance(a, ast.Constant) and isinstance(a.value, str)):
                    run.skip("G1", f"{m.rel}:{d.lineno} {g.fn.name}", "validate_output_same with non-literal name")
                elif a.value not in g.params:
                    run.violate("G1", f"{g.qual}:output_same:{a.value}", m, d,
                                f"validate_output_same('{a.value}') names no parameter of {g.fn.name}: every call raises TypeError")
    run.notes["decorated_functions"] = nfun
    run.floor("G1", nfun, 300, "decorated catalogue functions")
    r = run.rules["G2"]
    if r["obligations"] < 0.95 * (r["obligations"] + r["undecided"]):
        raise AnalysisError(f"C04/G2: only {r['obligations']} of {r['obligations'] + r['undecided']} guard expressions typed")


def _g2(run: Run, m, g, which: str, node: ast.AST, v) -> None:
    d = guard_dimension(v)
    if d is not None:
        run.ob("G2", f"{g.qual}:{which}")
        if v.kind == "any" and v.extra != "symbol":
            run.violate("G2", f"{g.qual}:{which}:vacuous", m, node,
                        f"guard `{which}` of {g.fn.name} is {norm(node, 60)} (zero/infinite): assert_equivalent_dimension accepts anything against it")
        return
    if v.kind in ("str", "bool", "none", "dict", "lambda", "pyfunc", "pyclass", "module", "builtin"):
        run.ob("G2", f"{g.qual}:{which}")
        run.violate("G2", f"{g.qual}:{which}:not-a-dimension", m, node,
                    f"guard `{which}` of {g.fn.name} is {norm(node, 60)}, a {v.kind}: it carries no dimension")
        return
    run.skip("G2", f"{m.rel}:{getattr(node, 'lineno', 0)} {g.fn.name}:{which}", f"guard {norm(node, 50)} not typed: {v.why or v.kind}")


# --------------------------------------------------------------------------------------------- core


def _is_membership(test: ast.AST, polarity: bool, loopvar: str, table: str) -> bool:
    """(param.name in table) holds."""
    if isinstance(test, ast.UnaryOp) and isinstance(test.op, ast.Not):
        return _is_membership(test.operand, not polarity, loopvar, table)
    if isinstance(test, ast.Compare) and len(test.ops) == 1 and isinstance(test.comparators[0], ast.Name) \
            and test.comparators[0].id == table and dotted(test.left) == f"{loopvar}.name":
        if isinstance(test.ops[0], ast.In):
            return polarity is True
        if isinstance(test.ops[0], ast.NotIn):
            return polarity is False
    return False


def _loop_conditions(fn: Fn, loop, call: ast.Call):
    st = stmt_of(fn.fn, call)
    conds = conditions_for(fn.fn, st, stop=loop.ast) if st is not None else None
    return conds


class _Param:

    def __init__(self, name: str):
        self.name = name


class WrapperReader(GateReader):
    """the three decorators evaluated as what they are - functions returning closures - around an opaque wrapped function with the signature (a, b, c):
    inspect.signature / bind follow Python's binding rules, `_assert_expected_unit` calls are recorded instead of evaluated (K3 decides that function)"""

    PARAMS = ["a", "b", "c"]

    def __init__(self, module):
        super().__init__(module, "quantity_decorator.py", depth_limit=10)
        self.log: list = []
        self.result = quantity("RESULT", Dim.of(mass=1, length=2, time=-2))

    def global_value(self, n):
        if isinstance(n, ast.Name) and n.id == "inspect":
            return ("module", "inspect")
        if isinstance(n, ast.Name) and n.id == "functools":
            return ("module", "functools")
        return super().global_value(n)

    def hook_attr(self, base, attr, n):
        if base == ("wrapped", ) and attr == "__name__":
            return "FUNC"
        if base == ("signature", ) and attr == "parameters":
            return {p: _Param(p) for p in self.PARAMS}
        if isinstance(base, _Param) and attr == "name":
            return base.name
        if isinstance(base, tuple) and base and base[0] == "bound" and attr == "arguments":
            return dict(base[1])
        if isinstance(base, tuple) and base and base[0] == "bound" and attr in ("args", "kwargs"):
            return list(base[1].values()) if attr == "args" else {}
        return super().hook_attr(base, attr, n)

    def hook_method(self, base, attr, args, kwargs, n):
        if base == ("module", "inspect") and attr == "signature" and len(args) == 1 and args[0] == ("wrapped", ):
            return ("signature", )
        if base == ("signature", ) and attr in ("bind", "bind_partial"):
            if len(args) > len(self.PARAMS) or any(k not in self.PARAMS for k in kwargs) or any(k in self.PARAMS[:len(args)] for k in kwargs):
                raise Raised("TypeError", getattr(n, "lineno", 0))
            bound = dict(zip(self.PARAMS, args))
            for p in self.PARAMS:  # signature order, as inspect keeps it
                if p in kwargs:
                    bound[p] = kwargs[p]
            if attr == "bind" and len(bound) != len(self.PARAMS):
                raise Raised("TypeError", getattr(n, "lineno", 0))
            return ("bound", {p: bound[p] for p in self.PARAMS if p in bound})
        if base == ("module", "functools") and attr == "wraps":
            return ("identity-decorator", )
        if isinstance(base, tuple) and base and base[0] == "bound" and attr == "apply_defaults" and not args:
            return None  # the modelled function (a, b, c) has no defaults
        return super().hook_method(base, attr, args, kwargs, n)

    def hook_call(self, n, env, fns):
        name = (dotted(n.func) or "").split(".")[-1]
        if name == "_assert_expected_unit" and isinstance(n.func, ast.Name):
            args = [self.ev(a, env, fns) for a in n.args]
            self.log.append(("check", args))
            return None
        if isinstance(n.func, ast.Name) and n.func.id in env and env[n.func.id] == ("wrapped", ):
            args = []
            for a in n.args:
                if isinstance(a, ast.Starred):
                    args += list(self.ev(a.value, env, fns))
                else:
                    args.append(self.ev(a, env, fns))
            kw_ = {k.arg: self.ev(k.value, env, fns) for k in n.keywords if k.arg}
            for k in n.keywords:
                if k.arg is None:
                    kw_.update(self.ev(k.value, env, fns))
            self.log.append(("call", args, kw_))
            return self.result
        return super().hook_call(n, env, fns)


def _wrap(R: "WrapperReader", decorator: str, dargs: list, dkwargs: dict):
    maker = R.call(decorator, list(dargs), dict(dkwargs))
    return R.apply_value(maker, [("wrapped", )], ast.parse("0").body[0], {})


def _k1(run: Run, w: World) -> None:
    """validate_input is EVALUATED: the decorator, applied to a function with parameters (a, b, c) and guards for a and b, is called positionally, by keyword and mixed"""
    run.rule("K1", "validate_input: before the wrapped function runs, every guarded parameter - however it was passed - has been handed to _assert_expected_unit with its bound value, "
             "its declaration and its name; unguarded parameters are not checked; the call and its result are unchanged")
    m = run.src.need(QD)
    DA, DB = Dim.of(length=1), Dim.of(time=1)
    va, vb, vc = quantity("va", DA), quantity("vb", DB), quantity("vc", Dim.of(mass=1))
    styles = {"positional": ([va, vb, vc], {}), "keyword": ([], {"c": vc, "b": vb, "a": va}), "mixed": ([va], {"c": vc, "b": vb})}
    for label, (args, kwargs) in styles.items():
        run.ob("K1", label)
        R = WrapperReader(m.tree)
        try:
            wrapper = _wrap(R, "validate_input", [], {"a": DA, "b": DB})
            got = R.apply_value(wrapper, list(args), ast.parse("0").body[0], {}, dict(kwargs))
            problem = None
        except Raised as r:
            got, problem = None, f"raises {r.exc}"
        if not problem:
            calls = [e for e in R.log if e[0] == "call"]
            checks_before = []
            for e in R.log:
                if e[0] == "call":
                    break
                checks_before.append(e[1])
            want = {"a": (va, DA), "b": (vb, DB)}
            seen = {}
            for c_ in checks_before:
                if len(c_) >= 4 and isinstance(c_[2], str):
                    seen[c_[2]] = c_
            if len(calls) != 1 or calls[0][1:] != (list(args), dict(kwargs)):
                problem = f"calls the wrapped function {len(calls)} time(s) / not with the caller's own (*args, **kwargs)"
            elif got is not R.result:
                problem = "does not return the result of the wrapped function"
            else:
                for p_, (val, decl) in want.items():
                    c_ = seen.get(p_)
                    if c_ is None:
                        problem = f"runs the wrapped function without having checked the guarded parameter `{p_}` ({label} call)"
                    elif c_[0] is not val or c_[1] != decl or c_[3] != "FUNC":
                        problem = f"checks parameter `{p_}` with ({c_[0]!r}, {c_[1]!r}, ..., {c_[3]!r}) instead of (its bound value, its declaration, its name, the function's name)"
                    if problem:
                        break
                if not problem and set(seen) - set(want):
                    problem = f"checks the unguarded parameter(s) {sorted(set(seen) - set(want))}"
        if problem:
            run.violate("K1", f"{QD}:validate_input:{label}", m, m.tree, f"validate_input, {label} call: the wrapper {problem}")
    run.sample({"decorator": QD + ":validate_input", "call_styles": sorted(styles)})


def _k2(run: Run, w: World) -> None:
    """validate_output / validate_output_same EVALUATED the same way"""
    run.rule("K2", "validate_output / validate_output_same: the wrapper returns the unchanged result of the wrapped function, after handing it to _assert_expected_unit with the declared "
             "dimension (resp. the bound value of the named parameter); validate_output_same refuses a name that is no parameter")
    m = run.src.need(QD)
    DA = Dim.of(length=1)
    va, vb, vc = quantity("va", DA), quantity("vb", Dim.of(time=1)), quantity("vc", Dim.of(mass=1))
    for label, deco, dargs, args, kwargs, want_expected, result in (("validate_output", "validate_output", [DA], [va, vb, vc], {}, DA, None),
                                                                    ("validate_output, bare number returned", "validate_output", [DA], [va, vb, vc], {}, DA, 5),
                                                                    ("validate_output, sequence returned", "validate_output", [DA], [va, vb, vc], {}, DA, [va, 7]),
                                                                    ("validate_output_same positional", "validate_output_same", ["b"], [va, vb, vc], {}, vb, None),
                                                                    ("validate_output_same keyword", "validate_output_same", ["b"], [va], {"c": vc, "b": vb}, vb, None),
                                                                    # a bare zero as the reference argument is legal (zero matches any dimension) - and falsy: it is a value, not a "not found" flag
                                                                    ("validate_output_same, reference is a bare zero", "validate_output_same", ["b"], [va, 0, vc], {}, 0, None)):
        run.ob("K2", label)
        R = WrapperReader(m.tree)
        if result is not None:
            R.result = result
        try:
            wrapper = _wrap(R, deco, dargs, {})
            got = R.apply_value(wrapper, list(args), ast.parse("0").body[0], {}, dict(kwargs))
            problem = None
        except Raised as r:
            got, problem = None, f"raises {r.exc}"
        if not problem:
            calls = [i_ for i_, e in enumerate(R.log) if e[0] == "call"]
            checks = [(i_, e[1]) for i_, e in enumerate(R.log) if e[0] == "check"]
            if len(calls) != 1 or R.log[calls[0]][1:] != (list(args), dict(kwargs)):
                problem = "does not call the wrapped function once with the caller's own (*args, **kwargs)"
            elif got is not R.result:
                problem = f"returns {got!r}, not the unchanged result of the wrapped function"
            elif not any(i_ > calls[0] and len(c_) >= 2 and c_[0] is R.result and (c_[1] is want_expected or c_[1] == want_expected) for i_, c_ in checks):
                problem = f"returns without having handed the result to _assert_expected_unit together with {want_expected!r} (checks made: {[c_[:2] for _, c_ in checks]!r})"
        if problem:
            run.violate("K2", f"{QD}:{deco}:{label}", m, m.tree, f"{label}: the wrapper {problem}")
    run.ob("K2", "validate_output_same:unknown-parameter")
    R = WrapperReader(m.tree)
    try:
        wrapper = _wrap(R, "validate_output_same", ["nosuch"], {})
        R.apply_value(wrapper, [va, vb, vc], ast.parse("0").body[0], {}, {})
        run.violate("K2", f"{QD}:validate_output_same:unknown-parameter", m, m.tree, "validate_output_same('nosuch') does not refuse a name that is no parameter of the function")
    except Raised:
        pass


def _k3(run: Run, w: World) -> None:
    """_assert_expected_unit is EVALUATED (sa/gate.py) on scalars, sequences and vectors of the kinds the decorators accept; what reaches
    assert_equivalent_dimension is compared with what the property demands. Helper functions, comprehensions, match statements, guard clauses:
    any shape with this meaning passes."""
    run.rule("K3", "_assert_expected_unit hands assert_equivalent_dimension, for EVERY element of the argument (a scalar, each element of a sequence, a quantity vector), "
             "the element itself or its declared dimension together with the matching expected dimension and the parameter's name; a constant stands in only for a vector "
             "whose components are all zero/inf/NaN")
    m = run.src.need(QD)
    fnode = next((s_ for s_ in m.tree.body if isinstance(s_, ast.FunctionDef) and s_.name == "_assert_expected_unit"), None)
    run.require(fnode is not None, "_assert_expected_unit not found")
    D = {k: Dim.of(**v) for k, v in {"L": dict(length=1), "T": dict(time=1), "M": dict(mass=1), "A": dict(length=1, time=-2), "F": dict(mass=1, length=1, time=-2),
                                     "C": dict(current=1), "P": dict(mass=1, length=-1, time=-2)}.items()}

    def zero_like(x) -> bool:
        return (isinstance(x, int) and not isinstance(x, bool) and x == 0) or (isinstance(x, T) and x.op == "num" and x.val == 0) \
            or (isinstance(x, Fac) and x.kind in ("zero", "inf", "nan")) or (isinstance(x, Obj) and isinstance(x.attrs.get("scale_factor"), Fac)
                                                                             and x.attrs["scale_factor"].kind in ("zero", "inf", "nan"))

    def acceptable(elem) -> tuple[list, bool]:
        """(arguments that count as a check of this element, is a check required at all)"""
        if isinstance(elem, Obj) and elem.cls == "QuantityVector":
            comps = elem.attrs["components"]
            nonzero = [c for c in comps if not zero_like(c)]
            if not nonzero:
                return ["<any-dimension value>"], False
            return [elem.attrs["dimension"], ("all-of", nonzero)], True
        if isinstance(elem, Obj) and elem.cls in ("Quantity", "SymQuantity"):
            return [elem], True
        if isinstance(elem, Obj):
            return [elem.attrs["dimension"]], True
        return [elem], True

    def expected_dim(u):
        return u.attrs["dimension"] if isinstance(u, Obj) else u

    q1, q2 = quantity("q1", D["L"]), quantity("q2", D["T"])
    q0, q1b = quantity("q0", D["L"], "zero"), quantity("q1b", D["L"])
    raw = quantity("raw", D["C"], cls="SymQuantity")
    sym, fun_, idx_, sbl = dimensioned("Symbol", "s", D["M"]), dimensioned("Function", "f", D["T"]), dimensioned("IndexedSymbol", "x", D["P"]), dimensioned("Symbolic", "y", D["F"])
    vfull, vmixed, vzero = qvector("v", D["A"], ["finite", "finite"]), qvector("w", D["F"], ["zero", "finite", "zero"]), qvector("z", Dim(), ["zero", "zero"])
    vunitless = qvector("u", Dim(), ["finite", "finite"])
    vinf = qvector("i", Dim(), ["inf", "nan"])
    cases = [
        ("quantity", q1, D["C"]), ("sympy quantity", raw, D["L"]), ("symbol against symbol", sym, fun_), ("symbolic against indexed symbol", sbl, idx_),
        ("function against dimension", fun_, D["L"]), ("bare number", 5, D["L"]), ("zero", 0, D["L"]),
        ("sequence against one dimension", [q1, sym, 7], D["C"]), ("sequence against a tuple", [q1, q2, sbl], [D["M"], sym, D["P"]]), ("empty sequence", [], D["L"]),
        ("vector", vfull, D["M"]), ("vector with some zero components", vmixed, D["C"]), ("zero vector", vzero, D["L"]), ("infinite/NaN vector", vinf, D["L"]),
        ("unit-less non-zero vector", vunitless, D["L"]), ("sequence of vectors", [vmixed, vzero, vfull], D["T"]), ("vector against a symbol", vfull, sym),
        # a vector whose own dimension is angle (every component an angle) is a vector like any other: non-zero components are checked
        ("angle-dimension vector", qvector("g", Dim.of(angle=1), ["finite", "finite", "finite"]), D["L"]),
        ("angle-dimension vector with a zero", qvector("h", Dim.of(angle=1), ["zero", "finite"]), D["L"]),
        # elements that agree in dimension are still checked one by one (a zero matches anything and vouches for nothing), within a call and across calls
        ("sequence with a zero before quantities of its dimension", [q0, q1, q1b, 0, 3, 3], D["M"]),
        ("quantity after a call with a zero of its dimension", q1, D["M"], q0), ("sequence after a call with the same sequence", [q1, q2], D["C"], [q1, q2]),
    ]
    vm_ = run.src.need("symplyphysics.core.vectors.vectors")
    extern = {c_.name: c_ for c_ in vm_.tree.body if isinstance(c_, ast.ClassDef) and c_.name == "QuantityVector"}
    for label, value, expected, *warmup in cases:
        run.ob("K3", label)
        R = GateReader(m.tree, "quantity_decorator.py")
        R.extern_classes = extern
        try:
            if warmup:
                R.call("_assert_expected_unit", [warmup[0], expected, "PARAM", "FUNC"])
                del R.events[:]
            R.call("_assert_expected_unit", [value, expected, "PARAM", "FUNC"])
            raised = None
        except Raised as r:
            raised = r
        except MagnitudeUse as mu:
            run.violate("K3", f"{QD}:_assert_expected_unit:{label}:magnitude", m, mu.node, f"_assert_expected_unit ({label}): {mu.what} - the verdict depends on the magnitude")
            continue
        elems = value if isinstance(value, list) else [value]
        exps = [expected_dim(u) for u in expected] if isinstance(expected, list) else [expected_dim(expected)] * len(elems)
        problem = None
        if raised is not None:
            problem = f"raises {raised.exc} instead of handing the elements to assert_equivalent_dimension"
        events = list(R.events)
        used = [False] * len(events)
        for i, elem in enumerate(elems):
            if problem:
                break
            acc, required = acceptable(elem)
            found = False
            for k_, (arg, pname, fname, exp) in enumerate(events):
                if used[k_]:
                    continue
                ok_arg = False
                for a_ in acc:
                    if isinstance(a_, tuple) and a_[0] == "all-of":
                        continue
                    if a_ == "<any-dimension value>":
                        ok_arg = zero_like(arg)
                    elif isinstance(a_, Obj):
                        ok_arg = arg is a_
                    else:
                        ok_arg = type(arg) is type(a_) and arg == a_
                    if ok_arg:
                        break
                if ok_arg:
                    if not (isinstance(exp, Dim) and exp == exps[i]):
                        problem = f"element {i} ({elem!r}) is checked against {exp!r}, not against the declared {exps[i]!r}"
                    elif not (isinstance(pname, str) and "PARAM" in pname):
                        problem = f"the check of element {i} does not carry the parameter's name (got {pname!r})"
                    used[k_] = True
                    found = True
                    break
            if not found and not problem:
                # a vector may also be checked component by component
                comp_sets = [a_[1] for a_ in acc if isinstance(a_, tuple) and a_[0] == "all-of"]
                if comp_sets:
                    idxs = []
                    for c_ in comp_sets[0]:
                        hit = next((k_ for k_, e_ in enumerate(events) if not used[k_] and e_[0] is c_ and isinstance(e_[3], Dim) and e_[3] == exps[i]), None)
                        if hit is None:
                            idxs = None
                            break
                        idxs.append(hit)
                    if idxs is not None:
                        for k_ in idxs:
                            used[k_] = True
                        found = True
            if not found and required and not problem:
                problem = (f"element {i} ({elem!r}) never reaches assert_equivalent_dimension "
                           f"(what reaches it: {[e_[0] for e_ in events]!r}) - it is skipped, replaced by a constant, or the sequence is cut short")
        if not problem:
            extra = [e_ for k_, e_ in enumerate(events) if not used[k_] and not zero_like(e_[0])]
            # components of an all-zero vector checked one by one are harmless; anything else that is checked but is no element is a defect of the bookkeeping
            if extra:
                problem = f"assert_equivalent_dimension is also given {[e_[0] for e_ in extra]!r}, which is no element of the argument"
        if problem:
            run.violate("K3", f"{QD}:_assert_expected_unit:element-coverage:{label}", m, fnode, f"_assert_expected_unit, {label}: {problem}")
    run.sample({"function": f"{QD}:_assert_expected_unit", "cases": [c[0] for c in cases]})


def _k4(run: Run, w: World) -> None:
    """assert_equivalent_dimension is EVALUATED (sa/gate.py) on every combination of argument kind x expected kind x dimensions (angle included);
    its outcome - return, TypeError, UnitsError - is compared with the property's table. K6: the scale factor is an opaque value of which only
    is_number / is_any_dimension can be asked; anything else is a use of the magnitude."""
    run.rule("K4", "assert_equivalent_dimension returns exactly for equivalent dimensions (angle erased on both sides; zero/inf/NaN values and any_dimension match anything), "
             "raises TypeError for a dimensionless argument against a dimensional expectation and UnitsError (a ValueError) for any other mismatch")
    run.rule("K6", "the scale factor of the argument is used only by is_number, is_any_dimension and the error text: the verdict cannot depend on magnitude")
    m = run.src.need(DIMS)
    fnode = next((s_ for s_ in m.tree.body if isinstance(s_, ast.FunctionDef) and s_.name == "assert_equivalent_dimension"), None)
    run.require(fnode is not None, "assert_equivalent_dimension not found")
    dims = {"1": Dim(), "angle": Dim.of(angle=1), "length": Dim.of(length=1), "angle*length": Dim.of(angle=1, length=1), "time": Dim.of(time=1),
            "length/time": Dim.of(length=1, time=-1), "angle/time": Dim.of(angle=1, time=-1), "1/time": Dim.of(time=-1),
            # a base dimension outside the seven SI ones that is NOT erased like angle (sympy's `information`: bit, byte)
            "information": Dim.of(information=1), "information/time": Dim.of(information=1, time=-1)}
    if run.tier == "thorough":
        # thorough: every SI base dimension, fractional and negative exponents, angle to a power, compound derived dimensions
        dims.update({"mass": Dim.of(mass=1), "current": Dim.of(current=1), "temperature": Dim.of(temperature=1), "amount": Dim.of(amount_of_substance=1),
                     "luminous": Dim.of(luminous_intensity=1), "length**(1/2)": Dim.of(length="1/2"), "length**2": Dim.of(length=2), "angle**2": Dim.of(angle=2),
                     "angle**2*length": Dim.of(angle=2, length=1), "force": Dim.of(mass=1, length=1, time=-2), "energy": Dim.of(mass=1, length=2, time=-2),
                     "energy/angle": Dim.of(mass=1, length=2, time=-2, angle=-1), "1/length": Dim.of(length=-1), "mass/length": Dim.of(mass=1, length=-1)})
    arg_kinds = ["quantity", "zero quantity", "infinite quantity", "NaN quantity", "symbolic quantity", "dimension"]
    exp_kinds = ["dimension", "quantity", "zero quantity"]  # any_dimension as a declared dimension is outside the property (and no catalogue guard uses it: G2)
    reported = set()
    magnitude_reported = False
    n_cases = 0
    for an, a in dims.items():
        for en, e in dims.items():
            for ak in arg_kinds:
                for ek in exp_kinds:
                    arg = a if ak == "dimension" else quantity("arg", a, {"quantity": "finite", "zero quantity": "zero", "infinite quantity": "inf", "NaN quantity": "nan",
                                                                            "symbolic quantity": "symbolic"}[ak], cls="SymQuantity" if ak == "symbolic quantity" else "Quantity")
                    exp = {"dimension": e, "quantity": quantity("exp", e), "zero quantity": quantity("exp0", e, "zero")}[ek]
                    n_cases += 1
                    R = GateReader(m.tree, "dimensions.py")
                    try:
                        got = R.call("assert_equivalent_dimension", [arg, "PARAM", "FUNC", exp])
                        outcome = "returns" if got is None else f"returns {got!r}"
                    except Raised as r:
                        outcome = "raises " + r.exc.split(".")[-1]
                    except MagnitudeUse as mu:
                        run.ob("K6", f"magnitude-use@{getattr(mu.node, 'lineno', 0)}")
                        if not magnitude_reported:
                            magnitude_reported = True
                            run.violate("K6", f"{DIMS}:assert_equivalent_dimension:scale-factor-use:{norm(mu.node, 60)}", m, mu.node,
                                        f"{mu.what} in `{norm(mu.node, 70)}` ({ak} of dimension {an} against {ek} {en}): the verdict may depend on the magnitude")
                        continue
                    # the property's table
                    if ek == "zero quantity":
                        want = {"returns"}
                    elif ak == "symbolic quantity":
                        want = {"raises UnitsError", "raises TypeError", "raises ValueError"}
                    elif ak in ("zero quantity", "infinite quantity", "NaN quantity"):
                        want = {"returns"}
                    else:
                        ea, ee = a.erased(), e.erased()
                        if ea == ee:
                            want = {"returns"}
                        elif ea.dimensionless():
                            want = {"raises TypeError"}
                        else:
                            want = {"raises UnitsError"}
                    if outcome not in want:
                        key = (ak if ak in ("symbolic quantity", ) else "", ek if ek == "zero quantity" else "", outcome, tuple(sorted(want)),
                               "angle" in an or "angle" in en)
                        if key in reported:
                            continue
                        reported.add(key)
                        run.violate("K4", f"{DIMS}:assert_equivalent_dimension:{ak}[{an}]-vs-{ek}[{en}]", m, fnode,
                                    f"assert_equivalent_dimension({ak} of dimension {an}, expected {ek} of dimension {en}) {outcome}; the property demands: {' or '.join(sorted(want))}"
                                    + (" (angle counts as dimensionless on both sides)" if "angle" in an or "angle" in en else ""))
    run.ob("K4", "outcome-table", n=n_cases)
    run.ob("K6", "opaque-scale-factor", n=n_cases)
    # error classes
    err = run.src.need("symplyphysics.core.errors")
    cls = next((s_ for s_ in err.tree.body if isinstance(s_, ast.ClassDef) and s_.name == "UnitsError"), None)
    run.require(cls is not None, "UnitsError not found")
    run.ob("K4", "UnitsError<ValueError")
    if not any(dotted(b) == "ValueError" for b in cls.bases):
        run.violate("K4", "symplyphysics.core.errors:UnitsError:bases", err, cls, "UnitsError is no longer a ValueError")
    run.sample({"function": f"{DIMS}:assert_equivalent_dimension", "cases": n_cases})


NUMERIC_CONVERSIONS = {"complex", "float", "int", "abs", "round", "N", "evalf", "n", "is_zero", "isinf", "isnan", "isfinite", "isclose", "sqrt", "log", "exp", "Abs"}


def _membership(v: ast.AST, param: str):
    """set of dotted names the parameter is compared with by exact equality/membership, or None"""
    if isinstance(v, ast.Compare) and len(v.ops) == 1 and isinstance(v.ops[0], ast.In) and isinstance(v.comparators[0], (ast.Tuple, ast.List, ast.Set)) \
            and dotted(v.left) == param:
        return {dotted(e) or norm(e) for e in v.comparators[0].elts}
    if isinstance(v, ast.Compare) and len(v.ops) == 1 and isinstance(v.ops[0], (ast.Eq, ast.Is)) and dotted(v.left) == param:
        return {dotted(v.comparators[0]) or norm(v.comparators[0])}
    if isinstance(v, ast.BoolOp) and isinstance(v.op, ast.Or):
        out = set()
        for x in v.values:
            m = _membership(x, param)
            if m is None:
                return None
            out |= m
        return out
    if isinstance(v, ast.Call) and dotted(v.func) == "bool" and len(v.args) == 1:
        return _membership(v.args[0], param)
    # SymPy assumption queries on the factor itself: exact (magnitude independent) predicates
    if isinstance(v, ast.Attribute) and dotted(v.value) == param:
        table = {"is_zero": {"S.Zero"}, "is_infinite": {"S.Infinity", "S.NegativeInfinity", "S.ComplexInfinity"}}
        if v.attr in table:
            return set(table[v.attr])
    if isinstance(v, ast.Compare) and len(v.ops) == 1 and isinstance(v.ops[0], (ast.Is, ast.Eq)) and dotted(v.left) == param and dotted(v.comparators[0]) in ("S.NaN", "nan"):
        return {"S.NaN"}
    # getattr(factor, "is_zero", None) is True
    if isinstance(v, ast.Compare) and len(v.ops) == 1 and isinstance(v.ops[0], ast.Is) and isinstance(v.comparators[0], ast.Constant) and v.comparators[0].value is True:
        l = v.left
        if isinstance(l, ast.Call) and dotted(l.func) == "getattr" and len(l.args) >= 2 and dotted(l.args[0]) == param and isinstance(l.args[1], ast.Constant):
            return _membership(ast.Attribute(value=ast.Name(id=param, ctx=ast.Load()), attr=l.args[1].value, ctx=ast.Load()), param)
        return _membership(l, param)
    return None


def _k5(run: Run, w: World) -> None:
    run.rule("K5", "is_any_dimension tests exact membership in {0, +oo, -oo, zoo, NaN}: no numeric conversion or ordering comparison of the factor")
    f = Fn(w, MISC, "is_any_dimension")
    rets = f.cfg.returns()
    run.require(len(rets) >= 1 and len(f.params) == 1, "is_any_dimension shape changed")
    p = f.params[0]
    want = {"S.Zero", "S.Infinity", "S.NegativeInfinity", "S.ComplexInfinity", "S.NaN"}  # every zero, every infinity (1/0 of quantities is zoo), NaN
    accepted: set = set()
    undecided = []
    for r in rets:
        v = r.ast.value
        if isinstance(v, ast.Constant) and isinstance(v.value, bool):
            conds = conditions_for(f.fn, r.ast) or []
            if v.value is True:
                # `if <membership>: return True`
                for t, pol in conds:
                    if isinstance(t, str):
                        continue
                    m = _membership(t, p)
                    if m is not None and pol is True:
                        accepted |= m
                    elif m is None:
                        undecided.append(t)
            continue
        m = _membership(v, p) if v is not None else None
        if m is not None:
            accepted |= m
        else:
            undecided.append(v)
    run.ob("K5", "membership")
    magnitude = []
    for u in undecided:
        sl = f.slice(rets[0], u) if u is not None else None
        names = set()
        for e in (sl.exprs if sl else []):
            for x in ast.walk(e):
                if isinstance(x, ast.Call):
                    d = dotted(x.func) or (x.func.attr if isinstance(x.func, ast.Attribute) else "")
                    if d.split(".")[-1] in NUMERIC_CONVERSIONS:
                        names.add(d)
                elif isinstance(x, ast.Compare) and any(isinstance(o, (ast.Lt, ast.LtE, ast.Gt, ast.GtE)) for o in x.ops):
                    names.add("ordering comparison")
        if names:
            magnitude.append((u, sorted(names)))
    if magnitude:
        u, names = magnitude[0]
        run.violate("K5", f"{f.qual}:magnitude-dependent", f.mod, u,
                    f"is_any_dimension decides through {names} (`{norm(u, 70)}`): a numeric conversion/ordering of the scale factor makes 'matches any dimension' depend on the "
                    f"magnitude (float under/overflow, thresholds), so quantities of a wrong dimension can pass the gate")
    elif undecided:
        raise AnalysisError(f"C04/K5: is_any_dimension has a shape the reader does not understand: {norm(undecided[0])}")
    if accepted != want and not magnitude:
        run.violate("K5", f"{f.qual}:set", f.mod, rets[0].ast,
                    f"any-dimension values are {sorted(accepted)}; exactly {sorted(want)} required "
                    f"(extra: {sorted(accepted - want)}, missing: {sorted(want - accepted)})")
    elif accepted - want:
        run.violate("K5", f"{f.qual}:set", f.mod, rets[0].ast, f"any-dimension values include {sorted(accepted - want)}")
    run.sample({"function": f.qual, "set": sorted(accepted)})


def _k7(run: Run, w: World) -> None:
    """K7 / K8 by evaluation: QuantityVector.__init__ is EVALUATED (sa/gate.py) on component lists in the three kinds of coordinate system. K7: every component - however
    many there are - reaches assert_equivalent_dimension exactly once, an angle slot against angle_type, every other one against the vector's dimension. K8: the
    dimension the vector registers for itself is the explicit one, else that of the first non-angle component whose value is not zero/infinite/NaN, else dimensionless."""
    from ..pyreader import Sys, static_methods
    run.rule("K7", "QuantityVector.__init__ asserts the dimension of every component (angle components against angle_type)")
    run.rule("K8", "the dimension QuantityVector infers for itself comes only from a component that carries one: not an angle slot, "
             "not a zero/infinite/NaN scale factor (is_any_dimension), so the later component check cannot refuse on magnitude or order")
    m = run.src.need(VEC)
    cls = next((c_ for c_ in m.tree.body if isinstance(c_, ast.ClassDef) and c_.name == "QuantityVector"), None)
    run.require(cls is not None, "QuantityVector not found")
    fn = next((f_ for f_ in cls.body if isinstance(f_, ast.FunctionDef) and f_.name == "__init__"), None)
    run.require(fn is not None, "QuantityVector.__init__ not found")
    methods = ast.Module(body=[x for x in m.tree.body if not isinstance(x, ast.ClassDef)] + [x for x in cls.body if isinstance(x, ast.FunctionDef)], type_ignores=[])
    csm = run.src.need("symplyphysics.core.coordinate_systems.coordinate_systems")
    statics = static_methods(next(c_ for c_ in csm.tree.body if isinstance(c_, ast.ClassDef) and c_.name == "CoordinateSystem"))
    ANGLE = Dim.of(angle=1)
    L, Tm = Dim.of(length=1), Dim.of(time=1)
    ANGLE_SLOTS = {"CARTESIAN": set(), "CYLINDRICAL": {1}, "SPHERICAL": {1, 2}}

    class R(GateReader):

        def __init__(self):
            super().__init__(methods, "vectors.py", depth_limit=8)
            self.registered = []

        def hook_call(self, n, env, fns):
            f_ = dotted(n.func) or ""
            name = f_.split(".")[-1]
            if name == "next_id" and name not in self.functions:
                return 7
            if f_ in ("DimensionSymbol.__init__", "super().__init__") or (name == "__init__" and isinstance(n.func, ast.Attribute)):
                args = [self.ev(a, env, fns) for a in n.args]
                kw_ = {k.arg: self.ev(k.value, env, fns) for k in n.keywords if k.arg}
                self.registered.append((args, kw_))
                return None
            if name == "Vector" and name not in self.functions:
                return ("vector", [self.ev(a, env, fns) for a in n.args])
            if name == "Quantity" and name not in self.functions and n.args:
                v = self.ev(n.args[0], env, fns)
                kw_ = {k.arg: self.ev(k.value, env, fns) for k in n.keywords if k.arg}
                d_ = kw_.get("dimension")
                return quantity(f"wrapped({v!r})", d_ if isinstance(d_, Dim) else Dim(), "finite")
            return super().hook_call(n, env, fns)

    def q(tag, dim, kind="finite"):
        return quantity(tag, dim, kind)

    cases = []
    for kind in ("CARTESIAN", "CYLINDRICAL", "SPHERICAL"):
        slots = ANGLE_SLOTS[kind]
        def comp(i, dim, k_="finite", _slots=slots):
            return q(f"c{i}", ANGLE if i in _slots else dim, k_)
        cases += [
            (kind, "three components", [comp(0, L), comp(1, L), comp(2, L)], None, L),
            (kind, "a zero first", [comp(0, Tm, "zero"), comp(1, L), comp(2, L)], None, L),
            (kind, "an infinite and a NaN first", [comp(0, Tm, "inf"), comp(1, Tm, "nan"), comp(2, L)], None, L),
            (kind, "all zero", [comp(0, L, "zero"), comp(1, L, "zero"), comp(2, L, "zero")], None, Dim()),
            (kind, "four components", [comp(0, L), comp(1, L), comp(2, L), q("c3", L)], None, L),
            (kind, "one component", [comp(0, L)], None, L),
            (kind, "explicit dimension", [comp(0, L), comp(1, L), comp(2, L)], L, L),
            (kind, "explicit dimension, bare numbers", [3, 4, 5], L, L),
        ]
    reported = set()
    for kind, label, comps, explicit, _ in cases:
        slots = ANGLE_SLOTS[kind]
        # the property's reading, computed from the case itself: explicit, else the first non-angle component that is not zero / infinite / NaN, else dimensionless
        want_dim = explicit if explicit is not None else next(
            (c_.attrs["dimension"] for i_, c_ in enumerate(comps) if isinstance(c_, Obj) and i_ not in slots and c_.attrs["scale_factor"].kind == "finite"), Dim())
        run.ob("K7", f"{kind}:{label}")
        run.ob("K8", f"{kind}:{label}")
        rd = R()
        rd.extern_static = statics
        me = Obj("QuantityVector", {}, "self")
        try:
            rd.call("__init__", [me, list(comps), Sys("S" + kind, kind)], {"dimension": explicit} if explicit is not None else {})
        except Raised as r_:
            if "raise" not in reported:
                reported.add("raise")
                run.violate("K7", f"{VEC}:QuantityVector.__init__:raises", m, fn, f"QuantityVector.__init__ ({kind.lower()}, {label}) raises {r_.exc} for components of the right dimensions")
            continue
        except MagnitudeUse as mu:
            if "magnitude" not in reported:
                reported.add("magnitude")
                run.violate("K8", f"{VEC}:QuantityVector.__init__:magnitude:{norm(mu.node, 50)}", m, mu.node,
                            f"QuantityVector.__init__ ({kind.lower()}, {label}): {mu.what} in `{norm(mu.node, 60)}` - which component fixes the vector's dimension, or whether a component is "
                            f"checked, depends on the magnitude (a floating point zero, an infinity)")
            continue
        # K8: the registered dimension
        dims = [x for args, kw_ in rd.registered for x in list(args) + list(kw_.values()) if isinstance(x, Dim)]
        if (not dims or dims[0] != want_dim) and "k8" not in reported:
            reported.add("k8")
            run.violate("K8", f"{VEC}:QuantityVector.__init__:inferred-dimension", m, fn,
                        f"QuantityVector.__init__ ({kind.lower()}, {label}) registers the dimension {dims[0] if dims else 'none'!r}; the property's reading is {want_dim!r}: the explicit dimension, "
                        f"else that of the first component that carries one (not an angle slot, not a zero / infinite / NaN value), else dimensionless")
        # K7: one check per component, against the right dimension
        n_q = len(comps)
        events = list(rd.events)
        problem = None
        if len(events) != n_q:
            problem = f"{len(events)} of {n_q} components reach assert_equivalent_dimension" + (" (the loop stops at the shortest of two sequences, or early)" if len(events) < n_q else "")
        else:
            for i, (arg, pname, fname, exp) in enumerate(events):
                want_exp = ANGLE if i in slots else want_dim
                orig = comps[i]
                if isinstance(orig, Obj) and arg is not orig:
                    problem = f"component {i} is not the object that is checked"
                    break
                if not (isinstance(exp, Dim) and exp == want_exp):
                    problem = (f"component {i} is checked against {exp!r}, not against {want_exp!r} "
                               f"({'the expected dimension is not (angle_type for angle components, else the vector dimension)'})")
                    break
        if problem and "k7" not in reported:
            reported.add("k7")
            run.violate("K7", f"{VEC}:QuantityVector.__init__:component-coverage", m, fn, f"QuantityVector.__init__ ({kind.lower()}, {label}): {problem}")
    run.sample({"function": f"{VEC}:QuantityVector.__init__", "cases": len(cases)})


def _flat_conditions(conds: list) -> list:
    """(test, polarity) pairs split through not / and (when true) / or (when false)."""
    out = []

    def add(t, pol):
        if isinstance(t, ast.UnaryOp) and isinstance(t.op, ast.Not):
            add(t.operand, not pol)
        elif isinstance(t, ast.BoolOp) and ((isinstance(t.op, ast.And) and pol) or (isinstance(t.op, ast.Or) and not pol)):
            for v in t.values:
                add(v, pol)
        else:
            out.append((t, pol))
    for t, pol in conds:
        if isinstance(t, ast.AST):
            add(t, pol)
    return out


def _k8(run: Run, w: World) -> None:
    run.rule("K8", "the dimension QuantityVector infers for itself comes only from a component that carries one: not an angle slot, "
             "not a zero/infinite/NaN scale factor (is_any_dimension), so the later component check cannot refuse on magnitude or order")
    f = Fn(w, VEC, "QuantityVector.__init__")
    sites = []
    for st in ast.walk(f.fn):
        if isinstance(st, ast.Assign) and len(st.targets) == 1 and isinstance(st.targets[0], ast.Name) and st.targets[0].id == "dimension" \
                and isinstance(st.value, ast.Attribute) and st.value.attr == "dimension" and isinstance(st.value.value, ast.Name):
            loops = [l for l in ast.walk(f.fn) if isinstance(l, ast.For) and any(x is st for b in l.body for x in ast.walk(b))]
            if not loops:
                raise AnalysisError(f"C04/K8: `{norm(st, 60)}` at line {st.lineno} is not inside a loop over the components")
            lp = loops[-1]
            conds = conditions_for(f.fn, st, stop=lp)
            if conds is None:
                raise AnalysisError(f"C04/K8: cannot locate `{norm(st, 60)}`")
            sites.append((st, st.value.value.id, _flat_conditions(conds)))
        elif isinstance(st, ast.Assign) and any(isinstance(t, ast.Name) and t.id == "dimension" for t in st.targets) \
                and any(isinstance(x, (ast.GeneratorExp, ast.ListComp)) for x in ast.walk(st.value)):
            for g in ast.walk(st.value):
                if isinstance(g, (ast.GeneratorExp, ast.ListComp)) and isinstance(g.elt, ast.Attribute) and g.elt.attr == "dimension" \
                        and isinstance(g.elt.value, ast.Name) and len(g.generators) == 1:
                    sites.append((st, g.elt.value.id, _flat_conditions([(c, True) for c in g.generators[0].ifs])))
    if not sites:
        dflt = [d for a, d in zip(reversed(f.fn.args.kwonlyargs), reversed(f.fn.args.kw_defaults)) if a.arg == "dimension"]
        if dflt and dflt[0] is None:
            run.ob("K8", "no-inference:dimension-required")
            run.sample({"function": f.qual, "inference": "none, dimension is a required argument"})
            return
        raise AnalysisError("C04/K8: no `dimension = <component>.dimension` inference found in QuantityVector.__init__ although `dimension` is optional")
    for st, elem, conds in sites:
        run.ob("K8", f"inference@{norm(st, 50)}")
        anydim = angle = False
        for t, pol in conds:
            if isinstance(t, ast.Call) and dotted(t.func).split(".")[-1] == "is_any_dimension" and len(t.args) == 1 and pol is False \
                    and isinstance(t.args[0], ast.Attribute) and t.args[0].attr == "scale_factor" and isinstance(t.args[0].value, ast.Name) \
                    and t.args[0].value.id == elem:
                anydim = True
            if isinstance(t, ast.Call) and dotted(t.func).split(".")[-1] == "is_angle_component" and pol is False:
                angle = True
        missing = []
        if not anydim:
            missing.append(f"`not is_any_dimension({elem}.scale_factor)` (a floating point zero, an infinity or NaN carries no dimension; "
                           "a comparison with 0 does not recognise them)")
        if not angle:
            missing.append("`not is_angle_component(...)` (the angle slot of a cylindrical or spherical vector has its own dimension)")
        if missing:
            run.violate("K8", f"{f.qual}:dimension-inference", f.mod, st,
                        f"`{norm(st, 60)}` is reached without " + " and without ".join(missing)
                        + ": a legitimate vector is refused depending on the magnitude or the order of its components")
    run.sample({"function": f.qual, "inference_sites": len(sites)})


def check(run: Run) -> None:
    w = World(run.src)
    _catalogue(run, w)
    _k1(run, w)
    _k2(run, w)
    _k3(run, w)
    _k4(run, w)
    _k5(run, w)
    _k7(run, w)  # K7 and K8, by evaluation (the CFG forms alarmed on behaviour-preserving extractions)
