"""C04 - the dimension gate: catalogue guard tables (E1) and the shared gate code (E3)."""
from __future__ import annotations

import ast

from ..core import Run, AnalysisError, dotted, norm
from ..dim import World, Interp, guard_dimension
from ..calc import functions
from ..flow import Fn, kw, node_of, conditions_for, stmt_of, loop_passes, has_subscript, node_calls, numeric_consts
from ..alg import T
from ..pyreader import Raised
from ..gate import GateReader, Dim, Fac, Obj, MagnitudeUse, quantity, dimensioned, qvector

EXPLANATION = (
    "Two layers. Catalogue (exhaustive over every decorated function of laws/definitions/conditions): G1 every validate_input "
    "keyword is a parameter of the decorated function (the decorator silently ignores unknown keywords), validate_output_same "
    "names a parameter; G2 every guard expression evaluates, in the static dimension engine, to something that carries a "
    "dimension and is not a vacuous (zero/infinite) guard. Core (statement CFG + dominators + slices over quantity_decorator.py, "
    "dimensions.py, miscellaneous.py, vectors.py, errors.py): K1 the wrapped call is dominated by a loop over all signature "
    "parameters that checks every guarded one with the value bound from (*args, **kwargs) and the parameter's name; K2 results "
    "are checked before being returned; K3 every element of a sequence argument reaches assert_equivalent_dimension; K4 the "
    "comparison raises TypeError for number-vs-dimensional and UnitsError (a ValueError) for inequivalent dimensions on every "
    "non-escaping path, with angle erased on both operands; K5 the any-dimension set is exactly {0, oo, -oo, nan}; K6 the scale "
    "factor reaches only is_number/is_any_dimension/error text; K7 QuantityVector checks every component; K8 its inferred dimension comes from a component that carries one.")
ASSUMPTIONS = [
    "SymPy's dimsys_SI.equivalent_dims / is_dimensionless are correct on rational exponents",
    "inspect.signature(...).bind(*args, **kwargs) maps positional and keyword passing to the same parameter names",
]
TRUSTED = ["sympy.physics.units dimension system", "inspect.signature / bind", "python ast"]

QD = "symplyphysics.core.quantity_decorator"
DIMS = "symplyphysics.core.dimensions.dimensions"
MISC = "symplyphysics.core.dimensions.miscellaneous"
VEC = "symplyphysics.core.vectors.vectors"
AEU = QD + "._assert_expected_unit"
AED = DIMS + ".assert_equivalent_dimension"
COLLECT = "symplyphysics.core.dimensions.collect_quantity.collect_quantity_factor_and_dimension"


def _catalogue(run: Run, w: World) -> None:
    run.rule("G1", "every validate_input keyword / validate_output_same name is a parameter of the decorated function")
    run.rule("G2", "every guard expression carries a dimension (symbol, function, indexed symbol, dimension, unit expression, tuple of those) and is not vacuous")
    nfun = 0
    for m in run.src.catalogue():
        env = w.env(m.name)
        for g in functions(w, m):
            if not (g.input_decos or g.output_decos or g.output_same_decos):
                continue
            nfun += 1
            it = Interp(w, env)
            for d in g.input_decos:
                if d.args or any(k.arg is None for k in d.keywords):
                    run.skip("G1", f"{m.rel}:{d.lineno} {g.fn.name}", "validate_input with positional or ** arguments")
                    continue
                for k in d.keywords:
                    run.ob("G1", f"{g.qual}:{k.arg}")
                    if k.arg not in g.params:
                        if g.has_varkw:
                            run.skip("G1", f"{m.rel}:{d.lineno} {g.fn.name}", "function takes **kwargs")
                        else:
                            run.violate("G1", f"{g.qual}:{k.arg}", m, k.value,
                                        f"guard `{k.arg}` names no parameter of {g.fn.name}({', '.join(g.params)}): validate_input ignores it, "
                                        f"so nothing is checked for it", parameters=g.params, guard=k.arg)
                    v = it.ev(k.value)
                    _g2(run, m, g, f"{k.arg}", k.value, v)
            for d in g.output_decos:
                if len(d.args) == 1:
                    v = it.ev(d.args[0])
                    _g2(run, m, g, "return", d.args[0], v)
                else:
                    run.skip("G2", f"{m.rel}:{d.lineno} {g.fn.name}", "validate_output arity")
            for d in g.output_same_decos:
                run.ob("G1", f"{g.qual}:output_same")
                a = d.args[0] if d.args else kw(d, "param_name")
                if not (isinstance(a, ast.Constant) and isinstance(a.value, str)):
                    run.skip("G1", f"{m.rel}:{d.lineno} {g.fn.name}", "validate_output_same with non-literal name")
                elif a.value not in g.params:
                    run.violate("G1", f"{g.qual}:output_same:{a.value}", m, d,
                                f"validate_output_same('{a.value}') names no parameter of {g.fn.name}: every call raises TypeError")
    run.notes["decorated_functions"] = nfun
    run.floor("G1", nfun, 300, "decorated catalogue functions")
    r = run.rules["G2"]
    if r["obligations"] < 0.95 * (r["obligations"] + r["undecided"]):
        raise AnalysisError(f"C04/G2: only {r['obligations']} of {r['obligations'] + r['undecided']} guard expressions typed")


def _g2(run: Run, m, g, which: str, node: ast.AST, v) -> None:
    d = guard_dimension(v)
    if d is not None:
        run.ob("G2", f"{g.qual}:{which}")
        if v.kind == "any" and v.extra != "symbol":
            run.violate("G2", f"{g.qual}:{which}:vacuous", m, node,
                        f"guard `{which}` of {g.fn.name} is {norm(node, 60)} (zero/infinite): assert_equivalent_dimension accepts anything against it")
        return
    if v.kind in ("str", "bool", "none", "dict", "lambda", "pyfunc", "pyclass", "module", "builtin"):
        run.ob("G2", f"{g.qual}:{which}")
        run.violate("G2", f"{g.qual}:{which}:not-a-dimension", m, node,
                    f"guard `{which}` of {g.fn.name} is {norm(node, 60)}, a {v.kind}: it carries no dimension")
        return
    run.skip("G2", f"{m.rel}:{getattr(node, 'lineno', 0)} {g.fn.name}:{which}", f"guard {norm(node, 50)} not typed: {v.why or v.kind}")


# --------------------------------------------------------------------------------------------- core


def _is_membership(test: ast.AST, polarity: bool, loopvar: str, table: str) -> bool:
    """(param.name in table) holds."""
    if isinstance(test, ast.UnaryOp) and isinstance(test.op, ast.Not):
        return _is_membership(test.operand, not polarity, loopvar, table)
    if isinstance(test, ast.Compare) and len(test.ops) == 1 and isinstance(test.comparators[0], ast.Name) \
            and test.comparators[0].id == table and dotted(test.left) == f"{loopvar}.name":
        if isinstance(test.ops[0], ast.In):
            return polarity is True
        if isinstance(test.ops[0], ast.NotIn):
            return polarity is False
    return False


def _loop_conditions(fn: Fn, loop, call: ast.Call):
    st = stmt_of(fn.fn, call)
    conds = conditions_for(fn.fn, st, stop=loop.ast) if st is not None else None
    return conds


def _k1(run: Run, w: World) -> None:
    run.rule("K1", "validate_input: the wrapped call is dominated by a loop over all signature parameters that checks each guarded parameter (value from bind(*args, **kwargs), name from the parameter)")
    f = Fn(w, QD, "validate_input.validate_func.wrapper_validate")
    # the call of the wrapped function: callee is the closure variable `func`, called with *args, **kwargs
    wrapped = [(n, c) for n in f.cfg.stmt_nodes() for c in node_calls(n)
               if isinstance(c.func, ast.Name) and c.func.id == "func" and any(isinstance(a, ast.Starred) for a in c.args)]
    run.require(bool(wrapped), "validate_input wrapper no longer calls func(*args, **kwargs)")
    loops = [n for n in f.cfg.stmt_nodes() if n.kind == "for"]
    good_loops = []
    for lp in loops:
        sl = f.slice(lp, lp.ast.iter)
        tgt = lp.ast.target
        if not isinstance(tgt, ast.Name):
            continue
        full = "inspect.signature" in {f.callee(node_of(f.cfg, c) or lp, c) for c in sl.call_nodes} and "parameters" in sl.attr_names \
            and not has_subscript(sl.exprs) and not (sl.calls - {"inspect.signature", ".values", ".items", "list", "tuple"} - {c for c in sl.calls if c.endswith("parameters.values")})
        if not full:
            continue
        if any(isinstance(x, (ast.Break, ast.Return)) for s in lp.ast.body for x in ast.walk(s)):
            continue
        for n, c in f.calls(AEU):
            if not any(t is lp for t, _ in n.lexical_tests) or len(c.args) < 3:
                continue
            conds = _loop_conditions(f, lp, c)
            if conds is None:
                continue
            real = [(t, p) for t, p in conds if not isinstance(t, str)]
            only_membership = len(real) == 1 and _is_membership(real[0][0], real[0][1], tgt.id, "decorator_kwargs") and len(conds) == 1
            s0, s1, s2 = f.slice(n, c.args[0]), f.slice(n, c.args[1]), f.slice(n, c.args[2])
            value_ok = {"args", "kwargs"} <= s0.params and ".bind" in {x if x.startswith(".") else "." + x.split(".")[-1] for x in s0.calls} \
                and f"{tgt.id}.name" in s0.attrs and not numeric_consts(s0)
            table_ok = "decorator_kwargs" in s1.free and f"{tgt.id}.name" in s1.attrs
            name_ok = dotted(c.args[2]) == f"{tgt.id}.name"
            if only_membership and value_ok and table_ok and name_ok and loop_passes_or_guard(f, lp, n):
                good_loops.append(lp)
    for n, c in wrapped:
        run.ob("K1", f"wrapped-call@{norm(c, 40)}")
        if not f.cfg.dominated_by(n, lambda x: x in good_loops):
            run.violate("K1", f"{f.qual}:call-of-wrapped", f.mod, c,
                        "the wrapped function can run without every guarded parameter having been checked: no dominating loop over all "
                        "signature parameters that calls _assert_expected_unit(bound value, decorator_kwargs[name], name, ...) under exactly the "
                        "condition `name in decorator_kwargs`")
    run.sample({"function": f.qual, "wrapped_call": [f.line(c) for _, c in wrapped], "checking_loops": [f.line(l) for l in good_loops]})


def loop_passes_or_guard(f: Fn, lp, check_node) -> bool:
    # every iteration either reaches the check or leaves through the membership guard: since the only condition on the check
    # is the membership test (verified by the caller), nothing more to demand here; kept as a hook for stricter variants
    return True


def _k2(run: Run, w: World) -> None:
    run.rule("K2", "validate_output / validate_output_same: every return of the wrapper is dominated by _assert_expected_unit(result, expected)")
    for path, expected_free in (("validate_output.validate_func.wrapper_validate", "expected_unit"),
                                ("validate_output_same.validate_func.wrapper_validate", None)):
        f = Fn(w, QD, path)
        rets = f.cfg.returns()
        run.require(bool(rets), f"{path} has no return")
        checks = f.calls(AEU)
        for r in rets:
            run.ob("K2", f"{path}:return")
            v = r.ast.value
            if v is None:
                run.violate("K2", f"{f.qual}:return-none", f.mod, r.ast, "wrapper returns nothing")
                continue
            sv = f.slice(r, v)
            funcalls = [c for c in sv.call_nodes if isinstance(c.func, ast.Name) and c.func.id == "func"]
            if not funcalls or not all(isinstance(e, (ast.Name, ast.Call)) for e in sv.exprs):
                run.violate("K2", f"{f.qual}:return-not-result", f.mod, r.ast, f"the wrapper returns {norm(v, 50)}, not the unchanged result of the wrapped function")
                continue
            ok = False
            for n, c in checks:
                if len(c.args) < 2:
                    continue
                s0 = f.slice(n, c.args[0])
                same_value = any(fc in s0.call_nodes for fc in funcalls) and all(isinstance(e, (ast.Name, ast.Call)) for e in s0.exprs)
                s1 = f.slice(n, c.args[1])
                if expected_free is not None:
                    exp_ok = s1.free == {expected_free} and not s1.params and not s1.calls and not s1.consts
                else:
                    exp_ok = {"args", "kwargs"} <= s1.params and "param_name" in f.slice(n, c.args[1], control=True).free
                if same_value and exp_ok and f.cfg.dominated_by(r, lambda x: x is n):
                    ok = True
            if not ok:
                run.violate("K2", f"{f.qual}:return-unchecked", f.mod, r.ast,
                            "a return of the wrapper is not dominated by an unconditional _assert_expected_unit(<result>, <expected>) call")
        run.sample({"function": f.qual, "returns": [f.line(r) for r in rets], "checks": [f.line(c) for _, c in checks]})


def _k3(run: Run, w: World) -> None:
    """_assert_expected_unit is EVALUATED (sa/gate.py) on scalars, sequences and vectors of the kinds the decorators accept; what reaches
    assert_equivalent_dimension is compared with what the property demands. Helper functions, comprehensions, match statements, guard clauses:
    any shape with this meaning passes."""
    run.rule("K3", "_assert_expected_unit hands assert_equivalent_dimension, for EVERY element of the argument (a scalar, each element of a sequence, a quantity vector), "
             "the element itself or its declared dimension together with the matching expected dimension and the parameter's name; a constant stands in only for a vector "
             "whose components are all zero/inf/NaN")
    m = run.src.need(QD)
    fnode = next((s_ for s_ in m.tree.body if isinstance(s_, ast.FunctionDef) and s_.name == "_assert_expected_unit"), None)
    run.require(fnode is not None, "_assert_expected_unit not found")
    D = {k: Dim.of(**v) for k, v in {"L": dict(length=1), "T": dict(time=1), "M": dict(mass=1), "A": dict(length=1, time=-2), "F": dict(mass=1, length=1, time=-2),
                                     "C": dict(current=1), "P": dict(mass=1, length=-1, time=-2)}.items()}

    def zero_like(x) -> bool:
        return (isinstance(x, int) and not isinstance(x, bool) and x == 0) or (isinstance(x, T) and x.op == "num" and x.val == 0) \
            or (isinstance(x, Fac) and x.kind in ("zero", "inf", "nan")) or (isinstance(x, Obj) and isinstance(x.attrs.get("scale_factor"), Fac)
                                                                             and x.attrs["scale_factor"].kind in ("zero", "inf", "nan"))

    def acceptable(elem) -> tuple[list, bool]:
        """(arguments that count as a check of this element, is a check required at all)"""
        if isinstance(elem, Obj) and elem.cls == "QuantityVector":
            comps = elem.attrs["components"]
            nonzero = [c for c in comps if not zero_like(c)]
            if not nonzero:
                return ["<any-dimension value>"], False
            return [elem.attrs["dimension"], ("all-of", nonzero)], True
        if isinstance(elem, Obj) and elem.cls in ("Quantity", "SymQuantity"):
            return [elem], True
        if isinstance(elem, Obj):
            return [elem.attrs["dimension"]], True
        return [elem], True

    def expected_dim(u):
        return u.attrs["dimension"] if isinstance(u, Obj) else u

    q1, q2 = quantity("q1", D["L"]), quantity("q2", D["T"])
    raw = quantity("raw", D["C"], cls="SymQuantity")
    sym, fun_, idx_, sbl = dimensioned("Symbol", "s", D["M"]), dimensioned("Function", "f", D["T"]), dimensioned("IndexedSymbol", "x", D["P"]), dimensioned("Symbolic", "y", D["F"])
    vfull, vmixed, vzero = qvector("v", D["A"], ["finite", "finite"]), qvector("w", D["F"], ["zero", "finite", "zero"]), qvector("z", Dim(), ["zero", "zero"])
    vunitless = qvector("u", Dim(), ["finite", "finite"])
    vinf = qvector("i", Dim(), ["inf", "nan"])
    cases = [
        ("quantity", q1, D["C"]), ("sympy quantity", raw, D["L"]), ("symbol against symbol", sym, fun_), ("symbolic against indexed symbol", sbl, idx_),
        ("function against dimension", fun_, D["L"]), ("bare number", 5, D["L"]), ("zero", 0, D["L"]),
        ("sequence against one dimension", [q1, sym, 7], D["C"]), ("sequence against a tuple", [q1, q2, sbl], [D["M"], sym, D["P"]]), ("empty sequence", [], D["L"]),
        ("vector", vfull, D["M"]), ("vector with some zero components", vmixed, D["C"]), ("zero vector", vzero, D["L"]), ("infinite/NaN vector", vinf, D["L"]),
        ("unit-less non-zero vector", vunitless, D["L"]), ("sequence of vectors", [vmixed, vzero, vfull], D["T"]), ("vector against a symbol", vfull, sym),
    ]
    for label, value, expected in cases:
        run.ob("K3", label)
        R = GateReader(m.tree, "quantity_decorator.py")
        try:
            R.call("_assert_expected_unit", [value, expected, "PARAM", "FUNC"])
            raised = None
        except Raised as r:
            raised = r
        except MagnitudeUse as mu:
            run.violate("K3", f"{QD}:_assert_expected_unit:{label}:magnitude", m, mu.node, f"_assert_expected_unit ({label}): {mu.what} - the verdict depends on the magnitude")
            continue
        elems = value if isinstance(value, list) else [value]
        exps = [expected_dim(u) for u in expected] if isinstance(expected, list) else [expected_dim(expected)] * len(elems)
        problem = None
        if raised is not None:
            problem = f"raises {raised.exc} instead of handing the elements to assert_equivalent_dimension"
        events = list(R.events)
        used = [False] * len(events)
        for i, elem in enumerate(elems):
            if problem:
                break
            acc, required = acceptable(elem)
            found = False
            for k_, (arg, pname, fname, exp) in enumerate(events):
                if used[k_]:
                    continue
                ok_arg = False
                for a_ in acc:
                    if isinstance(a_, tuple) and a_[0] == "all-of":
                        continue
                    if a_ == "<any-dimension value>":
                        ok_arg = zero_like(arg)
                    elif isinstance(a_, Obj):
                        ok_arg = arg is a_
                    else:
                        ok_arg = type(arg) is type(a_) and arg == a_
                    if ok_arg:
                        break
                if ok_arg:
                    if not (isinstance(exp, Dim) and exp == exps[i]):
                        problem = f"element {i} ({elem!r}) is checked against {exp!r}, not against the declared {exps[i]!r}"
                    elif not (isinstance(pname, str) and "PARAM" in pname):
                        problem = f"the check of element {i} does not carry the parameter's name (got {pname!r})"
                    used[k_] = True
                    found = True
                    break
            if not found and not problem:
                # a vector may also be checked component by component
                comp_sets = [a_[1] for a_ in acc if isinstance(a_, tuple) and a_[0] == "all-of"]
                if comp_sets:
                    idxs = []
                    for c_ in comp_sets[0]:
                        hit = next((k_ for k_, e_ in enumerate(events) if not used[k_] and e_[0] is c_ and isinstance(e_[3], Dim) and e_[3] == exps[i]), None)
                        if hit is None:
                            idxs = None
                            break
                        idxs.append(hit)
                    if idxs is not None:
                        for k_ in idxs:
                            used[k_] = True
                        found = True
            if not found and required and not problem:
                problem = (f"element {i} ({elem!r}) never reaches assert_equivalent_dimension "
                           f"(what reaches it: {[e_[0] for e_ in events]!r}) - it is skipped, replaced by a constant, or the sequence is cut short")
        if not problem:
            extra = [e_ for k_, e_ in enumerate(events) if not used[k_] and not zero_like(e_[0])]
            # components of an all-zero vector checked one by one are harmless; anything else that is checked but is no element is a defect of the bookkeeping
            if extra:
                problem = f"assert_equivalent_dimension is also given {[e_[0] for e_ in extra]!r}, which is no element of the argument"
        if problem:
            run.violate("K3", f"{QD}:_assert_expected_unit:element-coverage:{label}", m, fnode, f"_assert_expected_unit, {label}: {problem}")
    run.sample({"function": f"{QD}:_assert_expected_unit", "cases": [c[0] for c in cases]})


def _k4(run: Run, w: World) -> None:
    """assert_equivalent_dimension is EVALUATED (sa/gate.py) on every combination of argument kind x expected kind x dimensions (angle included);
    its outcome - return, TypeError, UnitsError - is compared with the property's table. K6: the scale factor is an opaque value of which only
    is_number / is_any_dimension can be asked; anything else is a use of the magnitude."""
    run.rule("K4", "assert_equivalent_dimension returns exactly for equivalent dimensions (angle erased on both sides; zero/inf/NaN values and any_dimension match anything), "
             "raises TypeError for a dimensionless argument against a dimensional expectation and UnitsError (a ValueError) for any other mismatch")
    run.rule("K6", "the scale factor of the argument is used only by is_number, is_any_dimension and the error text: the verdict cannot depend on magnitude")
    m = run.src.need(DIMS)
    fnode = next((s_ for s_ in m.tree.body if isinstance(s_, ast.FunctionDef) and s_.name == "assert_equivalent_dimension"), None)
    run.require(fnode is not None, "assert_equivalent_dimension not found")
    dims = {"1": Dim(), "angle": Dim.of(angle=1), "length": Dim.of(length=1), "angle*length": Dim.of(angle=1, length=1), "time": Dim.of(time=1),
            "length/time": Dim.of(length=1, time=-1), "angle/time": Dim.of(angle=1, time=-1), "1/time": Dim.of(time=-1)}
    arg_kinds = ["quantity", "zero quantity", "infinite quantity", "NaN quantity", "symbolic quantity", "dimension"]
    exp_kinds = ["dimension", "quantity", "zero quantity"]  # any_dimension as a declared dimension is outside the property (and no catalogue guard uses it: G2)
    reported = set()
    magnitude_reported = False
    n_cases = 0
    for an, a in dims.items():
        for en, e in dims.items():
            for ak in arg_kinds:
                for ek in exp_kinds:
                    arg = a if ak == "dimension" else quantity("arg", a, {"quantity": "finite", "zero quantity": "zero", "infinite quantity": "inf", "NaN quantity": "nan",
                                                                            "symbolic quantity": "symbolic"}[ak], cls="SymQuantity" if ak == "symbolic quantity" else "Quantity")
                    exp = {"dimension": e, "quantity": quantity("exp", e), "zero quantity": quantity("exp0", e, "zero")}[ek]
                    n_cases += 1
                    R = GateReader(m.tree, "dimensions.py")
                    try:
                        got = R.call("assert_equivalent_dimension", [arg, "PARAM", "FUNC", exp])
                        outcome = "returns" if got is None else f"returns {got!r}"
                    except Raised as r:
                        outcome = "raises " + r.exc.split(".")[-1]
                    except MagnitudeUse as mu:
                        run.ob("K6", f"magnitude-use@{getattr(mu.node, 'lineno', 0)}")
                        if not magnitude_reported:
                            magnitude_reported = True
                            run.violate("K6", f"{DIMS}:assert_equivalent_dimension:scale-factor-use:{norm(mu.node, 60)}", m, mu.node,
                                        f"{mu.what} in `{norm(mu.node, 70)}` ({ak} of dimension {an} against {ek} {en}): the verdict may depend on the magnitude")
                        continue
                    # the property's table
                    if ek == "zero quantity":
                        want = {"returns"}
                    elif ak == "symbolic quantity":
                        want = {"raises UnitsError", "raises TypeError", "raises ValueError"}
                    elif ak in ("zero quantity", "infinite quantity", "NaN quantity"):
                        want = {"returns"}
                    else:
                        ea, ee = a.erased(), e.erased()
                        if ea == ee:
                            want = {"returns"}
                        elif ea.dimensionless():
                            want = {"raises TypeError"}
                        else:
                            want = {"raises UnitsError"}
                    if outcome not in want:
                        key = (ak if ak in ("symbolic quantity", ) else "", ek if ek == "zero quantity" else "", outcome, tuple(sorted(want)),
                               "angle" in an or "angle" in en)
                        if key in reported:
                            continue
                        reported.add(key)
                        run.violate("K4", f"{DIMS}:assert_equivalent_dimension:{ak}[{an}]-vs-{ek}[{en}]", m, fnode,
                                    f"assert_equivalent_dimension({ak} of dimension {an}, expected {ek} of dimension {en}) {outcome}; the property demands: {' or '.join(sorted(want))}"
                                    + (" (angle counts as dimensionless on both sides)" if "angle" in an or "angle" in en else ""))
    run.ob("K4", "outcome-table", n=n_cases)
    run.ob("K6", "opaque-scale-factor", n=n_cases)
    # error classes
    err = run.src.need("symplyphysics.core.errors")
    cls = next((s_ for s_ in err.tree.body if isinstance(s_, ast.ClassDef) and s_.name == "UnitsError"), None)
    run.require(cls is not None, "UnitsError not found")
    run.ob("K4", "UnitsError<ValueError")
    if not any(dotted(b) == "ValueError" for b in cls.bases):
        run.violate("K4", "symplyphysics.core.errors:UnitsError:bases", err, cls, "UnitsError is no longer a ValueError")
    run.sample({"function": f"{DIMS}:assert_equivalent_dimension", "cases": n_cases})


def _membership(v: ast.AST, param: str):
    """set of dotted names the parameter is compared with by exact equality/membership, or None"""
    if isinstance(v, ast.Compare) and len(v.ops) == 1 and isinstance(v.ops[0], ast.In) and isinstance(v.comparators[0], (ast.Tuple, ast.List, ast.Set)) \
            and dotted(v.left) == param:
        return {dotted(e) or norm(e) for e in v.comparators[0].elts}
    if isinstance(v, ast.Compare) and len(v.ops) == 1 and isinstance(v.ops[0], (ast.Eq, ast.Is)) and dotted(v.left) == param:
        return {dotted(v.comparators[0]) or norm(v.comparators[0])}
    if isinstance(v, ast.BoolOp) and isinstance(v.op, ast.Or):
        out = set()
        for x in v.values:
            m = _membership(x, param)
            if m is None:
                return None
            out |= m
        return out
    if isinstance(v, ast.Call) and dotted(v.func) == "bool" and len(v.args) == 1:
        return _membership(v.args[0], param)
    # SymPy assumption queries on the factor itself: exact (magnitude independent) predicates
    if isinstance(v, ast.Attribute) and dotted(v.value) == param:
        table = {"is_zero": {"S.Zero"}, "is_infinite": {"S.Infinity", "S.NegativeInfinity", "S.ComplexInfinity"}}
        if v.attr in table:
            return set(table[v.attr])
    if isinstance(v, ast.Compare) and len(v.ops) == 1 and isinstance(v.ops[0], (ast.Is, ast.Eq)) and dotted(v.left) == param and dotted(v.comparators[0]) in ("S.NaN", "nan"):
        return {"S.NaN"}
    # getattr(factor, "is_zero", None) is True
    if isinstance(v, ast.Compare) and len(v.ops) == 1 and isinstance(v.ops[0], ast.Is) and isinstance(v.comparators[0], ast.Constant) and v.comparators[0].value is True:
        l = v.left
        if isinstance(l, ast.Call) and dotted(l.func) == "getattr" and len(l.args) >= 2 and dotted(l.args[0]) == param and isinstance(l.args[1], ast.Constant):
            return _membership(ast.Attribute(value=ast.Name(id=param, ctx=ast.Load()), attr=l.args[1].value, ctx=ast.Load()), param)
        return _membership(l, param)
    return None


def _k5(run: Run, w: World) -> None:
    run.rule("K5", "is_any_dimension tests exact membership in {0, +oo, -oo, zoo, NaN}: no numeric conversion or ordering comparison of the factor")
    f = Fn(w, MISC, "is_any_dimension")
    rets = f.cfg.returns()
    run.require(len(rets) >= 1 and len(f.params) == 1, "is_any_dimension shape changed")
    p = f.params[0]
    want = {"S.Zero", "S.Infinity", "S.NegativeInfinity", "S.ComplexInfinity", "S.NaN"}  # every zero, every infinity (1/0 of quantities is zoo), NaN
    accepted: set = set()
    undecided = []
    for r in rets:
        v = r.ast.value
        if isinstance(v, ast.Constant) and isinstance(v.value, bool):
            conds = conditions_for(f.fn, r.ast) or []
            if v.value is True:
                # `if <membership>: return True`
                for t, pol in conds:
                    if isinstance(t, str):
                        continue
                    m = _membership(t, p)
                    if m is not None and pol is True:
                        accepted |= m
                    elif m is None:
                        undecided.append(t)
            continue
        m = _membership(v, p) if v is not None else None
        if m is not None:
            accepted |= m
        else:
            undecided.append(v)
    run.ob("K5", "membership")
    magnitude = []
    for u in undecided:
        sl = f.slice(rets[0], u) if u is not None else None
        names = set()
        for e in (sl.exprs if sl else []):
            for x in ast.walk(e):
                if isinstance(x, ast.Call):
                    d = dotted(x.func) or (x.func.attr if isinstance(x.func, ast.Attribute) else "")
                    if d.split(".")[-1] in NUMERIC_CONVERSIONS:
                        names.add(d)
                elif isinstance(x, ast.Compare) and any(isinstance(o, (ast.Lt, ast.LtE, ast.Gt, ast.GtE)) for o in x.ops):
                    names.add("ordering comparison")
        if names:
            magnitude.append((u, sorted(names)))
    if magnitude:
        u, names = magnitude[0]
        run.violate("K5", f"{f.qual}:magnitude-dependent", f.mod, u,
                    f"is_any_dimension decides through {names} (`{norm(u, 70)}`): a numeric conversion/ordering of the scale factor makes 'matches any dimension' depend on the "
                    f"magnitude (float under/overflow, thresholds), so quantities of a wrong dimension can pass the gate")
    elif undecided:
        raise AnalysisError(f"C04/K5: is_any_dimension has a shape the reader does not understand: {norm(undecided[0])}")
    if accepted != want and not magnitude:
        run.violate("K5", f"{f.qual}:set", f.mod, rets[0].ast,
                    f"any-dimension values are {sorted(accepted)}; exactly {sorted(want)} required "
                    f"(extra: {sorted(accepted - want)}, missing: {sorted(want - accepted)})")
    elif accepted - want:
        run.violate("K5", f"{f.qual}:set", f.mod, rets[0].ast, f"any-dimension values include {sorted(accepted - want)}")
    run.sample({"function": f.qual, "set": sorted(accepted)})


def _k7(run: Run, w: World) -> None:
    run.rule("K7", "QuantityVector.__init__ asserts the dimension of every component (angle components against angle_type)")
    f = Fn(w, VEC, "QuantityVector.__init__")
    ok = False
    detail = "no unconditional assert_equivalent_dimension(component, ...) in a loop over all components"
    for n, c in f.calls(AED):
        loops = [t for t, br in n.lexical_tests if t.kind == "for"]
        if len(loops) != 1 or len(c.args) < 4:
            continue
        lp = loops[0]
        conds = conditions_for(f.fn, stmt_of(f.fn, c), stop=lp.ast)
        if conds != []:
            detail = "the component assertion is conditional"
            continue
        si = f.slice(lp, lp.ast.iter)
        if has_subscript(si.exprs) or "components" not in si.params:
            detail = f"the loop iterates {norm(lp.ast.iter, 50)}, not all components"
            continue
        zips = [x for e in [lp.ast.iter] for x in ast.walk(e) if isinstance(x, ast.Call) and dotted(x.func) == "zip" and len(x.args) >= 2
                and not any(k.arg == "strict" and isinstance(k.value, ast.Constant) and k.value.value is True for k in x.keywords)]
        if zips:
            detail = (f"the loop iterates `{norm(lp.ast.iter, 60)}`: zip stops at the shortest sequence, so components beyond it are neither checked nor kept "
                      f"(a vector with more components than that sequence loses them silently)")
            continue
        tnames = {x.id for x in ast.walk(lp.ast.target) if isinstance(x, ast.Name)}
        if not (isinstance(c.args[0], ast.Name) and c.args[0].id in tnames):
            detail = "the assertion is not given the loop element"
            continue
        s3 = f.slice(n, c.args[3])
        if "dimension" not in s3.params or "angle_type" not in s3.free:
            detail = "the expected dimension is not (angle_type for angle components, else the vector's dimension)"
            continue
        if any(isinstance(x, (ast.Break, ast.Return, ast.Continue)) for s in lp.ast.body for x in ast.walk(s)):
            detail = "the checking loop can stop early"
            continue
        if all(f.cfg.dominated_by(x, lambda y: y is lp) for x in f.cfg.normal_exits()):
            ok = True
    run.ob("K7", "component-coverage")
    if not ok:
        run.violate("K7", f"{f.qual}:component-coverage", f.mod, f.fn, detail)
    run.sample({"function": f.qual})


def _flat_conditions(conds: list) -> list:
    """(test, polarity) pairs split through not / and (when true) / or (when false)."""
    out = []

    def add(t, pol):
        if isinstance(t, ast.UnaryOp) and isinstance(t.op, ast.Not):
            add(t.operand, not pol)
        elif isinstance(t, ast.BoolOp) and ((isinstance(t.op, ast.And) and pol) or (isinstance(t.op, ast.Or) and not pol)):
            for v in t.values:
                add(v, pol)
        else:
            out.append((t, pol))
    for t, pol in conds:
        if isinstance(t, ast.AST):
            add(t, pol)
    return out


def _k8(run: Run, w: World) -> None:
    run.rule("K8", "the dimension QuantityVector infers for itself comes only from a component that carries one: not an angle slot, "
             "not a zero/infinite/NaN scale factor (is_any_dimension), so the later component check cannot refuse on magnitude or order")
    f = Fn(w, VEC, "QuantityVector.__init__")
    sites = []
    for st in ast.walk(f.fn):
        if isinstance(st, ast.Assign) and len(st.targets) == 1 and isinstance(st.targets[0], ast.Name) and st.targets[0].id == "dimension" \
                and isinstance(st.value, ast.Attribute) and st.value.attr == "dimension" and isinstance(st.value.value, ast.Name):
            loops = [l for l in ast.walk(f.fn) if isinstance(l, ast.For) and any(x is st for b in l.body for x in ast.walk(b))]
            if not loops:
                raise AnalysisError(f"C04/K8: `{norm(st, 60)}` at line {st.lineno} is not inside a loop over the components")
            lp = loops[-1]
            conds = conditions_for(f.fn, st, stop=lp)
            if conds is None:
                raise AnalysisError(f"C04/K8: cannot locate `{norm(st, 60)}`")
            sites.append((st, st.value.value.id, _flat_conditions(conds)))
        elif isinstance(st, ast.Assign) and any(isinstance(t, ast.Name) and t.id == "dimension" for t in st.targets) \
                and any(isinstance(x, (ast.GeneratorExp, ast.ListComp)) for x in ast.walk(st.value)):
            for g in ast.walk(st.value):
                if isinstance(g, (ast.GeneratorExp, ast.ListComp)) and isinstance(g.elt, ast.Attribute) and g.elt.attr == "dimension" \
                        and isinstance(g.elt.value, ast.Name) and len(g.generators) == 1:
                    sites.append((st, g.elt.value.id, _flat_conditions([(c, True) for c in g.generators[0].ifs])))
    if not sites:
        dflt = [d for a, d in zip(reversed(f.fn.args.kwonlyargs), reversed(f.fn.args.kw_defaults)) if a.arg == "dimension"]
        if dflt and dflt[0] is None:
            run.ob("K8", "no-inference:dimension-required")
            run.sample({"function": f.qual, "inference": "none, dimension is a required argument"})
            return
        raise AnalysisError("C04/K8: no `dimension = <component>.dimension` inference found in QuantityVector.__init__ although `dimension` is optional")
    for st, elem, conds in sites:
        run.ob("K8", f"inference@{norm(st, 50)}")
        anydim = angle = False
        for t, pol in conds:
            if isinstance(t, ast.Call) and dotted(t.func).split(".")[-1] == "is_any_dimension" and len(t.args) == 1 and pol is False \
                    and isinstance(t.args[0], ast.Attribute) and t.args[0].attr == "scale_factor" and isinstance(t.args[0].value, ast.Name) \
                    and t.args[0].value.id == elem:
                anydim = True
            if isinstance(t, ast.Call) and dotted(t.func).split(".")[-1] == "is_angle_component" and pol is False:
                angle = True
        missing = []
        if not anydim:
            missing.append(f"`not is_any_dimension({elem}.scale_factor)` (a floating point zero, an infinity or NaN carries no dimension; "
                           "a comparison with 0 does not recognise them)")
        if not angle:
            missing.append("`not is_angle_component(...)` (the angle slot of a cylindrical or spherical vector has its own dimension)")
        if missing:
            run.violate("K8", f"{f.qual}:dimension-inference", f.mod, st,
                        f"`{norm(st, 60)}` is reached without " + " and without ".join(missing)
                        + ": a legitimate vector is refused depending on the magnitude or the order of its components")
    run.sample({"function": f.qual, "inference_sites": len(sites)})


def check(run: Run) -> None:
    w = World(run.src)
    _catalogue(run, w)
    _k1(run, w)
    _k2(run, w)
    _k3(run, w)
    _k4(run, w)
    _k5(run, w)
    _k7(run, w)
    _k8(run, w)
