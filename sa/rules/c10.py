"""C10 - Cartesian vector arithmetic: component formulas and refusals of core/vectors/arithmetics.py (E4)."""
from __future__ import annotations

import ast

import itertools

from ..core import Run, AnalysisError, dotted
from ..alg import T, num, var, op, normalize, same, C, Rat
from ..pyreader import static_methods, PyReader, VVal, Sys, Raised

EXPLANATION = (
    "core/vectors/arithmetics.py is evaluated abstractly (no execution of repository code): component values are generic "
    "indeterminates, lengths range over 0..3 x 0..3 (x 0..3 for associativity) and coordinate systems over identity/kind "
    "combinations, i.e. exactly the quantifier of the property. V2: the results of add, subtract, scale, dot, cross, magnitude, "
    "unit, project, reject equal the reference component formulas on zero-extended operands (exact polynomial/rational normal "
    "form, so every value of the components is covered); V3: the listed laws are decided on the evaluated results themselves - "
    "commutativity, associativity, subtraction as inverse, distributivity of scaling, symmetry and bilinearity of dot, "
    "|a|^2 = a.a, bilinearity, antisymmetry, orthogonality and Lagrange's identity for cross, projection + rejection = vector "
    "with the rejection orthogonal to the target, unit vectors of magnitude one; V1: mixing vectors of different coordinate "
    "systems, and sums / cross products / rejection / differentiation / integration of non-Cartesian vectors end in a raise. "
    "Behaviour on symbolic components *through SymPy* (sympify, automatic evaluation) is not decided.")
ASSUMPTIONS = ["missing components count as zero (the property's convention)", "SymPy arithmetic on the components is ordinary commutative arithmetic"]
TRUSTED = ["python ast", "sa/alg.py normal form", "sa/pyreader.py abstract evaluator"]

MOD = "symplyphysics.core.vectors.arithmetics"
CART = Sys("cs0", "CARTESIAN")


def gv(name: str, n: int, system: Sys = CART) -> VVal:
    return VVal([var(f"{name}{i}") for i in range(n)], system)


def ext(v, n: int = 3) -> list:
    comps = v.components if isinstance(v, VVal) else v
    return list(comps) + [num(0)] * (n - len(comps))


def eq_vec(a, b) -> bool:
    la, lb = ext(a), ext(b)
    return all(same(normalize(x), normalize(y)) for x, y in zip(la, lb))


def t_dot(a: list, b: list) -> T:
    acc = num(0)
    for x, y in zip(a, b):
        acc = op("add", acc, op("mul", x, y))
    return acc


def t_cross(a: list, b: list) -> list:
    return [op("sub", op("mul", a[1], b[2]), op("mul", a[2], b[1])), op("sub", op("mul", a[2], b[0]), op("mul", a[0], b[2])),
            op("sub", op("mul", a[0], b[1]), op("mul", a[1], b[0]))]


def check(run: Run) -> None:
    run.rule("V1", "mixing coordinate systems, and non-Cartesian operands of add/subtract/cross/reject/diff/integrate, end in a raise")
    run.rule("V2", "component formulas equal the reference on zero-extended operands for all length combinations")
    run.rule("V3", "vector-space, dot, cross, projection and unit-vector laws hold for the evaluated results")
    mod = run.src.need(MOD)
    for name in ("add_cartesian_vectors", "subtract_cartesian_vectors", "scale_vector", "dot_vectors", "vector_magnitude", "cross_cartesian_vectors",
                 "vector_unit", "project_vector", "reject_cartesian_vector", "diff_cartesian_vector", "integrate_cartesian_vector", "equal_vectors"):
        run.require(any(getattr(s, "name", None) == name for s in mod.tree.body), f"{name} not found in arithmetics.py")
    vcm = run.src.need("symplyphysics.core.vectors.vectors")
    vcls = next((c_ for c_ in vcm.tree.body if isinstance(c_, ast.ClassDef) and c_.name == "Vector"), None)
    run.require(vcls is not None, "class Vector not found")
    vdunder = {f_.name: f_ for f_ in vcls.body if isinstance(f_, ast.FunctionDef) and f_.name in ("__len__", "__bool__")}

    class _R(PyReader):

        def hook_attr(self, base, attr, n):
            if isinstance(base, VVal) and attr == "_components":
                return base.components
            if isinstance(base, VVal) and attr == "_coordinate_system":
                return base.system
            return NotImplemented

        def truthy(self, v, n):
            # `if vector:` - Python asks the class: __bool__, else __len__, else every object is true
            if isinstance(v, VVal) and "__bool__" in vdunder:
                return self.truthy(self.call_def(vdunder["__bool__"], [v], {}, {}), n)
            if isinstance(v, VVal) and "__len__" in vdunder:
                return self.truthy(self.call_def(vdunder["__len__"], [v], {}, {}), n)
            return super().truthy(v, n)

        def hook_call(self, n, env, fns):
            name = (dotted(n.func) or "").split(".")[-1]
            if name == "len" and len(n.args) == 1 and isinstance(n.func, ast.Name) and "len" not in env and "__len__" in vdunder:
                v = self.ev(n.args[0], env, fns)
                if isinstance(v, VVal):
                    return self.call_def(vdunder["__len__"], [v], {}, {})
            if name == "simplify" and len(n.args) >= 1 and name not in self.functions:
                return self.ev(n.args[0], env, fns)  # value-preserving
            if name in ("Abs", "abs") and len(n.args) == 1 and name not in self.functions:
                v = self.ev(n.args[0], env, fns)
                if isinstance(v, T) and not (v.op == "num" or (v.op == "neg" and v.args[0].op == "num")):
                    # the components are generic indeterminates without assumptions: |x| is one more indeterminate (SymPy does not reduce x**2/Abs(x)**2 either)
                    return var(f"Abs({normalize(v)!r})")
            return NotImplemented

        def hook_method(self, base, attr, args, kwargs, n):
            if isinstance(base, VVal) and attr == "rebase" and len(args) == 1 and isinstance(args[0], Sys):
                # re-expression in a related system succeeds (for an unrelated one the library raises): the case in which a sum of vectors of two systems is ANSWERED
                return VVal([var(f"rebased({normalize(c)!r})") for c in base.components], args[0])
            return NotImplemented

    R = _R(mod.tree, where="arithmetics.py")
    csm = run.src.need("symplyphysics.core.coordinate_systems.coordinate_systems")
    R.extern_static = static_methods(next(c_ for c_ in csm.tree.body if isinstance(c_, ast.ClassDef) and c_.name == "CoordinateSystem"))
    R.extern_modules = [csm.tree]

    mutated = set()

    def call(fn, *args):
        for a in args:
            if isinstance(a, Raised):
                return a
        before = [list(a.components) if isinstance(a, VVal) else None for a in args]
        try:
            return R.call(fn, list(args))
        except Raised as r:
            return r
        finally:
            # an operand is a value: the caller's vector must be what it was (Vector.components hands out the vector's own list)
            for a, b in zip(args, before):
                if b is not None and (len(a.components) != len(b) or any(x is not y and repr(x) != repr(y) for x, y in zip(a.components, b))) and fn not in mutated:
                    mutated.add(fn)
                    run.violate("V3", f"{MOD}:{fn}:mutates-operand", mod, mod.tree,
                                f"{fn} changes the components of an operand in place ({b!r} -> {a.components!r}): every later use of that vector sees the changed components")

    s = var("s")
    node = mod.tree
    for m, n in itertools.product(range(4), repeat=2):
        A, B = gv("a", m), gv("b", n)
        ea, eb = ext(A), ext(B)
        tag = f"[{m},{n}]"

        def expect(rule, fname, got, want, what):
            run.ob(rule, f"{fname}{tag}")
            if isinstance(got, Raised):
                run.violate(rule, f"{MOD}:{fname}:{tag}:raises", mod, node, f"{fname} raises {got.exc} (line {got.where}) for Cartesian operands of lengths {m} and {n}")
                return None
            try:
                ok = eq_vec(got, want) if isinstance(want, list) else same(normalize(got), normalize(want))
            except ZeroDivisionError:
                run.violate(rule, f"{MOD}:{fname}:{tag}:division-by-zero", mod, node, f"{fname} divides by an identically zero expression for operands of lengths {m},{n}")
                return None
            if not ok:
                shown = [repr(normalize(x)) for x in ext(got)] if isinstance(got, VVal) else repr(normalize(got))
                run.violate(rule, f"{MOD}:{fname}:{tag}", mod, node, f"{fname} on operands of lengths {m},{n}: {what}; got {shown}")
            return got

        expect("V2", "add_cartesian_vectors", call("add_cartesian_vectors", A, B), [op("add", x, y) for x, y in zip(ea, eb)], "is not the component-wise sum")
        expect("V2", "subtract_cartesian_vectors", call("subtract_cartesian_vectors", A, B), [op("sub", x, y) for x, y in zip(ea, eb)], "is not the component-wise difference")
        expect("V2", "dot_vectors", call("dot_vectors", A, B), t_dot(ea, eb), "is not the sum of component products")
        expect("V2", "cross_cartesian_vectors", call("cross_cartesian_vectors", A, B), t_cross(ea, eb), "is not the cross product")
        if n == 0:
            expect("V2", "scale_vector", call("scale_vector", s, A), [op("mul", s, x) for x in ea], "is not the scaled vector")
            expect("V2", "vector_magnitude", call("vector_magnitude", A), op("sqrt", t_dot(ea, ea)), "is not the Euclidean norm")
            if m >= 1:
                mag = op("sqrt", t_dot(ea, ea))
                expect("V2", "vector_unit", call("vector_unit", A), [op("div", x, mag) for x in ea], "is not the vector divided by its norm")
                u = call("vector_unit", A)
                if isinstance(u, VVal):
                    run.ob("V3", f"unit-magnitude{tag}")
                    mu = call("dot_vectors", u, u)
                    if isinstance(mu, Raised) or not same(normalize(mu), C(1)):
                        run.violate("V3", f"{MOD}:unit-magnitude:{tag}", mod, node, f"a unit vector of a {m}-component vector does not have magnitude one")
        if n >= 1:
            coef = op("div", t_dot(ea, eb), t_dot(eb, eb))
            proj = [op("mul", coef, y) for y in eb]
            p = expect("V2", "project_vector", call("project_vector", A, B), proj, "is not (a.b / b.b) b")
            r = expect("V2", "reject_cartesian_vector", call("reject_cartesian_vector", A, B), [op("sub", x, y) for x, y in zip(ea, proj)], "is not a - proj_b(a)")
            if isinstance(p, VVal) and isinstance(r, VVal):
                run.ob("V3", f"projection+rejection{tag}")
                back = call("add_cartesian_vectors", p, r)
                if isinstance(back, Raised) or not eq_vec(back, ea):
                    run.violate("V3", f"{MOD}:projection+rejection:{tag}", mod, node, "projection plus rejection does not reconstruct the vector")
                run.ob("V3", f"rejection-orthogonal{tag}")
                d = call("dot_vectors", r, B)
                if isinstance(d, Raised) or not same(normalize(d), C(0)):
                    run.violate("V3", f"{MOD}:rejection-orthogonal:{tag}", mod, node, "the rejection is not orthogonal to the target")
        # laws on the evaluated results
        ab, ba = call("add_cartesian_vectors", A, B), call("add_cartesian_vectors", B, A)
        if isinstance(ab, VVal) and isinstance(ba, VVal):
            run.ob("V3", f"add-commutative{tag}")
            if not eq_vec(ab, ba):
                run.violate("V3", f"{MOD}:add-commutative:{tag}", mod, node, "a + b differs from b + a")
            run.ob("V3", f"subtract-inverse{tag}")
            back = call("subtract_cartesian_vectors", ab, B)
            if isinstance(back, Raised) or not eq_vec(back, ea):
                run.violate("V3", f"{MOD}:subtract-inverse:{tag}", mod, node, "(a + b) - b differs from a")
            run.ob("V3", f"scale-distributes{tag}")
            l = call("scale_vector", s, ab)
            r2 = call("add_cartesian_vectors", call("scale_vector", s, A), call("scale_vector", s, B))
            if isinstance(l, Raised) or isinstance(r2, Raised) or not eq_vec(l, r2):
                run.violate("V3", f"{MOD}:scale-distributes:{tag}", mod, node, "s (a + b) differs from s a + s b")
        d1, d2 = call("dot_vectors", A, B), call("dot_vectors", B, A)
        run.ob("V3", f"dot-symmetric{tag}")
        if isinstance(d1, Raised) or isinstance(d2, Raised) or not same(normalize(d1), normalize(d2)):
            run.violate("V3", f"{MOD}:dot-symmetric:{tag}", mod, node, "a.b differs from b.a")
        run.ob("V3", f"dot-homogeneous{tag}")
        d3 = call("dot_vectors", call("scale_vector", s, A), B)
        if isinstance(d3, Raised) or isinstance(d1, Raised) or not same(normalize(d3), normalize(op("mul", s, d1))):
            run.violate("V3", f"{MOD}:dot-homogeneous:{tag}", mod, node, "(s a).b differs from s (a.b)")
        c1, c2 = call("cross_cartesian_vectors", A, B), call("cross_cartesian_vectors", B, A)
        if isinstance(c1, VVal) and isinstance(c2, VVal):
            run.ob("V3", f"cross-antisymmetric{tag}")
            if not eq_vec(c1, [op("neg", x) for x in ext(c2)]):
                run.violate("V3", f"{MOD}:cross-antisymmetric:{tag}", mod, node, "a x b differs from -(b x a)")
            for who, vec in (("a", A), ("b", B)):
                run.ob("V3", f"cross-orthogonal-{who}{tag}")
                dd = call("dot_vectors", c1, vec)
                if isinstance(dd, Raised) or not same(normalize(dd), C(0)):
                    run.violate("V3", f"{MOD}:cross-orthogonal-{who}:{tag}", mod, node, f"a x b is not orthogonal to {who}")
            run.ob("V3", f"lagrange{tag}")
            lhs = call("dot_vectors", c1, c1)
            aa, bb = call("dot_vectors", A, A), call("dot_vectors", B, B)
            if any(isinstance(x, Raised) for x in (lhs, aa, bb, d1)) or not same(normalize(lhs), normalize(op("sub", op("mul", aa, bb), op("mul", d1, d1)))):
                run.violate("V3", f"{MOD}:lagrange:{tag}", mod, node, "|a x b|^2 differs from |a|^2 |b|^2 - (a.b)^2")
            run.ob("V3", f"cross-homogeneous{tag}")
            c3 = call("cross_cartesian_vectors", call("scale_vector", s, A), B)
            if isinstance(c3, Raised) or not eq_vec(c3, [op("mul", s, x) for x in ext(c1)]):
                run.violate("V3", f"{MOD}:cross-homogeneous:{tag}", mod, node, "(s a) x b differs from s (a x b)")
        run.ob("V3", f"magnitude-squared{tag}")
        mg = call("vector_magnitude", A)
        aa = call("dot_vectors", A, A)
        if isinstance(mg, Raised) or isinstance(aa, Raised) or not same(normalize(op("mul", mg, mg)), normalize(aa)):
            run.violate("V3", f"{MOD}:magnitude-squared:{tag}", mod, node, "|a|^2 differs from a.a")
        if len(run.samples) < 6 and m == 3 and n in (2, 3):
            run.sample({"lengths": [m, n], "cross": [repr(normalize(x)) for x in ext(c1)] if isinstance(c1, VVal) else str(c1), "dot": repr(normalize(d1)) if not isinstance(d1, Raised) else str(d1)})
    # additivity in three operands and associativity
    for m, n, k in itertools.product(range(4), repeat=3):
        A, B, Cc = gv("a", m), gv("b", n), gv("c", k)
        tag = f"[{m},{n},{k}]"
        l = call("add_cartesian_vectors", call("add_cartesian_vectors", A, B), Cc)
        r = call("add_cartesian_vectors", A, call("add_cartesian_vectors", B, Cc))
        v = call("add_cartesian_vectors", A, B, Cc)
        run.ob("V3", f"add-associative{tag}")
        if any(isinstance(x, Raised) for x in (l, r, v)) or not eq_vec(l, r) or not eq_vec(l, v):
            run.violate("V3", f"{MOD}:add-associative:{tag}", mod, node, "(a + b) + c, a + (b + c) and add(a, b, c) differ")
        run.ob("V3", f"dot-additive{tag}")
        dl = call("dot_vectors", call("add_cartesian_vectors", A, B), Cc)
        dr = [call("dot_vectors", A, Cc), call("dot_vectors", B, Cc)]
        if isinstance(dl, Raised) or any(isinstance(x, Raised) for x in dr) or not same(normalize(dl), normalize(op("add", dr[0], dr[1]))):
            run.violate("V3", f"{MOD}:dot-additive:{tag}", mod, node, "(a + b).c differs from a.c + b.c")
        run.ob("V3", f"cross-additive{tag}")
        cl = call("cross_cartesian_vectors", call("add_cartesian_vectors", A, B), Cc)
        cr = call("add_cartesian_vectors", call("cross_cartesian_vectors", A, Cc), call("cross_cartesian_vectors", B, Cc))
        if isinstance(cl, Raised) or isinstance(cr, Raised) or not eq_vec(cl, cr):
            run.violate("V3", f"{MOD}:cross-additive:{tag}", mod, node, "(a + b) x c differs from a x c + b x c")
    # ---- V1 refusals
    other = Sys("cs1", "CARTESIAN")
    for fname in ("add_cartesian_vectors", "subtract_cartesian_vectors", "dot_vectors", "cross_cartesian_vectors", "equal_vectors"):
        for m, n in ((3, 3), (2, 3), (0, 1)):
            run.ob("V1", f"{fname}:mixed-systems[{m},{n}]")
            res = call(fname, gv("a", m, CART), gv("b", n, other))
            if not isinstance(res, Raised) or res.exc not in ("TypeError", "ValueError"):
                run.violate("V1", f"{MOD}:{fname}:mixed-systems", mod, node, f"{fname} accepts vectors of two different coordinate systems (lengths {m},{n})")
    for kind in ("CYLINDRICAL", "SPHERICAL"):
        cs = Sys("cs2", kind)
        for fname, nargs in (("add_cartesian_vectors", 2), ("subtract_cartesian_vectors", 2), ("cross_cartesian_vectors", 2), ("reject_cartesian_vector", 2),
                             ("diff_cartesian_vector", 1), ("integrate_cartesian_vector", 1)):
            run.ob("V1", f"{fname}:{kind}")
            args = [gv("a", 3, cs), gv("b", 3, cs)][:nargs]
            if nargs == 1:
                args.append(var("t"))
            res = call(fname, *args)
            if not isinstance(res, Raised) or res.exc not in ("TypeError", "ValueError"):
                run.violate("V1", f"{MOD}:{fname}:{kind}", mod, node, f"{fname} accepts {kind.lower()} vectors instead of refusing them")
        # one Cartesian, one curvilinear operand sharing... (different objects by construction) is covered by mixed-systems
