"""Shared structural rules for the two compositional collectors (C05: collect_quantity, C06: collect_expression)."""
from __future__ import annotations

import ast
from typing import Optional

from ..core import Run, AnalysisError, dotted, norm, Mod
from ..dim import World
from ..flow import CFG, Fn, node_calls, node_of, conditions_for, stmt_of, loop_passes, has_subscript

CQ = "symplyphysics.core.dimensions.collect_quantity"
CE = "symplyphysics.core.dimensions.collect_expression"
ENTRY = {CQ: "collect_quantity_factor_and_dimension", CE: "collect_expression_and_dimension"}

# SymPy subclass facts used by the dispatch-order rule (sub, super): sympy/functions/elementary/complexes.py `class Abs(Function)`.
# Min/Max derive from (MinMaxBase, Application), Derivative from Expr: neither is a Function.
SUBCLASS_FACTS = [("Abs", "SymFunction"), ("Abs", "Function")]
REQUIRED_KINDS = [{"Mul"}, {"Pow"}, {"Add"}, {"Abs"}, {"MinMaxBase", "Min"}, {"MinMaxBase", "Max"}, {"Derivative"}, {"SymFunction", "Function"}]
LEAF_KINDS = {"SymQuantity", "Prefix"}
ALL = frozenset({"0", "rest"})


def case_table(mod: Mod) -> list[tuple[str, str, ast.AST]]:
    """[(sympy class name, handler function name, node)] in dispatch order, from the `_cases` dict literal."""
    for s in mod.tree.body:
        tgt = s.targets[0] if isinstance(s, ast.Assign) and len(s.targets) == 1 else (s.target if isinstance(s, ast.AnnAssign) else None)
        if isinstance(tgt, ast.Name) and tgt.id == "_cases":
            v = s.value
            if not isinstance(v, ast.Dict) or not all(isinstance(k, ast.Name) and isinstance(x, ast.Name) for k, x in zip(v.keys, v.values)):
                raise AnalysisError(f"{mod.name}: `_cases` is not a dict literal of names")
            return [(k.id, x.id, k) for k, x in zip(v.keys, v.values)]
    raise AnalysisError(f"{mod.name}: dispatch table `_cases` not found")


def _fn(mod: Mod, name: str) -> ast.FunctionDef:
    for s in mod.tree.body:
        if isinstance(s, ast.FunctionDef) and s.name == name:
            return s
    raise AnalysisError(f"{mod.name}: handler {name} not found")


# ------------------------------------------------------------------------------------------ child sets


class ChildEval:
    """Which children of the handler's node parameter an expression denotes."""

    def __init__(self, fn: ast.FunctionDef, param: str):
        self.fn = fn
        self.param = param
        self.env: dict[str, object] = {}
        self._bind(fn.body)

    def _bind(self, body: list) -> None:
        for s in body:
            if isinstance(s, ast.Assign) and len(s.targets) == 1:
                t, v = s.targets[0], self.ev(s.value)
                if isinstance(t, ast.Name) and v is not None:
                    self.env[t.id] = v
                elif isinstance(t, (ast.Tuple, ast.List)) and v == ALL:
                    # a, *rest = expr.args   /   a, b = expr.args
                    if len(t.elts) == 2 and isinstance(t.elts[0], ast.Name) and isinstance(t.elts[1], ast.Starred) and isinstance(t.elts[1].value, ast.Name):
                        self.env[t.elts[0].id] = frozenset({"0"})
                        self.env[t.elts[1].value.id] = frozenset({"rest"})
                    elif len(t.elts) == 2 and all(isinstance(e, ast.Name) for e in t.elts):
                        self.env[t.elts[0].id] = frozenset({"0"})
                        self.env[t.elts[1].id] = frozenset({"rest"})
            elif isinstance(s, ast.For):
                it = self.ev(s.iter)
                if isinstance(it, frozenset):
                    if isinstance(s.target, ast.Name):
                        self.env[s.target.id] = ("elem", it, s)
                    elif isinstance(s.target, ast.Tuple) and s.target.elts and isinstance(s.target.elts[0], ast.Name):
                        self.env[s.target.elts[0].id] = ("elem", it, s)  # (variable, order) pairs of a Derivative
                self._bind(s.body)
            elif isinstance(s, (ast.If, ast.While)):
                self._bind(s.body)
                self._bind(s.orelse)
            elif isinstance(s, ast.With):
                self._bind(s.body)

    def ev(self, e: ast.AST):
        if isinstance(e, ast.Name):
            return self.env.get(e.id)
        if isinstance(e, ast.Attribute) and isinstance(e.value, ast.Name) and e.value.id == self.param:
            if e.attr == "args":
                return ALL
            if e.attr in ("base", "exp"):
                return frozenset({e.attr})
            return None
        if isinstance(e, ast.Subscript):
            base = self.ev(e.value)
            if base == ALL:
                if isinstance(e.slice, ast.Constant) and e.slice.value == 0:
                    return frozenset({"0"})
                if isinstance(e.slice, ast.Slice) and isinstance(e.slice.lower, ast.Constant) and e.slice.lower.value == 1 and e.slice.upper is None and e.slice.step is None:
                    return frozenset({"rest"})
                return frozenset({f"sub:{norm(e.slice)}"})
            return None
        if isinstance(e, ast.Call) and dotted(e.func) in ("list", "tuple", "iter") and len(e.args) == 1:
            return self.ev(e.args[0])
        if isinstance(e, ast.Call) and dotted(e.func) == "enumerate" and e.args:
            return self.ev(e.args[0])
        return None


def children_covered(mod: Mod, fn: ast.FunctionDef, param: str, is_collector, helpers: dict, _depth: int = 0) -> tuple[set, list[str]]:
    """Children of `param` that are passed, themselves, to a recursive collector call on every path. Returns (covered, notes)."""
    ce = ChildEval(fn, param)
    covered: set = set()
    notes: list[str] = []
    for c in [x for x in ast.walk(fn) if isinstance(x, ast.Call)]:
        if is_collector(c) and c.args:
            a = c.args[0]
            v = ce.ev(a)
            st = stmt_of(fn, c)
            if isinstance(v, frozenset) and len(v) == 1 and st is not None:
                conds = conditions_for(fn, st, skip_raise_guards=True)
                if conds == []:
                    covered |= v
                else:
                    notes.append(f"collection of {norm(a, 30)} at line {c.lineno} is conditional")
            elif isinstance(v, tuple) and v[0] == "elem" and isinstance(a, ast.Name):
                loop = v[2]
                conds = conditions_for(fn, st, stop=loop, skip_raise_guards=True) if st is not None else None
                early = any(isinstance(x, (ast.Break, ast.Return)) for s in loop.body for x in ast.walk(s))
                outer = conditions_for(fn, loop, skip_raise_guards=True)  # an early `return` before the loop makes the whole loop conditional
                if conds == [] and not early and outer == []:
                    covered |= v[1]
                else:
                    notes.append(f"collection of loop element {a.id} at line {c.lineno} is conditional or the loop can stop early")
            elif v is None and any(isinstance(x, ast.Name) and (x.id == param or x.id in ce.env) for x in ast.walk(a)):
                notes.append(f"collector is given `{norm(a, 40)}` (line {c.lineno}), which is not a child of the node itself")
        # helper that visits all args
        d = dotted(c.func)
        if d in helpers and len(c.args) >= 1 and isinstance(c.args[0], ast.Name) and c.args[0].id == param and helpers[d]:
            st = stmt_of(fn, c)
            if st is not None and conditions_for(fn, st) == []:
                covered |= ALL
        elif d and d not in helpers and isinstance(c.func, ast.Name) and len(c.args) == 1 and isinstance(c.args[0], ast.Name) and c.args[0].id == param and _depth < 2:
            # any other module-level helper handed the node itself: covered when the helper covers all children
            h = next((s for s in mod.tree.body if isinstance(s, ast.FunctionDef) and s.name == d), None)
            if h is not None and h is not fn and h.args.args and not is_collector(c):
                hc, _ = children_covered(mod, h, h.args.args[0].arg, is_collector, helpers, _depth + 1)
                st = stmt_of(fn, c)
                if ALL <= hc and st is not None and conditions_for(fn, st, skip_raise_guards=True) == []:
                    covered |= ALL
    return covered, notes


def wrapper_ok(mod: Mod, is_collector) -> tuple[bool, str]:
    """_elementwise_wrapper.outer: collects args[0] and hands every element of args[1:] to `inner` as third argument."""
    try:
        w = _fn(mod, "_elementwise_wrapper")
    except AnalysisError:
        return False, "no wrapper"
    outer = next((s for s in w.body if isinstance(s, ast.FunctionDef)), None)
    if outer is None or len(outer.args.args) != 1 or not w.args.args:
        return False, "wrapper shape"
    inner_name = w.args.args[0].arg
    p = outer.args.args[0].arg
    cov, notes = children_covered(mod, outer, p, is_collector, {})
    ce = ChildEval(outer, p)
    rest = False
    for c in [x for x in ast.walk(outer) if isinstance(x, ast.Call)]:
        if isinstance(c.func, ast.Name) and c.func.id == inner_name and len(c.args) == 3 and isinstance(c.args[2], ast.Name):
            v = ce.ev(c.args[2])
            if isinstance(v, tuple) and v[0] == "elem" and v[1] == frozenset({"rest"}):
                st = stmt_of(outer, c)
                if st is not None and conditions_for(outer, st, stop=v[2]) == [] and not any(isinstance(x, (ast.Break, ast.Continue, ast.Return)) for s in v[2].body for x in ast.walk(s)):
                    rest = True
    if "0" in cov and rest:
        return True, ""
    return False, f"wrapper covers {sorted(cov)}, rest-loop={rest}; {notes}"


def helper_visits_all(mod: Mod, name: str, is_collector) -> bool:
    """A helper f(expr) whose loop over expr.args classifies every argument into a returned list (collecting the non-trivial ones)."""
    try:
        h = _fn(mod, name)
    except AnalysisError:
        return False
    if not h.args.args:
        return False
    p = h.args.args[0].arg
    cfg = CFG(h)
    for lp in [n for n in cfg.stmt_nodes() if n.kind == "for"]:
        it = lp.ast.iter
        if dotted(it) == f"{p}.args" and isinstance(lp.ast.target, ast.Name):
            var = lp.ast.target.id

            def appends(x) -> bool:
                for cc in node_calls(x):
                    if isinstance(cc.func, ast.Attribute) and cc.func.attr == "append" and len(cc.args) == 1:
                        a = cc.args[0]
                        if isinstance(a, ast.Name) and a.id == var:
                            return True
                        if isinstance(a, ast.Call) and is_collector(a) and a.args and isinstance(a.args[0], ast.Name) and a.args[0].id == var:
                            return True
                return False

            if loop_passes(cfg, lp, appends) and not any(isinstance(x, (ast.Break, ast.Return, ast.Continue)) for s in lp.ast.body for x in ast.walk(s)):
                return True
    return False


# ------------------------------------------------------------------------------------------ operators in a slice


EXACT_REPRESENTATIONS = {"nsimplify", "Rational", "sympify", "S", "Integer"}


def same_exponent(cfg: CFG, n, value_exp: ast.AST, dim_exp: ast.AST) -> bool:
    """the dimension is raised to the SAME number as the value: the identical expression, or one that derives from it only through exact re-representations
    (nsimplify / Rational of the value's exponent, possibly chosen by an `.is_Float`-style test) - never through arithmetic or another variable"""
    if norm(value_exp) == norm(dim_exp):
        return True
    sv, sd = cfg.slice(n, [value_exp]), cfg.slice(n, [dim_exp])
    base_names = {x.id for x in ast.walk(value_exp) if isinstance(x, ast.Name)}
    dim_names = {x.id for e in sd.exprs for x in ast.walk(e) if isinstance(x, ast.Name) and isinstance(x.ctx, ast.Load)}
    if not base_names or not (base_names <= dim_names):
        return False
    extra_calls = {c.split(".")[-1] for c in (sd.calls - sv.calls)} - EXACT_REPRESENTATIONS
    arithmetic = any(isinstance(x, (ast.BinOp, ast.UnaryOp)) and not isinstance(getattr(x, "op", None), ast.Not) for e in sd.exprs if e is not dim_exp or True
                     for x in ast.walk(e) if not any(x is y for ve in sv.exprs for y in ast.walk(ve)))
    # the value's own exponent expression may contain arithmetic (e.g. -1 * exp); what the dimension adds on top must not
    return not extra_calls and not arithmetic and (sd.params | sd.free) - {"nsimplify", "Rational", "sympify", "S", "Integer", "True", "False"} <= (sv.params | sv.free | dim_names)


def ops_in_slice(cfg: CFG, n, expr: ast.AST) -> set:
    sl = cfg.slice(n, [expr])
    ops = set()
    for e in sl.exprs:
        for x in ast.walk(e):
            if isinstance(x, ast.BinOp):
                ops.add(type(x.op).__name__)
            elif isinstance(x, ast.Call) and dotted(x.func) in ("sum", "Add", "SymAdd"):
                ops.add("Add")
            elif isinstance(x, ast.Call) and dotted(x.func) in ("Mul", "SymMul"):
                ops.add("Mult")
    for dn in sl.def_nodes:
        if isinstance(dn.ast, ast.AugAssign):
            ops.add(type(dn.ast.op).__name__)
    return ops


def returned_pairs(fn: ast.FunctionDef) -> list[tuple]:
    cfg = CFG(fn)
    out = []
    for r in cfg.returns():
        v = r.ast.value
        if isinstance(v, ast.Tuple) and len(v.elts) == 2:
            out.append((cfg, r, v.elts[0], v.elts[1]))
    return out


# ------------------------------------------------------------------------------------------ the shared rules


def run_collector_rules(run: Run, w: World, modname: str, sum_like_helper: Optional[str]) -> dict:
    mod = run.src.need(modname)
    entry = ENTRY[modname]
    table = case_table(mod)
    names = [k for k, _, _ in table]

    def is_collector(c: ast.Call) -> bool:
        return isinstance(c.func, ast.Name) and c.func.id == entry

    # ---- S7 the factor collected for a child is used: no path through an iteration forgets it
    run.rule("S7", "inside every loop that collects its elements, the collected factor is put to use (appended / accumulated) on every path through the iteration: "
             "a term may be exempt from the dimension comparison, never from the value")
    for fn in [x for x in ast.walk(mod.tree) if isinstance(x, ast.FunctionDef)]:
        cfg = None
        for lp_ast in [x for x in ast.walk(fn) if isinstance(x, ast.For)]:
            owner = next((g_ for g_ in ast.walk(fn) if isinstance(g_, ast.FunctionDef) and g_ is not fn and any(y is lp_ast for y in ast.walk(g_))), None)
            if owner is not None:
                continue  # handled when the inner function is visited
            binds = [a_ for st_ in lp_ast.body for a_ in ast.walk(st_) if isinstance(a_, ast.Assign) and isinstance(a_.value, ast.Call) and is_collector(a_.value)
                     and isinstance(a_.targets[0], ast.Tuple) and a_.targets[0].elts and isinstance(a_.targets[0].elts[0], ast.Name)]
            if not binds:
                continue
            if cfg is None:
                cfg = CFG(fn)
            lp = next((n_ for n_ in cfg.stmt_nodes() if n_.kind == "for" and n_.ast is lp_ast), None)
            if lp is None:
                continue
            for b_ in binds:
                fname = b_.targets[0].elts[0].id
                run.ob("S7", f"{modname}:{fn.name}:{fname}")

                def uses(n_, fname=fname) -> bool:
                    a_ = n_.ast
                    if a_ is None or n_.kind in ("test", "for", "while"):
                        return False
                    if isinstance(a_, ast.Assign) and a_ is b_:
                        return False
                    loads = [y for y in ast.walk(a_) if isinstance(y, ast.Name) and y.id == fname and isinstance(y.ctx, ast.Load)]
                    if not loads:
                        return False
                    if isinstance(a_, ast.Raise):
                        return False
                    return isinstance(a_, (ast.Assign, ast.AugAssign, ast.AnnAssign, ast.Return)) or \
                        (isinstance(a_, ast.Expr) and isinstance(a_.value, ast.Call) and isinstance(a_.value.func, ast.Attribute) and a_.value.func.attr in ("append", "extend", "add", "insert"))
                if not loop_passes(cfg, lp, uses):
                    run.violate("S7", f"{modname}:{fn.name}:factor-dropped:{fname}", mod, lp_ast,
                                f"in {fn.name} an iteration can complete without using `{fname}`, the factor collected for that child (a `continue` or branch skips it): the child "
                                f"is left out of the value - e.g. an infinite or NaN term disappears from a sum")
    # ---- S2 dispatch order and completeness
    for kinds in REQUIRED_KINDS:
        run.ob("S2", f"{modname}:handles:{'/'.join(sorted(kinds))}")
        if not (kinds & set(names)):
            run.violate("S2", f"{modname}:_cases:missing:{'/'.join(sorted(kinds))}", mod, table[0][2],
                        f"the dispatch table has no entry for {'/'.join(sorted(kinds))}: such nodes fall to a handler for a more general class or to the default")
    for sub, sup in SUBCLASS_FACTS:
        if sub in names and sup in names:
            run.ob("S2", f"{modname}:order:{sub}<{sup}")
            if names.index(sub) > names.index(sup):
                run.violate("S2", f"{modname}:_cases:order:{sub}:{sup}", mod, table[names.index(sub)][2],
                            f"`{sup}` is listed before its subclass `{sub}` in the first-match dispatch table: the {sub} handler is unreachable")
    # the dispatch loop itself: first match over _cases.items(), handler called with the node
    ent = _fn(mod, entry)
    ecfg = CFG(ent)
    loops = [n for n in ecfg.stmt_nodes() if n.kind == "for" and dotted(n.ast.iter.func if isinstance(n.ast.iter, ast.Call) else n.ast.iter) in ("_cases.items", )]
    run.ob("S2", f"{modname}:dispatch-loop")
    ok = False
    for lp in loops:
        tg = lp.ast.target
        if isinstance(tg, ast.Tuple) and len(tg.elts) == 2 and all(isinstance(e, ast.Name) for e in tg.elts):
            tname, hname = tg.elts[0].id, tg.elts[1].id
            # a return of handler(node) inside the loop whose only path condition is isinstance(node, type_) - written as `if isinstance: return` or
            # as `if not isinstance: continue` followed by the return
            for r_ in [x for st_ in lp.ast.body for x in ast.walk(st_) if isinstance(x, ast.Return)]:
                v_ = r_.value
                if not (isinstance(v_, ast.Call) and dotted(v_.func) == hname and len(v_.args) == 1):
                    continue
                conds = [(t_, p_) for t_, p_ in (conditions_for(ent, r_, stop=lp.ast) or []) if not isinstance(t_, str)]
                norm_conds = []
                for t_, p_ in conds:
                    while isinstance(t_, ast.UnaryOp) and isinstance(t_.op, ast.Not):
                        t_, p_ = t_.operand, not p_
                    norm_conds.append((t_, p_))
                if len(norm_conds) == 1 and norm_conds[0][1] is True and isinstance(norm_conds[0][0], ast.Call) and dotted(norm_conds[0][0].func) == "isinstance" \
                        and len(norm_conds[0][0].args) == 2 and dotted(norm_conds[0][0].args[1]) == tname and dotted(norm_conds[0][0].args[0]) == dotted(v_.args[0]):
                    ok = True
    if not ok:
        run.violate("S2", f"{modname}:{entry}:dispatch", mod, ent, "the entry point no longer dispatches `for type_, collector in _cases.items(): if isinstance(expr, type_): return collector(expr)`")

    # ---- S1 children coverage
    helpers = {}
    if sum_like_helper is not None:
        helpers["_split_numeric_and_symbolic"] = helper_visits_all(mod, "_split_numeric_and_symbolic", is_collector)
        run.ob("S1", f"{modname}:_split_numeric_and_symbolic")
        if not helpers["_split_numeric_and_symbolic"]:
            run.violate("S1", f"{modname}:_split_numeric_and_symbolic:coverage", mod, _fn(mod, "_split_numeric_and_symbolic"),
                        "_split_numeric_and_symbolic does not put every argument of the node into one of its result lists")
    wrap_ok, wrap_why = wrapper_ok(mod, is_collector)
    handlers = {}
    for cls, hname, node in table:
        fn = _fn(mod, hname)
        handlers[cls] = fn
        if cls in LEAF_KINDS:
            continue
        need = {"Pow": {"base", "exp"}, "Abs": {"0"}}.get(cls, set(ALL))
        decorated = any(dotted(d) == "_elementwise_wrapper" for d in fn.decorator_list)
        run.ob("S1", f"{modname}:{hname}:{cls}")
        if hname in ("_unsupported_derivative", ):
            continue
        if decorated:
            # inner(factor, dim, arg): must collect its third parameter unconditionally
            if len(fn.args.args) != 3:
                raise AnalysisError(f"{modname}:{hname}: wrapped handler does not have the (factor, dim, arg) shape")
            third = fn.args.args[2].arg
            inner_ok = any(is_collector(c) and c.args and isinstance(c.args[0], ast.Name) and c.args[0].id == third
                           and conditions_for(fn, stmt_of(fn, c)) == [] for c in ast.walk(fn) if isinstance(c, ast.Call))
            if not (wrap_ok and inner_ok):
                run.violate("S1", f"{modname}:{hname}:children", mod, fn,
                            f"handler for {cls} does not ask for the dimension of every child ({'wrapper: ' + wrap_why if not wrap_ok else 'its element function does not collect its argument unconditionally'})")
            continue
        # handlers that build a wrapped closure: _elementwise_wrapper(f)(expr)
        via_wrapper = None
        for c in ast.walk(fn):
            if isinstance(c, ast.Call) and isinstance(c.func, ast.Call) and dotted(c.func.func) == "_elementwise_wrapper" and len(c.func.args) == 1 \
                    and isinstance(c.func.args[0], ast.Name) and [dotted(a) for a in c.args] == [fn.args.args[0].arg]:
                inner = next((s for s in ast.walk(fn) if isinstance(s, ast.FunctionDef) and s.name == c.func.args[0].id), None)
                via_wrapper = inner
        if via_wrapper is not None:
            third = via_wrapper.args.args[2].arg if len(via_wrapper.args.args) == 3 else None
            inner_ok = third is not None and any(is_collector(c) and c.args and isinstance(c.args[0], ast.Name) and c.args[0].id == third
                                                 and conditions_for(via_wrapper, stmt_of(via_wrapper, c)) == [] for c in ast.walk(via_wrapper) if isinstance(c, ast.Call))
            if not (wrap_ok and inner_ok):
                run.violate("S1", f"{modname}:{hname}:children", mod, fn, f"handler for {cls} does not ask for the dimension of every child")
            continue
        if not fn.args.args:
            raise AnalysisError(f"{modname}:{hname}: handler without parameter")
        cov, notes = children_covered(mod, fn, fn.args.args[0].arg, is_collector, helpers)
        if not need <= cov:
            run.violate("S1", f"{modname}:{hname}:children", mod, fn,
                        f"handler for {cls} does not pass every child of the node, itself, to {entry}: covered {sorted(cov) or 'none'}, "
                        f"required {sorted(need)}" + (f"; {'; '.join(notes)}" if notes else ""), covered=sorted(cov), required=sorted(need))
        run.sample({"collector": modname.rsplit('.', 1)[1], "handler": hname, "class": cls, "children_covered": sorted(cov)})
    return {"mod": mod, "table": table, "handlers": handlers, "is_collector": is_collector, "wrap_ok": wrap_ok}


def homomorphism(run: Run, mod: Mod, cls: str, fn: ast.FunctionDef, expect_f: set, expect_d: set, nonempty_f: bool = True) -> None:
    pairs = returned_pairs(fn)
    if not pairs:
        raise AnalysisError(f"{mod.name}:{fn.name}: no (factor, dimension) return found")
    for cfg, r, fe, de in pairs:
        conds = conditions_for(fn, r.ast) or []
        escape = any(not isinstance(t, str) and isinstance(t, ast.Call) and dotted(t.func) == "is_any_dimension" and p is True for t, p in conds)
        if escape:
            continue
        run.ob("S6", f"{mod.name}:{fn.name}:{cls}")
        of, od = ops_in_slice(cfg, r, fe), ops_in_slice(cfg, r, de)
        if not of <= expect_f or (nonempty_f and not of):
            run.violate("S6", f"{mod.name}:{fn.name}:factor", mod, r.ast,
                        f"the {cls} handler combines the children's values with {sorted(of) or 'no operator'}; only {sorted(expect_f)} is the operator of {cls}")
        if not od <= expect_d or (expect_d and not od):
            run.violate("S6", f"{mod.name}:{fn.name}:dimension", mod, r.ast,
                        f"the {cls} handler combines the children's dimensions with {sorted(od) or 'no operator'}; expected {sorted(expect_d) or 'none (common dimension kept)'}")


# ------------------------------------------------------------------------------------------ sum-like discipline (S3)


def _contains_call(e: ast.AST, name: str) -> list[ast.Call]:
    return [c for c in ast.walk(e) if isinstance(c, ast.Call) and (dotted(c.func) or "").split(".")[-1] == name.split(".")[-1] and (dotted(c.func) or "") .endswith(name)]


def _scopes(mod: Mod, fn: ast.FunctionDef, entry: str) -> list[ast.FunctionDef]:
    out = [fn] + [x for x in ast.walk(fn) if isinstance(x, ast.FunctionDef) and x is not fn]
    helpers = {s.name: s for s in mod.tree.body if isinstance(s, ast.FunctionDef)}
    for c in ast.walk(fn):
        if isinstance(c, ast.Call) and isinstance(c.func, ast.Name) and c.func.id in helpers and c.func.id != entry and helpers[c.func.id] not in out \
                and c.func.id != "_elementwise_wrapper":
            out.append(helpers[c.func.id])
    return out


def _enclosing_loop(scope: ast.FunctionDef, node: ast.AST):
    best = None
    for lp in [x for x in ast.walk(scope) if isinstance(x, (ast.For, ast.While))]:
        if any(y is node for s in lp.body for y in ast.walk(s)):
            if best is None or any(y is lp for s in best.body for y in ast.walk(s)):
                best = lp
    return best


def _names(e: ast.AST) -> set:
    return {x.id for x in ast.walk(e) if isinstance(x, ast.Name)}


def _per_term(scope: ast.FunctionDef, loop, arg: ast.AST, elementwise_inner: bool) -> tuple[bool, str]:
    """Is `arg` (the operand of is_any_dimension) the value of the *current term*, as opposed to an accumulated value?"""
    names = _names(arg)
    if loop is None:
        params = [a.arg for a in scope.args.args]
        if elementwise_inner and len(params) == 3:
            acc = set(params[:2]) & names
            if acc:
                return False, f"`{norm(arg, 40)}` is the running value `{sorted(acc)[0]}` of the fold, not a term"
        return True, ""
    targets = {x.id for x in ast.walk(loop.target) if isinstance(x, ast.Name)}
    inside = {}
    for s in loop.body:
        for x in ast.walk(s):
            if isinstance(x, (ast.Assign, ast.AugAssign, ast.AnnAssign)):
                tg = x.targets if isinstance(x, ast.Assign) else [x.target]
                for t in tg:
                    for nme in _names(t):
                        inside.setdefault(nme, []).append(x)
    outside = set()
    for x in ast.walk(scope):
        if isinstance(x, (ast.Assign, ast.AnnAssign, ast.AugAssign)) and not any(y is x for s in loop.body for y in ast.walk(s)):
            tg = x.targets if isinstance(x, ast.Assign) else [x.target]
            for t in tg:
                outside |= _names(t)
    for nme in names:
        if nme in targets:
            continue
        if nme in inside:
            carried = nme in outside or any(isinstance(a, ast.AugAssign) or nme in _names(getattr(a, "value", a)) for a in inside[nme])
            if carried:
                return False, f"`{nme}` is accumulated across the terms (carried from one iteration to the next), it is not the current term"
            continue
        if nme in outside or nme in [a.arg for a in scope.args.args]:
            return False, f"`{nme}` is not a value of the current term"
    return True, ""


def sum_like_discipline(run: Run, mod: Mod, fn: ast.FunctionDef, label: str, entry: str) -> None:
    """S3 for one sum-like handler: (a) inequivalent dimensions are refused; (b) the any-dimension escape is decided on the current
    term's own value - never on a running sum/extremum - and (c) it precedes both the refusal and every adoption of a term's
    dimension as the common one."""
    decorated = any(dotted(d) == "_elementwise_wrapper" for d in fn.decorator_list)
    refusals = []
    for sc in _scopes(mod, fn, entry):
        inner = decorated and sc is fn or any(isinstance(c, ast.Call) and isinstance(c.func, ast.Call) and dotted(c.func.func) == "_elementwise_wrapper"
                                              and isinstance(c.func.args[0], ast.Name) and c.func.args[0].id == sc.name for c in ast.walk(fn))
        for r in [x for x in ast.walk(sc) if isinstance(x, ast.Raise)]:
            own = next((s for s in _scopes(mod, fn, entry) if s is not sc and any(y is r for y in ast.walk(s)) and any(y is s for y in ast.walk(sc))), None)
            if own is not None:
                continue  # belongs to a nested scope handled on its own
            loop = _enclosing_loop(sc, r)
            conds = conditions_for(sc, r, stop=loop) or []
            eq = [(t, p) for t, p in conds if not isinstance(t, str) and _contains_call(t, "equivalent_dims")]
            if eq:
                refusals.append((sc, r, loop, conds, eq[0][0], inner))
    run.ob("S3", f"{mod.name}:{label}:equivalence")
    if not refusals:
        run.violate("S3", f"{mod.name}:{label}:equivalence", mod, fn, f"the {label} handler no longer refuses operands whose dimensions fail dimsys_SI.equivalent_dims")
        return
    for sc, r, loop, conds, eqtest, inner in refusals:
        where = f"{label}@{sc.name}" + (f":{norm(loop.iter, 20)}" if loop is not None else "")
        run.ob("S3", f"{mod.name}:{where}:escape")
        escapes = [(c.args[0], p) for t, p in conds if not isinstance(t, str) for c in _contains_call(t, "is_any_dimension") if c.args and p is False]
        eqcall = _contains_call(eqtest, "equivalent_dims")[0]
        common = eqcall.args[0].id if eqcall.args and isinstance(eqcall.args[0], ast.Name) else None
        good = []
        bad_reason = ""
        for a, _ in escapes:
            ok, why = _per_term(sc, loop, a, inner)
            if ok:
                good.append(a)
            else:
                bad_reason = why
        # escapes that are not guards in front of the refusal: any other is_any_dimension use in this scope
        others = [c for c in ast.walk(sc) if isinstance(c, ast.Call) and dotted(c.func) == "is_any_dimension" and c.args and not any(c.args[0] is a for a, _ in escapes)]
        for c in others:
            lp2 = _enclosing_loop(sc, c)
            if lp2 is not loop:
                continue
            ok, why = _per_term(sc, loop, c.args[0], inner)
            if not ok:
                run.violate("S3", f"{mod.name}:{where}:accumulator-escape", mod, c,
                            f"in the {label} handler the any-dimension escape is decided on {why}: terms that cancel (2 m - 2 m + 3 kg) or are absorbed "
                            f"(Min(0, 2 kg, 3 m)) let inequivalent dimensions through")
        if not good:
            run.violate("S3", f"{mod.name}:{where}:escape", mod, r,
                        f"in the {label} handler a term is compared with the common dimension without first being excused when it is 0, oo or nan"
                        + (f" ({bad_reason})" if bad_reason else ""))
            continue
        # adoption of a term's dimension as the common dimension must be behind the same escape
        if common and loop is not None:
            for a in [x for s in loop.body for x in ast.walk(s) if isinstance(x, ast.Assign) and any(isinstance(t, ast.Name) and t.id == common for t in x.targets)]:
                run.ob("S3", f"{mod.name}:{where}:adoption")
                ac = conditions_for(sc, a, stop=loop) or []
                if not any(not isinstance(t, str) and _contains_call(t, "is_any_dimension") and p is False for t, p in ac):
                    run.violate("S3", f"{mod.name}:{where}:adoption-before-escape", mod, a,
                                f"in the {label} handler `{norm(a, 40)}` adopts a term's dimension as the common one before asking whether that term is 0, oo or nan: "
                                f"a zero term then decides the dimension and the verdict depends on the order of the terms")
