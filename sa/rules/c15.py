"""C15 - experimental coordinate conversions: the dispatch tables are mutually consistent and geometry-preserving (E4)."""
from __future__ import annotations

import ast
import itertools

from ..core import Run, AnalysisError, dotted, norm
from ..alg import T, num, var, op, app, normalize, substitute, Rat, C, same, same_terms, eval_term
from ..vecreader import VecReader
from ..pyreader import PyReader, Raised
from ..dim import World
from ..flow import Fn, node_calls, kw

EXPLANATION = (
    "The six scalar conversion tables, six base-vector tables and three Lame triples of core/experimental/coordinate_systems are "
    "dict/tuple literals. They are read into terms and decided in the exact normal form (rational functions with sin^2+cos^2=1, "
    "square-root atoms with q^2 = radicand, sin/cos of atan2/acos resolved): X1 for every ordered pair (A, B) the position map of A "
    "(A -> Cartesian table) composed with the table expressing A's scalars in B's equals the position map of B - so conversions "
    "commute with the map to Cartesian position, which gives 'direct = via a third system' and, the charts being injective on "
    "their domains, the round-trip identity; X2 each base-vector table, read as a 3x3 coefficient matrix, is orthogonal "
    "(M M^T = I), the reverse table is its transpose after the scalar conversion, and each curvilinear frame expressed in the "
    "Cartesian basis equals the normalised position derivatives (d P/d q_i)/h_i; X3 each Lame triple squared equals "
    "sum_j (d x_j/d q_i)^2; X4 convert_point / convert_vector, evaluated abstractly for all nine "
    "ordered pairs, return the new system's scalars expressed in the old ones with all coordinates inserted at once (also for points "
    "written in the old or the new system's own scalars) and the vector re-expressed through express_base_vectors(old system, new "
    "system, old_args=(old point,), new_args=(converted point,)); X6 every angle entry stays on one branch: direct = via the third "
    "system and A -> B -> A = identity, entry by entry (sine and cosine exactly; the branch itself on a grid covering all sign "
    "patterns and the coordinate planes, which also evaluates Mod/Piecewise entries); X1 is additionally evaluated on that grid; X5 the fall-through "
    "dispatch raises TypeError for unlike system types. Behaviour ON the singular sets (z axis, origin, azimuth cut) is not decided.")
ASSUMPTIONS = [
    "radial scalars are non-negative and polar angle in [0, pi] (as the source declares with nonnegative=True): square roots of even monomials are taken positively",
    "a reported inequality is definite up to algebraic dependence between distinct radicals (none occurs in these tables)",
]
TRUSTED = ["python ast", "sa/alg.py normal form", "Euclidean geometry of the three charts"]

PKGM = "symplyphysics.core.experimental.coordinate_systems"
SC = PKGM + ".express_base_scalars"
VC = PKGM + ".express_base_vectors"
CSYS = PKGM + ".coordinate_systems"
CLASSES = {"CartesianCoordinateSystem": "C", "CylindricalCoordinateSystem": "Y", "SphericalCoordinateSystem": "S"}
NAMES = {"C": "Cartesian", "Y": "cylindrical", "S": "spherical"}


def sv(tag: str, k: int) -> T:
    return var(f"{tag}{k}")


def _dispatch_pair(fn: ast.FunctionDef):
    for d in fn.decorator_list:
        if isinstance(d, ast.Call) and dotted(d.func) == "dispatch" and len(d.args) == 2:
            a, b = dotted(d.args[0]), dotted(d.args[1])
            return a, b
    return None


def _properties(run: Run) -> dict:
    """class -> {property name: scalar index}, and lame triples as terms"""
    m = run.src.need(CSYS)
    props, lame = {}, {}
    for c in [s for s in m.tree.body if isinstance(s, ast.ClassDef) and s.name in CLASSES]:
        tag = CLASSES[c.name]
        table = {}
        for f in [s for s in c.body if isinstance(s, ast.FunctionDef)]:
            rets = [s for s in f.body if isinstance(s, ast.Return)]
            if len(f.body) == 1 and rets and isinstance(rets[0].value, ast.Subscript) and dotted(rets[0].value.value) == "self.base_scalars" \
                    and isinstance(rets[0].value.slice, ast.Constant):
                table[f.name] = rets[0].value.slice.value
        props[tag] = table
        lf = next((s for s in c.body if isinstance(s, ast.FunctionDef) and s.name == "lame_coefficients"), None)
        if lf is None:
            raise AnalysisError(f"C15: {c.name}.lame_coefficients not found")
        # the method is evaluated (temporaries, tuple repetition, Integer(1) for S.One are all the same triple)
        from ..pyreader import PyReader as _PyReader, Raised as _Raised

        class _SelfSystem:
            pass

        class _LameReader(_PyReader):

            def hook_attr(self, base, attr, n, tag=tag, table=table):
                if isinstance(base, _SelfSystem):
                    if attr in table:
                        return sv(tag, table[attr])
                    if attr in ("base_scalars", "_base_scalars"):
                        return [sv(tag, k_) for k_ in range(3)]
                return NotImplemented

            def hook_call(self, n, env, fns):
                nm = (dotted(n.func) or "").split(".")[-1]
                if nm in ("Integer", "Float", "Rational", "S") and len(n.args) == 1:
                    return self.ev(n.args[0], env, fns)
                return NotImplemented

        methods = ast.Module(body=[x for x in m.tree.body if not isinstance(x, ast.ClassDef)] + [x for x in c.body if isinstance(x, ast.FunctionDef)], type_ignores=[])
        try:
            val = _LameReader(methods, f"{c.name}.lame_coefficients").call("lame_coefficients", [_SelfSystem()])
        except _Raised as r_:
            raise AnalysisError(f"C15: {c.name}.lame_coefficients raises {r_.exc}")
        if isinstance(val, list):
            val = [x if isinstance(x, T) else (num(x) if isinstance(x, int) and not isinstance(x, bool) else x) for x in val]
        if not (isinstance(val, list) and len(val) == 3 and all(isinstance(x, T) for x in val)):
            raise AnalysisError(f"C15: {c.name}.lame_coefficients does not return a triple")
        lame[tag] = val
    if set(props) != {"C", "Y", "S"}:
        raise AnalysisError("C15: coordinate system classes not found")
    return {"props": props, "lame": lame, "mod": m}


def _read_tables(run: Run, modname: str, info: dict, vectors: bool) -> dict:
    """{(old tag, new tag): ([3 terms] or [3 x 3 coefficient terms], node)}; entries are functions of the NEW system's scalars."""
    m = run.src.need(modname)
    out = {}
    for fn in [s for s in m.tree.body if isinstance(s, ast.FunctionDef)]:
        pair = _dispatch_pair(fn)
        if pair is None or pair[0] not in CLASSES or pair[1] not in CLASSES:
            continue
        ot, nt = CLASSES[pair[0]], CLASSES[pair[1]]
        old_p, new_p = fn.args.args[0].arg, fn.args.args[1].arg
        env = {}
        basis = [[num(1), num(0), num(0)], [num(0), num(1), num(0)], [num(0), num(0), num(1)]]
        rd = VecReader(env, where=f"{fn.name}[{NAMES[ot]}->{NAMES[nt]}]")
        rd.helpers = {s.name: s for s in m.tree.body if isinstance(s, ast.FunctionDef) and not s.decorator_list}

        def special(r, n, ot=ot, nt=nt, old_p=old_p, new_p=new_p):
            d = dotted(n) if isinstance(n, ast.Attribute) else None
            if d == f"{new_p}.base_scalars":
                return [sv(nt, k) for k in range(3)]
            if d == f"{old_p}.base_scalars":
                return [("old-scalar", k) for k in range(3)]
            if isinstance(n, ast.Attribute) and isinstance(n.value, ast.Name) and n.value.id == new_p and n.attr in info["props"][nt]:
                return sv(nt, info["props"][nt][n.attr])
            if isinstance(n, ast.Attribute) and isinstance(n.value, ast.Name) and n.value.id == old_p and n.attr in info["props"][ot]:
                r.fail(n, "a scalar of the OLD system is used inside a table whose entries are functions of the new system")
            if isinstance(n, ast.Call) and isinstance(n.func, ast.Attribute) and n.func.attr == "base_vectors" and isinstance(n.func.value, ast.Name):
                if n.func.value.id == new_p:
                    return [list(b) for b in basis]
                if n.func.value.id == old_p:
                    return [("old-vector", k) for k in range(3)]
            return None
        rd.special = special
        keys = {}
        body = []
        for s in fn.body:
            if isinstance(s, ast.Expr) and isinstance(s.value, ast.Constant):
                continue
            body.append(s)
        # run assignments by hand so that markers can be bound to names
        ret = None
        for s in body:
            if isinstance(s, ast.Assign) and len(s.targets) == 1:
                v = rd.ev(s.value)
                t = s.targets[0]
                if isinstance(t, ast.Tuple) and isinstance(v, list) and len(v) == len(t.elts):
                    for e, x in zip(t.elts, v):
                        if isinstance(x, tuple) and x[0] in ("old-scalar", "old-vector"):
                            keys[e.id] = x
                        else:
                            rd.env[e.id] = x
                elif isinstance(t, ast.Name):
                    rd.env[t.id] = v
                else:
                    rd.fail(s, "assignment shape")
            elif isinstance(s, ast.Return):
                ret = s
            else:
                rd.fail(s, "statement outside the straight-line class")
        if ret is None or not isinstance(ret.value, ast.Dict):
            raise AnalysisError(f"C15: {fn.name}[{ot}->{nt}] does not return a dict literal")
        want = "old-vector" if vectors else "old-scalar"
        entries = [None, None, None]
        for k, v in zip(ret.value.keys, ret.value.values):
            if not (isinstance(k, ast.Name) and k.id in keys and keys[k.id][0] == want):
                raise AnalysisError(f"C15: {fn.name}[{ot}->{nt}]: key `{norm(k)}` is not one of the old system's base {'vectors' if vectors else 'scalars'}")
            val = rd.ev(v)
            if vectors and not (isinstance(val, list) and len(val) == 3):
                rd.fail(v, "not a combination of the new base vectors")
            if not vectors and not isinstance(val, T):
                rd.fail(v, "not a scalar expression")
            entries[keys[k.id][1]] = val
        if any(e is None for e in entries):
            raise AnalysisError(f"C15: {fn.name}[{ot}->{nt}] does not define all three entries")
        out[(ot, nt)] = (entries, ret)
    return out


def _under_trig(t, name: str, inside: bool = False) -> bool:
    if isinstance(t, int):
        return False
    if t.op == "var":
        return inside and t.val == name
    return any(_under_trig(x, name, inside or t.op in ("sin", "cos", "tan")) for x in t.args)


DENSE = False


def _grid(tag: str) -> list:
    """points of a system's domain covering every sign pattern and the coordinate planes; the z axis, the origin and the
    half-plane where the azimuth jumps (y = 0, x < 0) are left out: conversions are not continuous (or not defined) there"""
    import math
    pts = []
    if tag == "C":
        xs, ys, zs = ((-2.1, -1.3, -1e-3, 0.0, 1e-3, 0.7, 3.0), (-1.9, -0.9, -1e-3, 0.0, 1e-3, 1.1, 2.5), (-1.7, -1e-3, 0.0, 1e-3, 0.6, 4.0)) if DENSE else \
            ((-1.3, 0.0, 0.7), (-0.9, 0.0, 1.1), (-1.7, 0.0, 0.6))
        for x in xs:
            for y in ys:
                for z in zs:
                    if (x == 0 and y == 0) or (y == 0 and x < 0):
                        continue
                    pts.append({"C0": x, "C1": y, "C2": z})
    elif tag == "Y":
        phis = (-2.5, -math.pi / 2, -1.0, 0.0, 0.6, math.pi / 2, 2.0, 3.0) + ((-3.1, -2.0, -0.3, 0.2, 1.2, 2.7, 3.1) if DENSE else ())
        for rho in ((0.05, 0.9, 7.0) if DENSE else (0.9, )):
            for phi in phis:
                for z in (-1.1, 0.0, 0.8):
                    pts.append({"Y0": rho, "Y1": phi, "Y2": z})
    else:
        phis = (-2.5, -math.pi / 2, -1.0, 0.0, 0.6, math.pi / 2, 2.0, 3.0) + ((-3.1, -2.0, -0.3, 0.2, 1.2, 2.7, 3.1) if DENSE else ())
        for r in ((0.05, 1.7, 7.0) if DENSE else (1.7, )):
            for theta in (0.4, math.pi / 2, 2.4) + ((0.01, 1.0, 2.0, 3.1) if DENSE else ()):
                for phi in phis:
                    pts.append({"S0": r, "S1": theta, "S2": phi})
    return pts


def _grid_mismatch(lhs, rhs, tag: str):
    """first grid point of system `tag` at which the two terms differ: (point, left, right); None when they agree wherever
    both are defined. Evaluation is IEEE double arithmetic on the terms read from the source - a difference above 1e-9 at a
    point of the domain is a definitive counterexample, agreement is only corroboration of the exact comparison."""
    for pt in _grid(tag):
        try:
            va, vb = eval_term(lhs, dict(pt)), eval_term(rhs, dict(pt))
        except (ValueError, ZeroDivisionError, OverflowError):
            continue
        if abs(va - vb) > 1e-9 * max(1.0, abs(va), abs(vb)):
            names = {"C": "xyz", "Y": ("rho", "phi", "z"), "S": ("r", "theta", "phi")}[tag]
            return ({names[int(k[1])]: round(v, 6) for k, v in pt.items()}, va, vb)
    return None


def _subst_env(tag: str, terms: list) -> dict:
    return {f"{tag}{k}": terms[k] for k in range(3)}


def check(run: Run) -> None:
    run.rule("X1", "position map of A composed with (A's scalars in B's) equals the position map of B, for every ordered pair")
    run.rule("X2", "base-vector tables are orthogonal matrices, reverse = transpose after scalar conversion, frames = normalised position derivatives")
    run.rule("X3", "Lame coefficients squared equal the squared lengths of the position derivatives")
    run.rule("X4", "convert_point / convert_vector use the tables in the right direction and substitute the new coordinates")
    run.rule("X5", "the fall-through dispatch raises TypeError for unlike coordinate system types")
    run.rule("X6", "angles stay on one branch: a direct scalar conversion equals the conversion via the third system, and A -> B -> A is the identity, "
             "entry by entry (exact modulo 2 pi; the branch itself on a grid covering every sign pattern and the coordinate planes)")
    global DENSE
    DENSE = run.tier == "thorough"
    _x7_stateless(run)
    _x8_points(run)
    info = _properties(run)
    S = _read_tables(run, SC, info, vectors=False)
    M = _read_tables(run, VC, info, vectors=True)
    pairs = [(a, b) for a in "CYS" for b in "CYS" if a != b]
    for p in pairs:
        run.require(p in S, f"scalar table {p} missing")
        run.require(p in M, f"base-vector table {p} missing")
    smod, vmod = run.src.need(SC), run.src.need(VC)
    # position maps: Cartesian scalars as functions of A's scalars = table (C -> A)
    P = {"C": [sv("C", k) for k in range(3)], "Y": S[("C", "Y")][0], "S": S[("C", "S")][0]}
    # ---- X1 (grid first: a definite counterexample is reported even where the exact comparison must refuse)
    # the identity evaluated on a grid that contains the coordinate planes (conditions such as Eq(x, 0) are only taken there)
    for a, b in pairs:
        if a == "C":
            continue
        comp = [substitute(t, _subst_env(a, S[(a, b)][0])) for t in P[a]]
        for k in range(3):
            run.ob("X1", f"grid: P_{a} o ({a} in {b}) = P_{b} [{'xyz'[k]}]")
            bad = _grid_mismatch(comp[k], P[b][k], b)
            if bad is not None:
                run.violate("X1", f"{SC}:{a}->{b}:{'xyz'[k]}", smod, S[(a, b)][1],
                            f"expressing the {NAMES[a]} scalars in {NAMES[b]} ones moves the point: at {bad[0]} the Cartesian {'xyz'[k]}-coordinate becomes "
                            f"{bad[1]:.6g} instead of {bad[2]:.6g}", witness=bad[0])
    # X1 exactly
    for a, b in pairs:
        if a == "C":
            continue
        comp = [substitute(t, _subst_env(a, S[(a, b)][0])) for t in P[a]]
        for k in range(3):
            run.ob("X1", f"P_{a} o ({a} in {b}) = P_{b} [{'xyz'[k]}]")
            lhs, rhs = normalize(comp[k]), normalize(P[b][k])
            if not same(lhs, rhs):
                run.violate("X1", f"{SC}:{a}->{b}:{'xyz'[k]}", smod, S[(a, b)][1],
                            f"expressing the {NAMES[a]} scalars in {NAMES[b]} ones does not preserve the Cartesian {'xyz'[k]}-coordinate: "
                            f"{lhs!r} instead of {rhs!r}", composed=repr(lhs), expected=repr(rhs))
        run.sample({"pair": f"{NAMES[a]} in {NAMES[b]}", "table": [repr(t) for t in S[(a, b)][0]]})
    # ---- X6
    angular = {a: {k for k in range(3) if any(_under_trig(t, f"{a}{k}") for t in P[a])} for a in "CYS"}
    for a in "CYS":
        for c in "CYS":
            if a == c:
                continue
            b = next(x for x in "CYS" if x not in (a, c))
            direct = S[(a, c)][0]
            via = [substitute(t, _subst_env(b, S[(b, c)][0])) for t in S[(a, b)][0]]
            back = [substitute(t, _subst_env(c, S[(c, a)][0])) for t in S[(a, c)][0]]  # a's scalars -> c -> a, functions of a's scalars
            for k in range(3):
                for what, lhs, rhs, dom in ((f"direct={NAMES[a]}-in-{NAMES[c]} vs via {NAMES[b]}", direct[k], via[k], c),
                                            (f"round-trip {NAMES[a]}->{NAMES[c]}->{NAMES[a]}", back[k], sv(a, k), a)):
                    run.ob("X6", f"{what} [{k}]")
                    if k in angular[a]:
                        exact = all(same_terms(op(f_, lhs), op(f_, rhs), what) for f_ in ("sin", "cos"))
                    else:
                        exact = same_terms(lhs, rhs, what)
                    bad = None if not exact else _grid_mismatch(lhs, rhs, dom)
                    if not exact or bad is not None:
                        at = f": at {bad[0]} one gives {bad[1]:.6g}, the other {bad[2]:.6g}" if bad else ""
                        run.violate("X6", f"{SC}:{a}->{c}:[{k}]:{what.split(' ')[0]}", smod, S[(a, c)][1],
                                    f"scalar {k} of the {NAMES[a]} system: {what} disagree{at} "
                                    f"({'a different branch of the angle' if exact else 'not even modulo 2 pi'})", witness=bad[0] if bad else None)
    # ---- X3
    for tag in "CYS":
        h = info["lame"][tag]
        for i in range(3):
            run.ob("X3", f"h_{i}({NAMES[tag]})")
            s = C(0)
            for j in range(3):
                d = normalize(op("diff", P[tag][j], sv(tag, i)))
                s = s + d * d
            hh = normalize(h[i])
            if not same(hh * hh, s):
                run.violate("X3", f"{CSYS}:{tag}:lame[{i}]", info["mod"], info["mod"].tree,
                            f"Lame coefficient {i} of the {NAMES[tag]} system is {hh!r}; the length of dP/dq_{i} squared is {s!r}")
    # ---- X2
    for a, b in pairs:
        rows = [[normalize(x) for x in row] for row in M[(a, b)][0]]
        for i, j in itertools.combinations_with_replacement(range(3), 2):
            run.ob("X2", f"orthonormal:{a}->{b}[{i},{j}]")
            dot = C(0)
            for k in range(3):
                dot = dot + rows[i][k] * rows[j][k]
            if not same(dot, C(1 if i == j else 0)):
                run.violate("X2", f"{VC}:{a}->{b}:orthonormal[{i},{j}]", vmod, M[(a, b)][1],
                            f"the {NAMES[a]}->{NAMES[b]} base-vector table is not an orthonormal rotation: rows {i},{j} have inner product {dot!r}")
        # reverse = transpose, after expressing b's scalars in a's:  M[a->b](b-scalars := S[(b, a)]) == M[b->a]^T  (functions of a's scalars)
        env = _subst_env(b, S[(b, a)][0])
        back = M[(b, a)][0]
        for i in range(3):
            for j in range(3):
                run.ob("X2", f"inverse:{a}->{b}[{i},{j}]")
                lhs = normalize(substitute(M[(a, b)][0][i][j], env))
                rhs = normalize(back[j][i])
                if not same(lhs, rhs):
                    run.violate("X2", f"{VC}:{a}->{b}:inverse[{i},{j}]", vmod, M[(a, b)][1],
                                f"the {NAMES[a]}->{NAMES[b]} and {NAMES[b]}->{NAMES[a]} base-vector tables are not inverse rotations (entry {i},{j}: {lhs!r} vs {rhs!r})")
    for b in "YS":
        # frame of b in the Cartesian basis, as functions of b's scalars: M[b->C] with Cartesian scalars := P[b]
        env = _subst_env("C", P[b])
        for i in range(3):
            hh = normalize(info["lame"][b][i])
            for j in range(3):
                run.ob("X2", f"frame:{b}[{i},{j}]")
                lhs = normalize(substitute(M[(b, "C")][0][i][j], env))
                rhs = normalize(op("diff", P[b][j], sv(b, i))) / hh
                if not same(lhs, rhs):
                    run.violate("X2", f"{VC}:{b}->C:frame[{i},{j}]", vmod, M[(b, "C")][1],
                                f"base vector {i} of the {NAMES[b]} system has Cartesian component {j} = {lhs!r}; the normalised position derivative is {rhs!r}")
    # ---- X4: convert_point / convert_vector evaluated abstractly against the tables read above
    _x4(run, S, M)
    # ---- X5 (by evaluation): the fall-through entry, given two systems of different classes, ends in TypeError - checked inline or through a helper
    csys_mod = run.src.need(CSYS)

    class _X5Reader(PyReader):

        def hook_call(self, n, env, fns):
            name = (dotted(n.func) or "").split(".")[-1]
            if name == "type" and len(n.args) == 1:
                v = self.ev(n.args[0], env, fns)
                if isinstance(v, _XSys):
                    return ("class", {v_: k_ for k_, v_ in CLASSES.items()}[v.tag])
            if name == "isinstance" and len(n.args) == 2:
                v = self.ev(n.args[0], env, fns)
                if isinstance(v, _XSys):
                    return bool({{v_: k_ for k_, v_ in CLASSES.items()}[v.tag], "BaseCoordinateSystem"} & set(self.class_names(n.args[1])))
            return NotImplemented

        def hook_attr(self, base, attr, n):
            if isinstance(base, tuple) and len(base) == 2 and base[0] == "class" and attr in ("__name__", "__qualname__"):
                return base[1]
            if isinstance(base, _XSys) and attr == "base_scalars":
                return [sv(base.tag, k) for k in range(3)]
            return NotImplemented

        def hook_compare(self, o, l, r, n):
            if isinstance(o, (ast.Is, ast.IsNot, ast.Eq, ast.NotEq)) and all(isinstance(x, tuple) and len(x) == 2 and x[0] == "class" for x in (l, r)):
                same_ = l == r
                return same_ if isinstance(o, (ast.Is, ast.Eq)) else not same_
            return NotImplemented

    for modname in (SC, VC):
        m = run.src.need(modname)
        fall = [fn for fn in m.tree.body if isinstance(fn, ast.FunctionDef) and _dispatch_pair(fn) == ("BaseCoordinateSystem", "BaseCoordinateSystem")]
        run.ob("X5", modname.rsplit(".", 1)[1])
        good = bool(fall)
        for fn in fall:
            for ta, tb in (("C", "Y"), ("Y", "S"), ("S", "C")):
                rd = _X5Reader(m.tree, modname.rsplit(".", 1)[1] + ".py", depth_limit=6)
                rd.extern_functions = {f_.name: f_ for f_ in csys_mod.tree.body if isinstance(f_, ast.FunctionDef)}
                try:
                    rd.call_def(fn, [_XSys(ta), _XSys(tb)], {}, {})
                    good = False
                except Raised as r_:
                    if r_.exc.split(".")[-1] != "TypeError":
                        good = False
        if not good:
            run.violate("X5", f"{modname}:fall-through", m, fall[0] if fall else m.tree, "the fall-through dispatch no longer raises TypeError when the two system types differ")


def _x8_points(run: Run) -> None:
    """X8: the coordinates a point is built from are the coordinates it has: AppliedPoint's preparation step EVALUATED on generic and on negative numeric coordinates, with base
    scalars that carry the assumptions their system declares for them (read from _generate_base_scalars) - each base scalar is mapped to exactly the coordinate given for it"""
    run.rule("X8", "AppliedPoint stores, for each base scalar of its system in order, exactly the coordinate it was given (no coercion by the scalar's assumptions)")
    PTS = "symplyphysics.core.experimental.points"
    if PTS not in run.src.mods:
        raise AnalysisError("C15/X8: the points module is missing")
    pm = run.src.need(PTS)
    csm = run.src.need(CSYS)
    prep = next((f_ for f_ in pm.tree.body if isinstance(f_, ast.FunctionDef) and f_.name == "_prepare"), None)
    pcls = next((c_ for c_ in pm.tree.body if isinstance(c_, ast.ClassDef) and c_.name == "AppliedPoint"), None)
    run.require(pcls is not None, "AppliedPoint not found")
    # the assumptions each system declares for its base scalars: _generate_base_scalars EVALUATED (three Symbol(...) calls, a table-driven helper - whatever)
    class _GenReader(PyReader):

        def hook_call(self, n, env, fns):
            name = (dotted(n.func) or "").split(".")[-1]
            if name == "Symbol" and name not in self.functions:
                kw_ = {k.arg: self.ev(k.value, env, fns) for k in n.keywords if k.arg}
                for k in n.keywords:
                    if k.arg is None:
                        kw_.update(self.ev(k.value, env, fns))
                return ("symbol", {k_: v_ for k_, v_ in kw_.items() if isinstance(v_, bool)})
            return NotImplemented

        def global_value(self, n):
            d = dotted(n)
            if d and (d.startswith("units.") or d in ("angle_type", "dimensionless")):
                return ("dimension", d)
            return super().global_value(n)

    declared = {}
    for c_ in [x for x in csm.tree.body if isinstance(x, ast.ClassDef) and x.name in CLASSES]:
        gen = next((f_ for f_ in c_.body if isinstance(f_, ast.FunctionDef) and f_.name == "_generate_base_scalars"), None)
        if gen is None:
            raise AnalysisError(f"C15/X8: {c_.name}._generate_base_scalars not found")
        gr = _GenReader(csm.tree, "coordinate_systems.py", depth_limit=6)
        try:
            made = gr.call_def(gen, [], {}, {})
        except Raised as r_:
            raise AnalysisError(f"C15/X8: {c_.name}._generate_base_scalars raises {r_.exc}")
        if not (isinstance(made, list) and len(made) == 3 and all(isinstance(x, tuple) and len(x) == 2 and x[0] == "symbol" for x in made)):
            raise AnalysisError(f"C15/X8: {c_.name}._generate_base_scalars does not create three symbols")
        declared[CLASSES[c_.name]] = [x[1] for x in made]

    class _Scalar:
        def __init__(self, tag, k, flags):
            self.tag, self.k, self.flags = tag, k, flags

    class R(PyReader):

        def hook_attr(self, base, attr, n):
            if isinstance(base, _XSys) and attr == "base_scalars":
                return [_Scalar(base.tag, k, declared[base.tag][k]) for k in range(3)]
            if isinstance(base, _Scalar) and attr.startswith("is_"):
                fl = base.flags
                pos, nonneg, real = fl.get("positive"), fl.get("nonnegative"), fl.get("real")
                table = {"is_positive": True if pos else None, "is_nonnegative": True if (pos or nonneg) else None, "is_negative": False if (pos or nonneg) else None,
                         "is_nonpositive": False if pos else None, "is_real": True if (real or pos or nonneg) else None, "is_zero": False if pos else None}
                if attr in table:
                    return table[attr]
            return NotImplemented

        def hook_call(self, n, env, fns):
            name = (dotted(n.func) or "").split(".")[-1]
            if name in ("sympify_expr", "sympify") and n.args and name not in self.functions:
                return self.ev(n.args[0], env, fns)
            if name == "isinstance" and len(n.args) == 2:
                v = self.ev(n.args[0], env, fns)
                names = set(self.class_names(n.args[1]))
                if isinstance(v, list):
                    return bool(names & {"Sized", "Sequence", "Iterable", "list", "tuple", "Collection"})
            return NotImplemented

    init = next((f_ for f_ in pcls.body if isinstance(f_, ast.FunctionDef) and f_.name == "__init__"), None)
    run.require(init is not None, "AppliedPoint.__init__ not found")
    flat = ast.Module(body=[x for x in pm.tree.body if not isinstance(x, ast.ClassDef)] + [x for x in pcls.body if isinstance(x, ast.FunctionDef)], type_ignores=[])
    if prep is None:
        prep = init

    class _Self:

        def __init__(self):
            self.attrs = {}

    _R0 = R

    class R(_R0):  # noqa: F811 - the same reader, with the object under construction

        def store_attr(self, base, attr, value, n):
            if isinstance(base, _Self):
                base.attrs[attr] = value
                return True
            return super().store_attr(base, attr, value, n)

        def hook_attr(self, base, attr, n):
            if isinstance(base, _Self) and attr in base.attrs:
                return base.attrs[attr]
            return super().hook_attr(base, attr, n)

        def hook_call(self, n, env, fns):
            f_ = dotted(n.func) or ""
            if f_ == "super().__init__" or (isinstance(n.func, ast.Attribute) and n.func.attr == "__init__" and isinstance(n.func.value, ast.Call) and dotted(n.func.value.func) == "super"):
                return None
            return super().hook_call(n, env, fns)

    from fractions import Fraction as _Fr
    for tag in "CYS":
        for label, coords in (("generic", [var("g0"), var("g1"), var("g2")]), ("negative numbers", [num(_Fr(-1, 2)), num(-2), num(_Fr(-3, 4))]),
                              ("mixed", [num(2), num(_Fr(-1, 3)), var("g2")])):
            run.ob("X8", f"{NAMES[tag]}:{label}")
            rd = R(flat, "points/__init__.py", depth_limit=6)
            me = _Self()
            try:
                # the constructor itself, whatever helper it leaves the preparation to: what matters is what ends up in self._coordinates
                rd.call("__init__", [me, list(coords), _XSys(tag)])
                got = me.attrs.get("_coordinates", me.attrs.get("coordinates"))
            except Raised as r_:
                run.violate("X8", f"{PTS}:_prepare:raises", pm, pm.tree, f"preparing the coordinates {label} of a {NAMES[tag]} point raises {r_.exc}")
                continue
            ok = isinstance(got, dict) and len(got) == 3
            if ok:
                items = list(got.items())
                ok = all(isinstance(k_, _Scalar) and k_.tag == tag and k_.k == i_ and (v_ is coords[i_] or (isinstance(v_, T) and same_terms(v_, coords[i_])))
                         for i_, (k_, v_) in enumerate(items))
            if not ok:
                run.violate("X8", f"{PTS}:_prepare:coordinates", pm, prep,
                            f"a {NAMES[tag]} point built from the coordinates {label} {coords!r} does not store exactly those, one per base scalar in order "
                            f"(got {({repr((k_.tag, k_.k)): v_ for k_, v_ in got.items()} if isinstance(got, dict) else got)!r}): a coordinate rewritten to fit an assumption of its base scalar "
                            f"(a negative azimuth turned into its absolute value) is another point")
                return


class _XSys:

    def __init__(self, tag: str):
        self.tag = tag


class _XPoint:

    def __init__(self, coords: list, system: _XSys):
        self.system = system
        self.coords = {sv(system.tag, k): c for k, c in zip(range(3), coords)}  # AppliedPoint._prepare: zip(base_scalars, coordinates)


class _Stop(Exception):
    pass


def _x7_stateless(run: Run) -> None:
    """conversions are functions of their arguments: no result is remembered across calls, least of all under the identity of a temporary"""
    run.rule("X7", "conversion results are not cached across calls under id(...) keys (the address of a dead point is reused by the next one); an iterable of coordinates is "
             "materialised before it is traversed a second time")
    for modname in (PKGM + ".convert", PKGM + ".express_base_scalars", PKGM + ".express_base_vectors", "symplyphysics.core.experimental.points"):
        m = run.src.need(modname)
        containers = {t.id for st in m.tree.body if isinstance(st, (ast.Assign, ast.AnnAssign)) for t in ([st.target] if isinstance(st, ast.AnnAssign) else st.targets)
                      if isinstance(t, ast.Name) and isinstance(st.value, (ast.Dict, ast.List, ast.Set, ast.Call)) and
                      (not isinstance(st.value, ast.Call) or dotted(st.value.func) in ("dict", "list", "set", "defaultdict", "WeakValueDictionary", "OrderedDict"))}
        run.ob("X7", f"{modname}:no-identity-keyed-cache")
        for fn in [x for x in ast.walk(m.tree) if isinstance(x, ast.FunctionDef)]:
            decos = [dotted(d.func) if isinstance(d, ast.Call) else dotted(d) for d in fn.decorator_list]
            stores = [x for x in ast.walk(fn) if (isinstance(x, ast.Assign) and any(isinstance(t, ast.Subscript) and isinstance(t.value, ast.Name) and t.value.id in containers for t in x.targets))
                      or (isinstance(x, ast.Call) and isinstance(x.func, ast.Attribute) and x.func.attr in ("setdefault", "update", "append", "add") and isinstance(x.func.value, ast.Name)
                          and x.func.value.id in containers)]
            if not stores:
                continue
            uses_id = any(isinstance(y, ast.Call) and dotted(y.func) == "id" for y in ast.walk(fn))
            if uses_id:
                run.violate("X7", f"{modname}:{fn.name}:identity-keyed-cache", m, stores[0],
                            f"{fn.name} remembers its results in a module-level container under id(...) keys: when a point is garbage-collected the next point created at the "
                            f"same address receives the stale conversion - conversions of short-lived points in a loop move them")
            else:
                raise AnalysisError(f"C15: {modname}.{fn.name} keeps state across calls in a module-level container; whether that preserves the conversions is not decided")
    # one-shot iterables
    pm_ = run.src.need("symplyphysics.core.experimental.points")
    helpers = {f_.name: f_ for f_ in pm_.tree.body if isinstance(f_, ast.FunctionDef)}

    def consumes(fn: ast.FunctionDef, pname: str, depth: int = 0) -> list:
        """nodes of `fn` that traverse the ORIGINAL value of parameter `pname` (before any re-binding in straight-line order)"""
        out = []
        rebound_at = min([a.lineno for a in ast.walk(fn) if isinstance(a, ast.Assign) and any(isinstance(t, ast.Name) and t.id == pname for t in a.targets)] or [10**9])
        for x in ast.walk(fn):
            if getattr(x, "lineno", 0) > rebound_at:
                continue
            if isinstance(x, ast.Call):
                d = dotted(x.func) or ""
                hit = [a for a in x.args if isinstance(a, ast.Name) and a.id == pname]
                if not hit:
                    continue
                if d in ("tuple", "list", "zip", "sorted", "set", "dict", "enumerate", "map", "sum", "iter"):
                    out.append(x)
                elif d in helpers and depth < 2:
                    h = helpers[d]
                    k = x.args.index(hit[0])
                    if k < len(h.args.args) and consumes(h, h.args.args[k].arg, depth + 1):
                        out.append(x)
            elif isinstance(x, (ast.For, ast.comprehension)) and isinstance(x.iter, ast.Name) and x.iter.id == pname:
                out.append(x)
        return out

    for cls in [c for c in pm_.tree.body if isinstance(c, ast.ClassDef)]:
        for fn in [f_ for f_ in cls.body if isinstance(f_, ast.FunctionDef) and f_.name in ("__init__", "__new__")]:
            for a in fn.args.args[1:]:
                ann = dotted(a.annotation.value) if isinstance(a.annotation, ast.Subscript) else dotted(a.annotation) if a.annotation is not None else None
                if ann != "Iterable":
                    continue
                run.ob("X7", f"{cls.name}.{fn.name}:{a.arg}:single-traversal")
                sites = consumes(fn, a.arg)
                # sites inside different branches of one `if` exclude each other
                def branch_of(x):
                    for t in ast.walk(fn):
                        if isinstance(t, ast.If):
                            if any(y is x for s_ in t.body for y in ast.walk(s_)):
                                return (id(t), True)
                            if any(y is x for s_ in t.orelse for y in ast.walk(s_)):
                                return (id(t), False)
                    return None
                pairs = [(p_, q_) for i_, p_ in enumerate(sites) for q_ in sites[i_ + 1:]
                         if not (branch_of(p_) and branch_of(q_) and branch_of(p_)[0] == branch_of(q_)[0] and branch_of(p_)[1] != branch_of(q_)[1])]
                if pairs:
                    p_, q_ = pairs[0]
                    run.violate("X7", f"symplyphysics.core.experimental.points:{cls.name}.{fn.name}:{a.arg}:traversed-twice", pm_, q_,
                                f"{cls.name}.{fn.name} traverses its iterable argument `{a.arg}` twice (`{norm(p_, 40)}` and `{norm(q_, 40)}`) without keeping the materialised copy: "
                                f"a generator or map is exhausted by the first traversal, the point silently ends up without coordinates")


def _x4(run: Run, S: dict, M: dict) -> None:
    from ..pyreader import PyReader, Raised
    cm = run.src.need(PKGM + ".convert")

    PTS = "symplyphysics.core.experimental.points"
    pm = run.src.need(PTS) if PTS in run.src.mods else None
    pcls = next((c_ for c_ in (pm.tree.body if pm else []) if isinstance(c_, ast.ClassDef) and c_.name == "AppliedPoint"), None)
    point_methods = {f_.name: f_ for f_ in (pcls.body if pcls else []) if isinstance(f_, ast.FunctionDef) and not f_.name.startswith("__")
                     and not any(dotted(d_) in ("property", "staticmethod", "classmethod") for d_ in f_.decorator_list)}

    class ConvReader(PyReader):

        def __init__(self):
            super().__init__(cm.tree, "convert.py")
            self.vector_calls: list = []

        def hook_attr(self, base, attr, n):
            if isinstance(base, _XPoint) and attr in ("system", "_system"):
                return base.system
            if isinstance(base, _XPoint) and attr in ("coordinates", "_coordinates"):
                return dict(base.coords)
            if isinstance(base, _XSys) and attr == "base_scalars":
                return [sv(base.tag, k) for k in range(3)]
            if isinstance(base, T) and attr in ("is_extended_real", "is_real"):
                # SymPy's three-valued assumption query. The generic coordinates p0..p2 are symbols without assumptions (what symplyphysics.Symbol gives):
                # nothing is known about an expression in them - None, which is falsy. A number is real.
                def leaves(t_):
                    if t_.op in ("var", "fun"):
                        return [t_]
                    return [x_ for a_ in t_.args for x_ in leaves(a_)]
                lv = leaves(base)
                if not lv:
                    return True
                if all(x_.op == "var" and str(x_.val) in ("p0", "p1", "p2") for x_ in lv) and not (base.op == "app" and str(base.val) in ("Abs", "re", "im", "arg")):
                    return None
                self.fail(n, f".{attr} of a coordinate built from symbols with assumptions")
            return NotImplemented

        def hook_method(self, base, attr, args, kwargs, n):
            # a method of AppliedPoint (points/__init__.py) that is no property: evaluated from its source, with this reader's model of the point
            if isinstance(base, _XPoint) and attr in point_methods:
                return self.call_def(point_methods[attr], [base] + list(args), kwargs, {})
            return NotImplemented

        def hook_call(self, n, env, fns):
            f = dotted(n.func) or ""
            if f == "express_base_scalars" and len(n.args) == 2 and not n.keywords:
                a, b = self.ev(n.args[0], env, fns), self.ev(n.args[1], env, fns)
                if not (isinstance(a, _XSys) and isinstance(b, _XSys)):
                    self.fail(n, "express_base_scalars of something that is not a coordinate system")
                if a.tag == b.tag:
                    return {sv(a.tag, k): sv(a.tag, k) for k in range(3)}
                return {sv(a.tag, k): S[(a.tag, b.tag)][0][k] for k in range(3)}  # a's scalars as functions of b's
            if f == "express_base_vectors" and len(n.args) == 2:
                a, b = self.ev(n.args[0], env, fns), self.ev(n.args[1], env, fns)
                kws = {k.arg: self.ev(k.value, env, fns) for k in n.keywords}
                self.vector_calls.append((a, b, kws))
                if not (isinstance(a, _XSys) and isinstance(b, _XSys)):
                    self.fail(n, "express_base_vectors of something that is not a coordinate system")
                if a.tag == b.tag:
                    return {var(f"bv_{a.tag}{k}"): var(f"bv_{b.tag}{k}") for k in range(3)}
                out = {}
                for k in range(3):
                    acc = num(0)
                    for jx in range(3):
                        acc = op("add", acc, op("mul", M[(a.tag, b.tag)][0][k][jx], var(f"bv_{b.tag}{jx}")))
                    out[var(f"bv_{a.tag}{k}")] = acc
                return out
            if f == "AppliedPoint" and len(n.args) == 2:
                coords, sysv = self.ev(n.args[0], env, fns), self.ev(n.args[1], env, fns)
                if not (isinstance(coords, list) and isinstance(sysv, _XSys)):
                    self.fail(n, "AppliedPoint(...) arguments")
                return _XPoint(coords, sysv)
            return NotImplemented

    for a in "CYS":
        for b in "CYS":
            old, new = _XSys(a), _XSys(b)
            for selfref in (False, "own", "new"):
                # coordinates of the point: generic values; or the base scalars of the point's own system, permuted (q1, q2, q0); or those of the new system
                if selfref == "new" and a == b:
                    continue
                coords = [sv(a if selfref == "own" else b, (k + 1) % 3) if selfref else var(f"p{k}") for k in range(3)]
                expect = [substitute(t, {f"{a}{k}": coords[k] for k in range(3)}) for t in (S[(b, a)][0] if a != b else [sv(a, k) for k in range(3)])]
                R = ConvReader()
                run.ob("X4", f"convert_point:{a}->{b}{':coordinates-mention-' + selfref + '-scalars' if selfref else ''}")
                try:
                    got = R.call("convert_point", [_XPoint(coords, old), new])
                except Raised as r:
                    got = r
                ok = isinstance(got, _XPoint) and got.system is new and list(got.coords) == [sv(b, k) for k in range(3)] \
                    and all(_eq_or_refuse(got.coords[sv(b, k)], expect[k]) for k in range(3)) and not R.hazards
                if not ok:
                    run.violate("X4", f"{PKGM}.convert:convert_point:{'sequential' if selfref else 'wiring'}", cm, cm.tree,
                                f"convert_point {NAMES[a]} -> {NAMES[b]} does not return the point whose coordinates are the {NAMES[b]} scalars expressed in the {NAMES[a]} ones with "
                                f"all of the point's coordinates inserted at once" + (" (coordinates that mention base scalars are substituted again)" if selfref else "")
                                + (f": {R.hazards[0][1]}" if R.hazards else ""))
                    break
                # a vector attached to that point
                # components: generic numbers times a generic function of the NEW system's base scalars (what an earlier conversion leaves behind):
                # they belong to the vector and must come through unchanged - only the base vectors are re-expressed
                comp_fun = app("g", *[sv(b, i_) for i_ in range(3)])
                vec = num(0)
                for k in range(3):
                    vec = op("add", vec, op("mul", op("mul", var(f"w{k}"), comp_fun), var(f"bv_{a}{k}")))
                R = ConvReader()
                run.ob("X4", f"convert_vector:{a}->{b}{':coordinates-mention-' + selfref + '-scalars' if selfref else ''}")
                oldp = _XPoint(coords, old)
                try:
                    gv = R.call("convert_vector", [vec, oldp, new])
                except Raised as r:
                    gv = r
                if a == b:
                    want = substitute(vec, {})
                else:
                    want = num(0)
                    for k in range(3):
                        for jx in range(3):
                            coef = substitute(M[(a, b)][0][k][jx], {f"{b}{i}": expect[i] for i in range(3)})
                            want = op("add", want, op("mul", op("mul", op("mul", var(f"w{k}"), comp_fun), coef), var(f"bv_{b}{jx}")))
                wired = len(R.vector_calls) == 1 and R.vector_calls[0][0] is old and R.vector_calls[0][1] is new \
                    and isinstance(R.vector_calls[0][2].get("old_args"), list) and R.vector_calls[0][2]["old_args"] == [oldp] \
                    and isinstance(R.vector_calls[0][2].get("new_args"), list) and len(R.vector_calls[0][2]["new_args"]) == 1 \
                    and isinstance(R.vector_calls[0][2]["new_args"][0], _XPoint) and R.vector_calls[0][2]["new_args"][0].system is new
                ok = isinstance(gv, (T, int)) and wired and not R.hazards and _same_linear(gv, want, [f"w{k}" for k in range(3)], [f"bv_{b}{k}" for k in range(3)])
                if not ok:
                    run.violate("X4", f"{PKGM}.convert:convert_vector:{'sequential' if selfref else 'wiring'}", cm, cm.tree,
                                f"convert_vector {NAMES[a]} -> {NAMES[b]} does not return the vector with the {NAMES[a]} base vectors (at the old point) expressed through the {NAMES[b]} ones "
                                f"(at the converted point) and the converted coordinates inserted at once"
                                + (f"; express_base_vectors was called as {[(x.tag if isinstance(x, _XSys) else x, y.tag if isinstance(y, _XSys) else y, sorted(k)) for x, y, k in R.vector_calls]}" if not wired else "")
                                + (f": {R.hazards[0][1]}" if R.hazards else ""))
                    break


def _same_linear(x, y, ws: list, vs: list) -> bool:
    """equality of two terms that are bilinear in the variables ws x vs, decided coefficient by coefficient"""
    if isinstance(x, int):
        x = num(x)
    for w_ in ws:
        for v_ in vs:
            env = {n: num(1 if n in (w_, v_) else 0) for n in ws + vs}
            if not same_terms(substitute(x, env), substitute(y, env)):
                return False
    # nothing outside the bilinear part: all w = 0 or all base vectors = 0 gives 0
    zero_w = {n: num(0) for n in ws}
    return same_terms(substitute(x, zero_w), substitute(y, zero_w))


def _eq_or_refuse(x, y) -> bool:
    if not isinstance(x, (T, int)):
        return False
    return same_terms(x, y)
