"""C12 - gradient, divergence, curl: the nine closed forms equal the orthogonal-curvilinear reference (E4)."""
from __future__ import annotations

import ast

from ..core import Run, AnalysisError, dotted, norm
from ..alg import T, num, var, op, fun, normalize, Rat, C, same
from ..reader import SYSTEMS
from ..pyreader import PyReader, VVal, Sys, Raised
from ..dim import World
from ..flow import Fn

EXPLANATION = (
    "core/fields/operators.py is evaluated abstractly (whatever the shape of its code) for every component count 0..3 of the "
    "field and two families of component functions (generic undefined functions of the three base scalars; constants); "
    "(base_scalars()[k] -> coordinate k, field_components[k] / field_space -> generic undefined functions of the three "
    "coordinates, diff -> formal derivation) and compared, in an exact normal form of rational functions with the relation "
    "sin^2+cos^2=1, with the orthogonal-curvilinear reference grad_i = d_i f / h_i, div = (h1h2h3)^-1 sum d_i(F_i h_j h_k), "
    "curl_i = s (h_j h_k)^-1 (d_j(h_k F_k) - d_k(h_j F_j)), instantiated with the scale factors of this library's orderings "
    "((1, r, 1) and (1, r sin(phi), r), the latter left-handed: s = -1). Because the fields are generic functions, a decided "
    "component is decided for every twice-differentiable field. Additionally curl(grad f) = 0 and div(curl F) = 0 are decided "
    "by composing the repository's own formulas (mixed partials commute), and the zero padding of short component lists is "
    "checked structurally. A behaviour-preserving algebraic rewrite of a formula does not fire (normal-form equality).")
ASSUMPTIONS = [
    "the Lame-coefficient form of grad/div/curl in orthogonal coordinates (trusted mathematics)",
    "this library's coordinate orderings: cylindrical (r, theta, z); spherical (r, theta = azimuth, phi = polar angle) - cross-checked "
    "against the library's own transformation table by C11/T6",
    "sympy.diff computes derivatives; fields are applied to the coordinate basis before differentiation (apply_to_basis)",
]
TRUSTED = ["orthogonal curvilinear coordinate calculus", "python ast", "sa/alg.py normal form"]

MOD = "symplyphysics.core.fields.operators"
H = {
    "CARTESIAN": ([num(1), num(1), num(1)], 1),
    "CYLINDRICAL": ([num(1), var("r"), num(1)], 1),
    "SPHERICAL": ([num(1), op("mul", var("r"), op("sin", var("phi"))), var("r")], -1),
}


class FieldObj:
    """opaque ScalarField / VectorField: `apply_to_basis()` yields the given value (a term, or a component list of any length)"""

    def __init__(self, system, value, stored: str = "callable"):
        self.system, self.value = system, value
        self.stored = stored  # how the field keeps its point function: a callable (lambda / partial) or a stored value (expression / component list)


class OperatorReader(PyReader):
    field_classes: dict = {}  # "ScalarField" / "VectorField" -> ClassDef (set by check)
    system_class = None  # ClassDef of CoordinateSystem (set by check): properties the operators read from a coordinate system are evaluated from their source

    def hook_call(self, n, env, fns):
        f = dotted(n.func) or ""
        if f == "callable" and len(n.args) == 1:
            v = self.ev(n.args[0], env, fns)
            if isinstance(v, tuple) and v and v[0] == "point-function":
                return v[1] == "callable"
            self.fail(n, "callable() of an unknown object")
        if isinstance(n.func, ast.Attribute):
            if n.func.attr == "apply_to_basis" and not n.args:
                fld = self.ev(n.func.value, env, fns)
                if isinstance(fld, FieldObj):
                    if isinstance(fld.value, list):
                        return VVal(list(fld.value), fld.system)
                    return fld.value
            if n.func.attr == "base_scalars" and not n.args:
                cs = self.ev(n.func.value, env, fns)
                if isinstance(cs, Sys):
                    return [var(x) for x in SYSTEMS[cs.kind]]
        if f.endswith("VectorField.from_vector") and len(n.args) == 1:
            return self.ev(n.args[0], env, fns)
        return NotImplemented

    def ev(self, n, env, fns):
        if isinstance(n, ast.Attribute):
            base = None
            if isinstance(n.value, (ast.Name, ast.Attribute)):
                try:
                    base = self.ev(n.value, env, fns)
                except AnalysisError:
                    base = None
            if isinstance(base, FieldObj) and n.attr in ("coordinate_system", "_coordinate_system"):
                return base.system
            if isinstance(base, FieldObj) and n.attr in ("_point_function", "field_function"):
                return ("point-function", base.stored)
            if isinstance(base, FieldObj):
                # any other attribute: a property of the field class, evaluated on this field
                cls = self.field_classes.get("VectorField" if isinstance(base.value, list) else "ScalarField")
                prop = next((m_ for m_ in (cls.body if cls is not None else []) if isinstance(m_, ast.FunctionDef) and m_.name == n.attr
                             and any(dotted(d) == "property" for d in m_.decorator_list)), None)
                if prop is not None:
                    key = f"__property__{n.attr}"
                    self.functions[key] = prop
                    return self.call(key, [base])
            if isinstance(base, Sys) and n.attr in ("coord_system", "_coord_system"):
                return base
            d_ = dotted(n)
            if d_ and d_.split(".")[-2:-1] == ["System"] and n.attr in ("CARTESIAN", "CYLINDRICAL", "SPHERICAL") and d_.split(".")[0] in ("self", "CoordinateSystem"):
                return ("kind", n.attr)
            if isinstance(base, Sys) and self.system_class is not None and n.attr not in ("coord_system_type", "_coord_system_type"):
                prop = next((m_ for m_ in self.system_class.body if isinstance(m_, ast.FunctionDef) and m_.name == n.attr
                             and any(dotted(d) == "property" for d in m_.decorator_list)), None)
                if prop is not None:
                    key = f"__sysproperty__{n.attr}"
                    self.functions[key] = prop
                    return self.call(key, [base])
        return super().ev(n, env, fns)


STORED = ["callable"]  # how the fields under evaluation keep their point function (set by check for each pass)


def apply_operator(mod_tree: ast.Module, fname: str, system: str, value):
    """Abstract evaluation of one operator of operators.py on a field whose basis value is `value`."""
    R = OperatorReader(mod_tree, where=f"{fname}/{system}")
    try:
        res = R.call(fname, [FieldObj(Sys("cs" + system, system), value, STORED[0])])
    except Raised as r:
        return r
    if isinstance(res, VVal):
        return list(res.components)
    return res


def ref_grad(f: T, system: str) -> list:
    h, _ = H[system]
    q = SYSTEMS[system]
    return [op("div", op("diff", f, var(q[i])), h[i]) for i in range(3)]


def ref_div(F: list, system: str) -> T:
    h, _ = H[system]
    q = SYSTEMS[system]
    J = op("mul", op("mul", h[0], h[1]), h[2])
    acc = num(0)
    for i in range(3):
        j, k = (i + 1) % 3, (i + 2) % 3
        acc = op("add", acc, op("div", op("diff", op("mul", op("mul", F[i], h[j]), h[k]), var(q[i])), J))
    return acc


def ref_curl(F: list, system: str) -> list:
    h, s = H[system]
    q = SYSTEMS[system]
    out = []
    for i in range(3):
        j, k = (i + 1) % 3, (i + 2) % 3
        comp = op("div", op("sub", op("diff", op("mul", h[k], F[k]), var(q[j])), op("diff", op("mul", h[j], F[j]), var(q[k]))), op("mul", h[j], h[k]))
        out.append(op("mul", num(s), comp))
    return out


def check(run: Run) -> None:
    run.rule("O1", "gradient components equal d_i f / h_i")
    run.rule("O2", "divergence equals (h1 h2 h3)^-1 sum_i d_i(F_i h_j h_k)")
    run.rule("O3", "curl components equal s (h_j h_k)^-1 (d_j(h_k F_k) - d_k(h_j F_j))")
    run.rule("O4", "curl(grad f) = 0 and div(curl F) = 0 for the repository's formulas composed")
    run.rule("O5", "divergence and curl accept fields with fewer than three components (missing components count as zero)")
    mod = run.src.need(MOD)
    fns = {s.name: s for s in mod.tree.body if isinstance(s, ast.FunctionDef)}
    for name in ("gradient_operator", "divergence_operator", "curl_operator"):
        run.require(name in fns, f"{name} not found")
    grad, div, curl = fns["gradient_operator"], fns["divergence_operator"], fns["curl_operator"]
    tree = mod.tree

    def pad(v: list) -> list:
        return list(v) + [num(0)] * (3 - len(v))

    for cname, mname in (("ScalarField", "symplyphysics.core.fields.scalar_field"), ("VectorField", "symplyphysics.core.fields.vector_field")):
        cm = run.src.need(mname)
        OperatorReader.field_classes[cname] = next((c for c in cm.tree.body if isinstance(c, ast.ClassDef) and c.name == cname), None)
    csm_ = run.src.need("symplyphysics.core.coordinate_systems.coordinate_systems")
    OperatorReader.system_class = next((c for c in csm_.tree.body if isinstance(c, ast.ClassDef) and c.name == "CoordinateSystem"), None)
    for stored in ("callable", "value"):
      STORED[0] = stored
      for system, coords in SYSTEMS.items():
          # two families of fields: generic undefined functions of the three coordinates, and generic constants (code that special-cases
          # syntactically constant components must still agree with the reference, e.g. div of a constant radial field is not 0)
          families = {
              "generic": (fun("f", coords), [fun(f"F{k}", coords) for k in range(3)]),
              "constant": (var("c"), [var(f"c{k}") for k in range(3)]),
              # components that are the SAME expression: code that locates a component by its value (list.index, a dict keyed by the component) mixes up the axes
              "repeated-component": (fun("f", coords), [fun("G", coords), fun("G", coords), fun("H", coords)]),
              "repeated-constant": (var("c"), [var("k"), var("k"), var("k")]),
          }
          if run.tier == "thorough":
              # fields whose components depend on a single coordinate each (all three assignments of coordinates to components that
              # are cyclic shifts), a field with one generic and two constant components, and a scalar field of one coordinate
              for sh in range(3):
                  families[f"single-coordinate-shift{sh}"] = (fun("f", (coords[sh], )), [fun(f"F{k}", (coords[(k + sh) % 3], )) for k in range(3)])
              for g_ in range(3):
                  families[f"one-generic-{g_}"] = (fun("f", coords[:2]), [fun(f"F{k}", coords) if k == g_ else var(f"c{k}") for k in range(3)])
          for fam, (f, Fall) in families.items():
              # O1
              g = apply_operator(tree, "gradient_operator", system, f)
              if isinstance(g, Raised) or not (isinstance(g, list) and len(g) <= 3):
                  run.violate("O1", f"{MOD}:gradient_operator:{system}:{fam}:result", mod, grad, f"gradient of a {fam} scalar field in {system.lower()} coordinates {'raises ' + g.exc if isinstance(g, Raised) else 'is not a vector'}")
                  continue
              g = pad(g)
              for i, (a, b) in enumerate(zip(g, ref_grad(f, system))):
                  run.ob("O1", f"grad/{system}/{fam}/{stored}[{i}]")
                  if not same(normalize(a), normalize(b)):
                      run.violate("O1", f"{MOD}:gradient_operator:{system}[{i}]", mod, grad,
                                  f"component {i} ({coords[i]}) of the {system.lower()} gradient of a {fam} field is {normalize(a)!r}; the reference d f/d{coords[i]} / h_{i} is {normalize(b)!r}")
              for ncomp in range(4):
                  F = Fall[:ncomp]
                  Fp = pad(F)
                  # O2
                  d = apply_operator(tree, "divergence_operator", system, F)
                  run.ob("O2", f"div/{system}/{fam}/{stored}/{ncomp}")
                  if isinstance(d, Raised) or isinstance(d, list):
                      run.violate("O2", f"{MOD}:divergence_operator:{system}:{ncomp}:result", mod, div, f"divergence of a {ncomp}-component {fam} field in {system.lower()} coordinates {'raises ' + d.exc if isinstance(d, Raised) else 'is not a scalar'}")
                  elif not same(normalize(d), normalize(ref_div(Fp, system))):
                      run.violate("O2", f"{MOD}:divergence_operator:{system}", mod, div,
                                  f"the {system.lower()} divergence of a {ncomp}-component {fam} field differs from the reference of the zero-padded field: "
                                  f"got {normalize(d)!r}, reference {normalize(ref_div(Fp, system))!r}")
                  # O3
                  c = apply_operator(tree, "curl_operator", system, F)
                  if isinstance(c, Raised) or not isinstance(c, list):
                      run.ob("O3", f"curl/{system}/{fam}/{ncomp}")
                      run.violate("O3", f"{MOD}:curl_operator:{system}:{ncomp}:result", mod, curl, f"curl of a {ncomp}-component {fam} field in {system.lower()} coordinates {'raises ' + c.exc if isinstance(c, Raised) else 'is not a vector'}")
                      continue
                  c = pad(c)
                  for i, (a, b) in enumerate(zip(c, ref_curl(Fp, system))):
                      run.ob("O3", f"curl/{system}/{fam}/{stored}/{ncomp}[{i}]")
                      if not same(normalize(a), normalize(b)):
                          run.violate("O3", f"{MOD}:curl_operator:{system}[{i}]", mod, curl,
                                      f"component {i} ({coords[i]}) of the {system.lower()} curl of a {ncomp}-component {fam} field is {normalize(a)!r}; "
                                      f"the reference for the zero-padded field is {normalize(b)!r}")
                  # O4: div(curl F) = 0 with the repository's own formulas composed
                  dc = apply_operator(tree, "divergence_operator", system, c)
                  run.ob("O4", f"div(curl)/{system}/{fam}/{stored}/{ncomp}")
                  if isinstance(dc, Raised) or isinstance(dc, list) or not same(normalize(dc), C(0)):
                      run.violate("O4", f"{MOD}:div(curl):{system}", mod, div, f"div(curl F) is not zero for a {ncomp}-component {fam} field in {system.lower()} coordinates: "
                                  f"{dc.exc if isinstance(dc, Raised) else (normalize(dc) if not isinstance(dc, list) else dc)!r}")
              cg = apply_operator(tree, "curl_operator", system, g)
              if isinstance(cg, Raised) or not isinstance(cg, list):
                  run.violate("O4", f"{MOD}:curl(grad):{system}:result", mod, curl, "curl(grad f) cannot be formed")
              else:
                  for i, a in enumerate(pad(cg)):
                      run.ob("O4", f"curl(grad)/{system}/{fam}/{stored}[{i}]")
                      if not same(normalize(a), C(0)):
                          run.violate("O4", f"{MOD}:curl(grad):{system}[{i}]", mod, curl, f"curl(grad f) has non-zero component {i} in {system.lower()} coordinates for a {fam} field: {normalize(a)!r}")
              if fam == "generic":
                  run.sample({"system": system, "gradient": [repr(normalize(x)) for x in g], "divergence(3 components)": repr(normalize(apply_operator(tree, "divergence_operator", system, Fall)))})

    STORED[0] = "callable"
    # curl of more than three components is refused
    run.ob("O3", "curl/4-components-refused")
    r4 = apply_operator(tree, "curl_operator", "CARTESIAN", [var(f"c{k}") for k in range(4)])
    if not isinstance(r4, Raised):
        run.violate("O3", f"{MOD}:curl_operator:4-components", mod, curl, "curl of a 4-component field is answered instead of refused")
    # O5 padding, decided by evaluation: fields with fewer than three components go through divergence and curl without an IndexError
    # (that their values are those of the zero-padded field is O2/O3 above)
    for name in ("divergence_operator", "curl_operator"):
        for system in SYSTEMS:
            for ncomp in range(3):
                run.ob("O5", f"{name}/{system}/{ncomp}")
                res = apply_operator(tree, name, system, [var(f"c{k}") for k in range(ncomp)])
                if isinstance(res, Raised):
                    run.violate("O5", f"{MOD}:{name}:padding", mod, fns[name],
                                f"{name} raises {res.exc} for a {ncomp}-component field in {system.lower()} coordinates: the component list is not extended with zeros to "
                                f"length three before it is indexed")
