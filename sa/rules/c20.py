"""C20 - physical constants: constant folding of quantities/__init__.py over SymPy's unit tables (E1)."""
from __future__ import annotations

import ast
import math
from fractions import Fraction

from ..core import Run, AnalysisError, PKG, norm, dotted, norm
from ..dim import World
from ..units import Dim, si_value

EXPLANATION = (
    "Finite table decided exhaustively by constant folding: each exported constant's source expression (literal * unit "
    "expression, a SymPy constant, or an expression in other constants) is folded by the static dimension engine over SymPy's "
    "unit/constant definitions (read from SymPy's source files, never imported) into an SI value and a dimension vector. "
    "R1 the dimension equals the expected one; R2 the SI value is within the stated precision of the CODATA-2018/IAU reference; "
    "R3 the seven identities of the property hold on the folded values; R4 every constant of the reference table is still defined and __all__ names only defined constants (all public constants are checked, whether or not listed in __all__); R5 the unit system's per-quantity tables are "
    "written only by Quantity.__init__ for `self`, so a constant's value cannot change after import; I3 quantity names come from one process-wide counter.")
ASSUMPTIONS = [
    "reference values: CODATA 2018 / IAU 2015 nominal values hard-coded in sa/rules/c20.py with a per-constant relative tolerance "
    "equal to the precision the source literal states (>= 1e-9 for exact SI-defining constants)",
    "Quantity(expr) stores the SI scale factor and dimension of expr (C05)",
]
TRUSTED = ["SymPy unit definition sources (cross-validated once against the live tables)", "reference table in the checker"]

L, M, T, I, K, N, J = "length", "mass", "time", "current", "temperature", "amount_of_substance", "luminous_intensity"


def D(**kw):
    return Dim({{"L": L, "M": M, "T": T, "I": I, "K": K, "N": N, "J": J}[k]: v for k, v in kw.items()})


# name -> (reference SI value, relative tolerance, expected dimension)
REFERENCE = {
    "standard_conditions_temperature": (273.15, 1e-9, D(K=1)),
    "standard_laboratory_temperature": (298.15, 1e-3, D(K=1)),
    "electron_rest_mass": (9.1093837015e-31, 5e-10, D(M=1)),
    "bohr_radius": (5.29177210903e-11, 1e-3, D(L=1)),
    "hydrogen_ionization_energy": (13.598434005136 * 1.602176634e-19, 1e-3, D(M=1, L=2, T=-2)),
    "solar_mass": (1.98847e30, 1e-4, D(M=1)),
    "earth_mass": (5.9722e24, 1e-4, D(M=1)),
    "boltzmann_constant": (1.380649e-23, 1e-9, D(M=1, L=2, T=-2, K=-1)),
    "molar_gas_constant": (8.31446261815324, 1e-9, D(M=1, L=2, T=-2, K=-1, N=-1)),
    "speed_of_light": (299792458.0, 1e-12, D(L=1, T=-1)),
    "vacuum_permittivity": (8.8541878128e-12, 2e-9, D(M=-1, L=-3, T=4, I=2)),
    "vacuum_permeability": (1.25663706212e-6, 2e-9, D(M=1, L=1, T=-2, I=-2)),
    "elementary_charge": (1.602176634e-19, 1e-9, D(I=1, T=1)),
    "hbar": (1.054571817e-34, 1e-9, D(M=1, L=2, T=-1)),
    "planck": (6.62607015e-34, 1e-9, D(M=1, L=2, T=-1)),
    "avogadro_constant": (6.02214076e23, 1e-9, D(N=-1)),
    "acceleration_due_to_gravity": (9.80665, 1e-9, D(L=1, T=-2)),
    "stefan_boltzmann_constant": (5.670374419e-8, 1e-9, D(M=1, T=-3, K=-4)),
    "richardson_constant": (1.20173e6, 1e-4, D(I=1, L=-2, K=-2)),
    "rydberg_frequency": (3.2898419602508e15, 1e-9, D(T=-1)),
    "wien_displacement_constant": (2.897771955e-3, 1e-6, D(L=1, K=1)),
    "gravitational_constant": (6.67430e-11, 1e-5, D(M=-1, L=3, T=-2)),
    "hubble_constant": (2.2e-18, 5e-2, D(T=-1)),
    "zero_point_luminosity": (3.0128e28, 1e-5, D(M=1, L=2, T=-3)),
    "sun_luminosity": (3.828e26, 1e-3, D(M=1, L=2, T=-3)),
    "faraday_constant": (96485.33212, 1e-9, D(I=1, T=1, N=-1)),
    "vacuum_impedance": (376.730313668, 2e-9, D(M=1, L=2, T=-3, I=-2)),
}

# CODATA 2018 / IAU values of constants the catalogue does NOT define today, under the names a maintainer is likely to give them: a constant added later
# under one of these names is decided like the others; one added under an unknown name makes the check refuse (exit 2) instead of passing it unseen
EXTRA_REFERENCE = {
    "von_klitzing_constant": (25812.80745, 1e-9, D(M=1, L=2, T=-3, I=-2)),
    "josephson_constant": (483597.8484e9, 1e-9, D(M=-1, L=-2, T=2, I=1)),
    "magnetic_flux_quantum": (2.067833848e-15, 1e-9, D(M=1, L=2, T=-2, I=-1)),
    "conductance_quantum": (7.748091729e-5, 1e-9, D(M=-1, L=-2, T=3, I=2)),
    "proton_rest_mass": (1.67262192369e-27, 1e-9, D(M=1)), "proton_mass": (1.67262192369e-27, 1e-9, D(M=1)),
    "neutron_rest_mass": (1.67492749804e-27, 1e-9, D(M=1)), "neutron_mass": (1.67492749804e-27, 1e-9, D(M=1)),
    "atomic_mass_constant": (1.66053906660e-27, 1e-9, D(M=1)), "atomic_mass_unit": (1.66053906660e-27, 1e-9, D(M=1)),
    "bohr_magneton": (9.2740100783e-24, 1e-9, D(I=1, L=2)), "nuclear_magneton": (5.0507837461e-27, 1e-9, D(I=1, L=2)),
    "compton_wavelength": (2.42631023867e-12, 1e-9, D(L=1)), "classical_electron_radius": (2.8179403262e-15, 1e-9, D(L=1)),
    "thomson_cross_section": (6.6524587321e-29, 1e-9, D(L=2)),
    "rydberg_constant": (10973731.568160, 1e-9, D(L=-1)), "fine_structure_constant": (7.2973525693e-3, 1e-9, D()),
    "hartree_energy": (4.3597447222071e-18, 1e-9, D(M=1, L=2, T=-2)),
    "first_radiation_constant": (3.741771852e-16, 1e-9, D(M=1, L=4, T=-3)), "second_radiation_constant": (1.438776877e-2, 1e-9, D(L=1, K=1)),
    "coulomb_constant": (8.9875517923e9, 2e-9, D(M=1, L=3, T=-4, I=-2)),
    "astronomical_unit": (1.495978707e11, 1e-9, D(L=1)), "light_year": (9.4607304725808e15, 1e-9, D(L=1)), "parsec": (3.0856775814913673e16, 1e-9, D(L=1)),
    "solar_radius": (6.957e8, 1e-3, D(L=1)), "earth_radius": (6.371e6, 2e-3, D(L=1)),
    "standard_atmosphere": (101325.0, 1e-9, D(M=1, L=-1, T=-2)), "standard_conditions_pressure": (1e5, 2e-2, D(M=1, L=-1, T=-2)),
}

MODULE = "symplyphysics.quantities"


def check(run: Run) -> None:
    run.rule("R1", "each constant has the dimension of the physical quantity it names")
    run.rule("R2", "each constant's folded SI value is within its stated precision of the CODATA/IAU reference")
    run.rule("R3", "the constants satisfy the identities R=kB*NA, F=e*NA, hbar=h/2pi, eps0*mu0*c^2=1, Z0=mu0*c, sigma=2pi^5kB^4/(15h^3c^2), b=hc/(4.965114kB)")
    run.rule("R4", "every reference constant is still defined and every name in __all__ is a defined constant")
    run.rule("R5", "a constant's stored value cannot change after import: the unit system's per-quantity tables are written only by Quantity.__init__, for `self`")
    run.rule("R6", "no submodule of the constants package carries the name of a constant: importing it would rebind the exported name to the module object")
    run.rule("I3", "quantity names (the keys of those tables) are unique process-wide: one counter table, advanced only by next_id")
    w = World(run.src)
    mod = run.src.need(MODULE)
    env = w.env(MODULE)
    consts: dict[str, tuple] = {}
    for name, v in env.names.items():
        if name.startswith("_"):
            continue
        sites = env.bind_sites.get(name, [])
        if not sites or not isinstance(sites[-1], (ast.Assign, ast.AnnAssign)):
            continue
        stmt = sites[-1]
        if name == "__all__":
            continue
        if v.kind == "expr" and v.extra == "quantity":
            if v.num is None:
                raise AnalysisError(f"C20: value of constant {name} could not be folded ({norm(stmt.value, 80)})")
            consts[name] = (complex(si_value(v.num, v.dim)).real, v.dim, stmt)
        elif v.kind == "unknown":
            raise AnalysisError(f"C20: constant {name} not understood: {v.why}")
    run.floor("R2", len(consts), 20, "constants folded")
    unknown: list = []
    for name, (val, dim, stmt) in sorted(consts.items()):
        if name not in REFERENCE and name not in EXTRA_REFERENCE:
            unknown.append((name, stmt))
            continue
        ref, tol, rdim = REFERENCE[name] if name in REFERENCE else EXTRA_REFERENCE[name]
        run.ob("R1", name)
        if dim != rdim:
            run.violate("R1", f"{MODULE}:{name}:dimension", mod, stmt, f"{name} has dimension {dim}, expected {rdim}", got=str(dim), expected=str(rdim))
        run.ob("R2", name)
        if not (abs(val - ref) <= tol * abs(ref)):
            run.violate("R2", f"{MODULE}:{name}:value", mod, stmt,
                        f"{name} folds to {val:.12g} SI, reference {ref:.12g} (relative error {abs(val - ref) / abs(ref):.3g} > {tol:g})",
                        got=val, reference=ref, tolerance=tol)
        run.sample({"constant": name, "si_value": val, "dimension": str(dim), "reference": ref, "rel_tol": tol, "source": norm(stmt.value, 90)})
    missing = sorted(set(REFERENCE) - set(consts))
    for name in missing:
        run.ob("R4", f"present:{name}")
        run.violate("R4", f"{MODULE}:{name}:missing", mod, mod.tree, f"constant {name} is no longer defined in the constants catalogue")

    def g(n):
        if n not in consts:
            raise AnalysisError(f"C20: constant {n} needed by an identity is missing")
        return consts[n][0]

    if not missing:
        ids = [
            ("R=kB*NA", g("molar_gas_constant"), g("boltzmann_constant") * g("avogadro_constant"), 1e-9),
            ("F=e*NA", g("faraday_constant"), g("elementary_charge") * g("avogadro_constant"), 1e-9),
            ("hbar=h/2pi", g("hbar"), g("planck") / (2 * math.pi), 1e-9),
            ("eps0*mu0*c^2=1", g("vacuum_permittivity") * g("vacuum_permeability") * g("speed_of_light")**2, 1.0, 1e-9),
            ("Z0=mu0*c", g("vacuum_impedance"), g("vacuum_permeability") * g("speed_of_light"), 1e-8),
            ("sigma=2pi^5kB^4/(15h^3c^2)", g("stefan_boltzmann_constant"),
             2 * math.pi**5 * g("boltzmann_constant")**4 / (15 * g("planck")**3 * g("speed_of_light")**2), 1e-8),
            ("b=hc/(4.965114kB)", g("wien_displacement_constant"), g("planck") * g("speed_of_light") / (4.965114 * g("boltzmann_constant")), 1e-6),
        ]
        for label, lhs, rhs, tol in ids:
            run.ob("R3", label)
            if not (abs(lhs - rhs) <= tol * abs(rhs)):
                run.violate("R3", f"{MODULE}:identity:{label}", mod, mod.tree, f"identity {label} fails on the folded values: {lhs:.12g} vs {rhs:.12g}",
                            lhs=lhs, rhs=rhs, tolerance=tol)
    # R4
    allv = env.names.get("__all__")
    if allv is None or allv.kind != "seq" or any(x.kind != "str" for x in allv.extra):
        raise AnalysisError("C20: quantities.__all__ is not a list of string literals")
    exported = {x.extra for x in allv.extra}
    public = set(consts)
    run.ob("R4", "__all__")
    if exported - public:
        run.violate("R4", f"{MODULE}:__all__", mod, env.bind_sites["__all__"][-1],
                    f"__all__ exports names that are not constants defined in the module: {sorted(exported - public)}")
    run.notes["public_but_not_in___all__"] = sorted(public - exported)  # informational: the property speaks of exported constants only
    run.notes["constants"] = len(consts)
    # R6: `import pkg.sub` binds the module object to the attribute `sub` of the package, over whatever the package's own code bound to that name
    subs = sorted(m.name for m in run.src.mods.values() if m.name.startswith(MODULE + "."))
    run.ob("R6", f"submodules of {MODULE}: {len(subs)}")
    def shadowed(sub_: str) -> bool:
        return sub_[len(MODULE) + 1:].split(".")[0] in env.names

    # positive fixture (the expected count on the tree is zero): a submodule named like the first constant must match
    if not consts or not shadowed(f"{MODULE}.{sorted(consts)[0]}") or shadowed(f"{MODULE}._no_such_constant_"):
        raise AnalysisError("C20/R6: the shadowing test no longer recognises its own fixture")
    for sub in subs:
        first = sub[len(MODULE) + 1:].split(".")[0]
        run.ob("R6", sub)
        if shadowed(sub):
            sm = run.src.mods[sub]
            run.violate("R6", f"{MODULE}:{first}:shadowed-by-submodule", sm, sm.tree,
                        f"the module {sub} has the name of `{MODULE}.{first}`: the first import of it rebinds that exported name to the module object, "
                        f"and the constant's dimension and value are gone for every later reader")
    # R5: who may write the value / dimension tables of the unit system
    SETTERS = {"set_quantity_scale_factor", "set_quantity_dimension", "set_global_relative_scale_factor", "set_global_dimension"}
    TABLES = {"_quantity_scale_factors", "_quantity_dimension_map", "_quantity_scale_factors_global", "_quantity_dimensional_equivalence_map_global"}
    nset = 0
    for m in run.src.mods.values():
        if not m.name.startswith(PKG):
            continue
        owner = None
        if m.name == PKG + ".core.symbols.quantities":
            cls = next((c for c in m.tree.body if isinstance(c, ast.ClassDef) and c.name == "Quantity"), None)
            owner = next((f for f in (cls.body if cls else []) if isinstance(f, ast.FunctionDef) and f.name == "__init__"), None)
        inside = {id(x) for x in ast.walk(owner)} if owner is not None else set()
        for x in ast.walk(m.tree):
            hit = None
            if isinstance(x, ast.Call) and isinstance(x.func, ast.Attribute) and x.func.attr in SETTERS:
                hit = (x.func.attr, x.args[0] if x.args else None)
            elif isinstance(x, ast.Attribute) and x.attr in TABLES:
                hit = (x.attr, None)
            if hit is None:
                continue
            nset += 1
            run.ob("R5", f"{m.name}:{hit[0]}")
            ok = id(x) in inside and hit[1] is not None and dotted(hit[1]) == owner.args.args[0].arg
            if not ok:
                run.violate("R5", f"{m.name}:{hit[0]}:{norm(x, 60)}", m, x,
                            f"`{norm(x, 70)}` writes the unit system's per-quantity table outside Quantity.__init__(self): an existing quantity - a catalogue constant "
                            f"included - can get a new value or dimension after import, so its value no longer is the reference value")
    run.floor("R5", nset, 2, "writers of the unit system's quantity tables")
    # ... and Quantity.__init__ runs once per object, as part of construction: an explicit re-initialisation of an object built elsewhere rewrites the tables
    for m in run.src.mods.values():
        if not m.name.startswith(PKG):
            continue
        for x in ast.walk(m.tree):
            if isinstance(x, ast.Call) and dotted(x.func) in ("Quantity.__init__", "SymQuantity.__init__"):
                run.ob("R5", f"{m.name}:explicit-__init__")
                run.violate("R5", f"{m.name}:explicit-init:{norm(x, 50)}", m, x,
                            f"`{norm(x, 60)}` re-runs the quantity initialiser on an object it did not create: if that object carries the name of an existing quantity "
                            f"(a restored / copied constant) the constant's entry in the unit system is overwritten")
    from .c03 import _i3_idgen
    _i3_idgen(run)
    if unknown:
        # decided last, so that every finding of the rules above is reported first (a finding outlives a refusal)
        raise AnalysisError("C20: the catalogue defines constant(s) for which this check has no reference value: "
                            + ", ".join(f"{nm} ({mod.rel}:{st.lineno})" for nm, st in unknown) + " - their values are not decided, no verdict on the property")
