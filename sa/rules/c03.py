"""C03 - same load and meaning for every import order and creation history: static necessary conditions (E2 + E1)."""
from __future__ import annotations

import ast

from typing import Optional

from ..core import Run, AnalysisError, dotted, norm, PKG, VERIF, Source, Mod
from ..dim import World, SYMBOLIC_WRAPPERS, Interp
from ..imports import ImportSim, name_edges, sccs, module_events

EXPLANATION = (
    "Static conditions under which importing a catalogue module cannot depend on what was imported or created before. "
    "I1 import-order independence of name resolution: the graph of *name* dependencies between modules is acyclic (Tarjan SCC) and "
    "an exact simulation of CPython's import algorithm over the static top-level import statements, started from every module "
    "of the package as the first import of a fresh interpreter (the worst case: anything already loaded only adds bound names), "
    "finds every `from X import n` bound at that moment; I2 every attribute read at module level on an imported catalogue module "
    "names a top-level binding of that module; I3 catalogue modules have no module-level effect on foreign objects or global "
    "SymPy state (stores to attributes/subscripts of imported objects, calls of the frozen mutator list, unscoped evaluation "
    "toggles) and the per-prefix name counters are written only by next_id, by +1; I4 no two symbolic wrappers of one class with "
    "equal display strings wrap different symbols (the wrapper class keys SymPy's symbol cache by display string); I5 every "
    "function symbol declared with n arguments is applied to n arguments at module level (a mismatch raises at import); I6 no "
    ".subs({...}) chains two replacements of equal SymPy rank (plain symbols), where one entry's value re-introduces the other's key - "
    "SymPy orders such entries by the symbols' generated names, so the result depends on the SYM<n> counter state. "
    "NOT decided: that derivation asserts and solve(...)[k]/simplify pick the same branch under every state of the SYM<n> counters.")
ASSUMPTIONS = [
    "imports executed inside functions are not import-time dependencies",
    "foreign packages (sympy, pytest) import successfully",
    "behaviour that depends on SymPy's name-driven canonical ordering is out of reach of this analysis (listed in evidence)",
]
TRUSTED = ["CPython import semantics as modelled in sa/imports.py", "python ast"]

MUTATORS = {
    "disable_sympy_evaluation", "enable_sympy_evaluation", "reset_sympy_evaluation", "clear_cache", "init_printing", "setrecursionlimit",
    "set_quantity_dimension", "set_quantity_scale_factor", "set_global_dimension", "set_global_relative_scale_factor", "setattr", "delattr",
}
IDGEN = "symplyphysics.core.symbols.id_generator"


def module_effects(mod: Mod) -> list[tuple[ast.AST, str, str]]:
    """Module-level (import-time) effects on objects the module does not own: [(node, construct, message)]."""
    out = []
    imported = set()
    for ev in module_events(mod):
        if ev.kind == "import":
            imported.add(ev.asname or ev.target.split(".")[0])
        elif ev.kind == "from":
            imported.update(a for _, a in ev.names)

    def root(t: ast.AST):
        while isinstance(t, (ast.Attribute, ast.Subscript)):
            t = t.value
        return t.id if isinstance(t, ast.Name) else None

    def visit(body: list) -> None:
        for s in body:
            if isinstance(s, (ast.FunctionDef, ast.AsyncFunctionDef, ast.ClassDef)):
                continue
            targets = []
            if isinstance(s, ast.Assign):
                targets = s.targets
            elif isinstance(s, (ast.AugAssign, ast.AnnAssign)):
                targets = [s.target]
            elif isinstance(s, ast.Delete):
                targets = s.targets
            for t in targets:
                for x in ([t] if not isinstance(t, (ast.Tuple, ast.List)) else t.elts):
                    if isinstance(x, (ast.Attribute, ast.Subscript)) and root(x) in imported:
                        out.append((s, f"store:{norm(x, 80)}", f"module-level store to `{norm(x, 60)}` mutates an object imported from elsewhere"))
            if isinstance(s, (ast.With, ast.AsyncWith)):
                visit(s.body)
            elif isinstance(s, (ast.If, ast.For, ast.While)):
                visit(s.body)
                visit(s.orelse)
            elif isinstance(s, ast.Try):
                visit(s.body)
                visit(s.orelse)
                visit(s.finalbody)
                for h in s.handlers:
                    visit(h.body)
            # calls at this statement level (not descending into nested statements again)
            exprs = []
            if isinstance(s, (ast.Assign, ast.AnnAssign, ast.AugAssign)) and s.value is not None:
                exprs = [s.value]
            elif isinstance(s, (ast.Expr, )):
                exprs = [s.value]
            elif isinstance(s, ast.Assert):
                exprs = [s.test]
            elif isinstance(s, (ast.With, ast.AsyncWith)):
                exprs = [it.context_expr for it in s.items]
            for e in exprs:
                for c in ast.walk(e):
                    if isinstance(c, ast.Call):
                        d = dotted(c.func) or ""
                        last = d.split(".")[-1]
                        if last in MUTATORS:
                            out.append((c, f"call:{d}", f"module-level call of `{d}` changes process-wide state"))

    visit(mod.tree.body)
    return out


def _is_solve_dict(v: ast.AST) -> bool:
    """solve(..., dict=True)[k] or solve(..., dict=True) or linsolve/nonlinsolve results"""
    if isinstance(v, ast.Subscript):
        v = v.value
    return isinstance(v, ast.Call) and (dotted(v.func) or "").split(".")[-1] in ("solve", "dsolve") \
        and any(k.arg == "dict" and isinstance(k.value, ast.Constant) and k.value.value is True for k in v.keywords)


def _i3_idgen(run: Run) -> None:
    m = run.src.need(IDGEN)
    fn = next((s for s in m.tree.body if isinstance(s, ast.FunctionDef) and s.name == "next_id"), None)
    run.require(fn is not None, "next_id not found")
    # every store / mutation of _ids in the package
    for mod in run.src.mods.values():
        for n in ast.walk(mod.tree):
            hit = None
            if isinstance(n, (ast.Assign, ast.AugAssign, ast.AnnAssign, ast.Delete)):
                tg = n.targets if isinstance(n, (ast.Assign, ast.Delete)) else [n.target]
                for t in tg:
                    r = t
                    while isinstance(r, ast.Subscript):
                        r = r.value
                    if (isinstance(r, ast.Name) and r.id == "_ids" and mod.name == IDGEN) or (isinstance(r, ast.Attribute) and r.attr == "_ids"):
                        hit = t
            elif isinstance(n, ast.Call) and isinstance(n.func, ast.Attribute) and n.func.attr in ("clear", "pop", "update", "setdefault", "popitem", "__setitem__", "__delitem__"):
                r = n.func.value
                if (isinstance(r, ast.Name) and r.id == "_ids" and mod.name == IDGEN) or (isinstance(r, ast.Attribute) and r.attr == "_ids"):
                    hit = n
            if hit is None:
                continue
            run.ob("I3", f"_ids-writer@{mod.name}:{getattr(n, 'lineno', 0)}")
            inside = mod.name == IDGEN and any(x is n for x in ast.walk(fn))
            top_init = mod.name == IDGEN and n in m.tree.body and isinstance(n, (ast.Assign, ast.AnnAssign)) and isinstance(getattr(n, "value", None), ast.Dict) \
                and not n.value.keys
            if not inside and not top_init:
                run.violate("I3", f"{mod.name}:_ids-writer:{norm(n, 70)}", mod, n,
                            f"`{norm(n, 70)}` writes the per-prefix name counters outside next_id: generated names may repeat")
    # monotone +1 inside next_id
    from ..flow import CFG
    cfg = CFG(fn)
    stores = [n for n in cfg.stmt_nodes() if isinstance(n.ast, ast.Assign) and any(isinstance(t, ast.Subscript) and dotted(t.value) == "_ids" for t in n.ast.targets)]
    # the counter table is one object for the whole process: not per thread, not per context
    run.ob("I3", "counters-process-wide")
    for x in ast.walk(m.tree):
        d = dotted(x) if isinstance(x, (ast.Attribute, ast.Name)) else None
        if d in ("threading.local", "local", "contextvars.ContextVar", "ContextVar", "_thread._local") and not (isinstance(x, ast.Name) and isinstance(x.ctx, ast.Store)):
            bound = d in ("threading.local", "contextvars.ContextVar", "_thread._local") or any(
                isinstance(i, ast.ImportFrom) and i.module in ("threading", "contextvars") and any((a.asname or a.name) == d for a in i.names) for i in ast.walk(m.tree))
            if bound:
                run.violate("I3", f"{IDGEN}:per-thread-counters", m, x,
                            f"the id generator keeps its counters in `{d}` storage: every thread (context) starts again at 1, so names such as QTY1 are generated twice "
                            f"and objects that compare by name (symbols, quantities and their entries in the unit system) collide")
                return
    run.require(len(stores) >= 1, "next_id no longer stores into _ids")
    for st in stores:
        run.ob("I3", "next_id:+1")
        sl = cfg.slice(st, [st.ast.value])
        plus_one = False
        for e in sl.exprs:
            for x in ast.walk(e):
                if isinstance(x, ast.BinOp) and isinstance(x.op, ast.Add) and ((isinstance(x.right, ast.Constant) and x.right.value == 1) or (isinstance(x.left, ast.Constant) and x.left.value == 1)):
                    plus_one = True
                elif isinstance(x, ast.BinOp):
                    plus_one = False
                    break
        reads_old = any(c in ("_ids.get", ) for c in sl.calls) or any(isinstance(x, ast.Subscript) and dotted(x.value) == "_ids" for e in sl.exprs for x in ast.walk(e))
        consts = {c for c in sl.consts if isinstance(c, int) and not isinstance(c, bool)}
        if not (plus_one and reads_old and consts <= {1, 0}):
            run.violate("I3", f"{IDGEN}:next_id:increment", m, st.ast, "next_id does not store (old value + 1): counters are not strictly increasing by one")
        key = st.ast.targets[0].slice
        if not (isinstance(key, ast.Name) and key.id in [a.arg for a in fn.args.args]):
            run.violate("I3", f"{IDGEN}:next_id:key", m, st.ast, "next_id does not store under its own prefix argument")
    rets = cfg.returns()
    for r in rets:
        run.ob("I3", "next_id:returns-stored")
        if not (isinstance(r.ast.value, ast.Name) and any(isinstance(s.ast.value, ast.Name) and s.ast.value.id == r.ast.value.id for s in stores)
                and all(cfg.dominated_by(r, lambda y, s=s: y is s) for s in stores[:1])):
            run.violate("I3", f"{IDGEN}:next_id:return", m, r.ast, "next_id does not return the value it stored")


def wrapper_render_identity(run: Run, rid: str) -> None:
    """everything a printer reads off a symbolic wrapper is part of its identity (used by C18): two wrappers that compare equal are interchangeable for SymPy's
    cache of constructed expressions (Mul, Pow, Add ... are memoised on their arguments), so a flag outside the hashable content is taken from the twin built first"""
    src = run.src
    sm = src.mods.get(PKG + ".core.operations.symbolic")
    if sm is None:
        raise AnalysisError("core/operations/symbolic.py not found")
    scls = next((c for c in sm.tree.body if isinstance(c, ast.ClassDef) and c.name == "Symbolic"), None)
    if scls is None:
        raise AnalysisError("class Symbolic not found")
    hc = next((f_ for f_ in scls.body if isinstance(f_, ast.FunctionDef) and f_.name == "_hashable_content"), None)
    sub_names = {c.name for c in sm.tree.body if isinstance(c, ast.ClassDef)}
    set_attrs = {t.attr for f_ in scls.body if isinstance(f_, ast.FunctionDef) and f_.name in ("__new__", "__init__") for st in ast.walk(f_) if isinstance(st, ast.Assign)
                 for t in st.targets if isinstance(t, ast.Attribute) and isinstance(t.value, ast.Name) and t.value.id in ("self", "obj")}
    printer_reads = set()
    for pn in (PKG + ".docs.printer_latex", PKG + ".docs.printer_code"):
        pmod = src.mods.get(pn)
        if pmod is None:
            continue
        for f_ in [x for x in ast.walk(pmod.tree) if isinstance(x, ast.FunctionDef) and x.name.startswith("_print_") and x.name[len("_print_"):] in sub_names]:
            params = [a.arg for a in f_.args.args[1:2]]
            for x in ast.walk(f_):
                if isinstance(x, ast.Attribute) and isinstance(x.value, ast.Name) and x.value.id in params and x.attr in set_attrs:
                    printer_reads.add(x.attr)
    in_identity = set()
    if hc is not None:
        for x in ast.walk(hc):
            if isinstance(x, ast.Attribute) and isinstance(x.value, ast.Name) and x.value.id == "self":
                in_identity.add(x.attr)
            if isinstance(x, ast.Call) and dotted(x.func) == "getattr" and len(x.args) >= 2 and isinstance(x.args[1], ast.Constant):
                in_identity.add(x.args[1].value)
    for a_ in sorted(printer_reads):
        run.ob(rid, f"Symbolic:identity-includes:{a_}")
        if a_ not in in_identity:
            run.violate(rid, f"symbolic-wrapper:identity:{a_}", sm, hc or scls,
                        f"the printers read `{a_}` of a symbolic wrapper but it is not part of Symbolic._hashable_content: a wrapper built with `{a_}=True` compares equal to "
                        f"its twin without it, and SymPy's cache of constructed expressions returns the product/power built first - `c*FiniteDifference(a + b, wrap_latex=True)` "
                        f"renders with or without brackets depending on what was constructed before")
    if not printer_reads:
        raise AnalysisError("the printers read no attribute of the symbolic wrappers: anchor lost")


def check(run: Run) -> None:
    run.rule("I1", "import-order independence: name-dependency graph acyclic; simulated first-import of every module finds every imported name bound")
    run.rule("I2", "module-level attribute reads on imported catalogue/core modules resolve to a top-level binding")
    run.rule("I3", "no module-level effect on foreign objects / global state in catalogue modules; name counters written only by next_id (+1)")
    run.rule("I4", "no two symbolic wrappers of one class with equal display strings wrap different symbols")
    run.rule("I5", "function symbols declared with n arguments are applied to n arguments at module level")
    src = run.src
    ours = [n for n in src.mods if n.split(".")[0] == PKG]
    cat = {m.name for m in src.catalogue(include_packages=True)}
    run.require(len(cat) >= 600, f"only {len(cat)} catalogue modules")

    # ---- I1
    edges = name_edges(src)
    comps = sccs(ours, edges)
    run.ob("I1", "name-dependency-graph", n=len(ours))
    for comp in comps:
        involved = [c for c in comp if c in cat]
        run.violate("I1", f"name-cycle:{'|'.join(comp[:6])}", src.mods[comp[0]], src.mods[comp[0]].tree,
                    f"modules {comp[:6]}{'...' if len(comp) > 6 else ''} read names from each other at import time: which import succeeds depends on the order"
                    + (f" (catalogue modules involved: {involved[:4]})" if involved else ""))
    sim = ImportSim(src)
    entries = ours
    other_problems = {}
    nsim = 0
    for e in entries:
        probs = sim.run(e)
        nsim += 1
        for p in probs:
            touches_catalogue = e in cat or any(x in cat for x in p.chain)
            if touches_catalogue:
                run.violate("I1", f"import:{p.key}", src.mods[p.importer], p.node,
                            f"as first import `{e}`: {p.what}  (import chain: {' -> '.join(p.chain[-4:])})", entry=e, chain=list(p.chain))
            else:
                other_problems.setdefault(p.key, {"entry": e, "what": p.what, "chain": list(p.chain)})
    run.ob("I1", "first-import-simulations", n=nsim)
    run.notes["import_simulations"] = nsim
    run.notes["import_problems_outside_catalogue"] = list(other_problems.values())
    run.sample({"rule": "I1", "entries_simulated": nsim, "name_edges": sum(len(v) for v in edges.values()), "nontrivial_name_sccs": len(comps)})

    # ---- I2 / I5 through the module evaluator
    w = World(src)
    napps = nattr = 0
    for name in sorted(cat):
        m = src.mods[name]
        env = w.env(name)
        for node, modname, attr, stmt in env.noattr:
            run.violate("I2", f"{name}:{modname}.{attr}", m, node,
                        f"`{modname}` has no top-level binding `{attr}` (read at import time of {name}): AttributeError/ImportError on every import")
        for a in env.apps:
            decl = a.func.extra if isinstance(a.func.extra, dict) else {}
            n = decl.get("nargs")
            if n is None and decl.get("variadic"):
                continue  # declared without an argument list: any arity is accepted by SymPy
            if n is None:
                run.skip("I5", f"{m.rel}:{a.node.lineno} {a.name}", "declared arity not a list literal")
                continue
            napps += 1
            run.ob("I5", f"{name}:{a.name}@{norm(a.node, 50)}")
            if n != a.nargs_used:
                run.violate("I5", f"{name}:{a.name}:{norm(a.node, 80)}", m, a.node,
                            f"function symbol `{a.name}` is declared with {n} argument(s) but applied to {a.nargs_used}: SymPy raises TypeError while the "
                            f"module body runs, so the module cannot be imported", declared=n, used=a.nargs_used)
        # count attribute reads that did resolve
        for x in ast.walk(m.tree):
            if isinstance(x, ast.Attribute) and isinstance(x.value, ast.Name):
                v = env.names.get(x.value.id)
                if v is not None and v.kind == "module" and str(v.extra).startswith(PKG):
                    nattr += 1
    run.ob("I2", "resolved-attribute-reads", n=nattr)
    run.floor("I5", napps, 200, "function-symbol applications")
    run.floor("I2", nattr, 1000, "module attribute reads")
    run.sample({"rule": "I5", "applications_checked": napps})

    # ---- I6 chained substitutions whose order is decided by generated names
    run.rule("I6", "no .subs({...}) applies, sequentially and in name order, two replacements of equal rank of which one rewrites the other's result")
    nsubs = 0
    for name in sorted(cat):
        m = src.mods[name]
        env = w.env(name)
        it = Interp(w, env)

        def idents(e: ast.AST) -> set:
            out = set()
            for x in ast.walk(e):
                if isinstance(x, (ast.Name, ast.Attribute)):
                    v = it.ev(x)
                    if v.ident:
                        out.add(v.ident)
            return out

        defs: dict = {}
        for st in m.tree.body:
            if isinstance(st, ast.Assign) and len(st.targets) == 1 and isinstance(st.targets[0], ast.Name):
                defs.setdefault(st.targets[0].id, []).append(st.value)

        PURE_CALLS = {"sin", "cos", "tan", "exp", "log", "sqrt", "Eq", "Abs", "abs", "Derivative", "Integral", "Mul", "Add", "Pow", "sinh", "cosh", "tanh", "atan", "atan2",
                      "asin", "acos", "Rational", "S", "sympify"}

        def expanded(e: ast.AST, depth: int = 4, seen=None) -> list:
            """sub-expressions that are certainly part of the value of `e`: the expression itself and, through names bound once at module level,
            their defining expressions - but only across constructions (arithmetic, elementary functions, applications of function symbols).
            Anything that can REMOVE symbols again (subs, solve, simplify, .rhs of something solved, ...) ends the expansion: what it returns
            need not contain what its source text mentions."""
            seen = seen if seen is not None else set()
            out = []

            def visit(x, d):
                if isinstance(x, (ast.BinOp, )):
                    visit(x.left, d)
                    visit(x.right, d)
                elif isinstance(x, ast.UnaryOp):
                    visit(x.operand, d)
                elif isinstance(x, ast.Attribute):
                    out.append(x)
                elif isinstance(x, ast.Name):
                    out.append(x)
                    if d > 0 and x.id in defs and x.id not in seen and len(defs[x.id]) == 1:
                        seen.add(x.id)
                        visit(defs[x.id][0], d - 1)
                elif isinstance(x, ast.Call):
                    fv = it.ev(x.func) if isinstance(x.func, (ast.Name, ast.Attribute)) else None
                    nm = (dotted(x.func) or "").split(".")[-1]
                    if (fv is not None and fv.kind == "func") or (isinstance(x.func, ast.Name) and nm in PURE_CALLS):
                        out.append(x)
                        for a in x.args:
                            visit(a, d)
                    elif isinstance(x.func, ast.Attribute) and x.func.attr == "subs" and x.args and not x.keywords:
                        # base.subs(k, v) / base.subs({k: v, ...}): what the base certainly contains stays unless it is a key (then the value's content
                        # takes its place) or an argument of a replaced application
                        if isinstance(x.args[0], ast.Dict) and len(x.args) == 1 and all(k is not None for k in x.args[0].keys):
                            pairs = list(zip(x.args[0].keys, x.args[0].values))
                        elif len(x.args) == 2:
                            pairs = [(x.args[0], x.args[1])]
                        else:
                            return
                        base_items = expanded(x.func.value, d, seen)
                        gone = set()
                        for k, _ in pairs:
                            if isinstance(k, ast.Call):
                                gone |= {norm(a) for a in k.args}

                        def same_thing(item, key) -> bool:
                            if isinstance(item, ast.Call) or isinstance(key, ast.Call):
                                return isinstance(item, ast.Call) and isinstance(key, ast.Call) and norm(item) == norm(key)
                            a_, b_ = it.ev(item), it.ev(key)
                            return bool(a_.ident) and a_.ident == b_.ident

                        for item in base_items:
                            hit = next((v for k, v in pairs if same_thing(item, k)), None)
                            if hit is not None:
                                visit(hit, d)
                            elif norm(item) not in gone:
                                out.append(item)
                elif isinstance(x, ast.Subscript) and isinstance(x.slice, ast.Constant) and x.slice.value == 0 and isinstance(x.value, ast.Call) \
                        and (dotted(x.value.func) or "").split(".")[-1] == "solve" and len(x.value.args) == 2 and not x.value.keywords:
                    # solve(<law written with every symbol once>, s)[0]: the solution depends on every other symbol of the law (nothing can cancel)
                    for node in _read_once_law_symbols(x.value.args[0], x.value.args[1]):
                        out.append(node)
                elif isinstance(x, (ast.Tuple, ast.List)):
                    for el in x.elts:
                        visit(el, d)

            visit(e, depth)
            return out

        def _read_once_law_symbols(law_node: ast.AST, unknown: ast.AST) -> list:
            """[nodes evaluating to the other symbols] of an equation `Eq(...)` bound to `<module alias>.<name>` in which every symbol is written exactly
            once and no function application occurs; [] when the equation cannot be read that way"""
            if not (isinstance(law_node, ast.Attribute) and isinstance(law_node.value, (ast.Name, ast.Attribute))):
                return []
            mv = it.ev(law_node.value)
            if mv.kind != "module" or mv.extra not in src.mods:
                return []
            other = src.mods[mv.extra]
            eqs = [st.value for st in other.tree.body if isinstance(st, ast.Assign) and len(st.targets) == 1 and isinstance(st.targets[0], ast.Name)
                   and st.targets[0].id == law_node.attr]
            if len(eqs) != 1 or not (isinstance(eqs[0], ast.Call) and dotted(eqs[0].func) == "Eq" and len(eqs[0].args) == 2):
                return []
            oit = Interp(w, w.env(mv.extra))
            seen_ids: dict = {}
            for side in eqs[0].args:
                for y in ast.walk(side):
                    if isinstance(y, ast.Call):
                        return []
                    if isinstance(y, ast.Name):
                        v_ = oit.ev(y)
                        if v_.ident and v_.kind in ("expr", "any"):
                            seen_ids.setdefault(v_.ident, []).append(y.id)
                        elif v_.kind not in ("num", "any", "expr"):
                            return []
                    elif isinstance(y, ast.Attribute):
                        return []
            if any(len(v_) != 1 for v_ in seen_ids.values()):
                return []
            uid = it.ev(unknown).ident
            if not uid or uid not in seen_ids:
                return []
            return [ast.copy_location(ast.Attribute(value=law_node.value, attr=names[0], ctx=ast.Load()), law_node) for ident_, names in seen_ids.items() if ident_ != uid]

        def rank(k: ast.AST):
            """SymPy orders a dict of replacements by (count_ops, number of args, name); keys of equal rank are tie-broken by name"""
            if isinstance(k, (ast.Name, ast.Attribute)):
                v = it.ev(k)
                if v.ident and v.kind in ("expr", "any"):
                    return ("symbol", v.ident)
                if v.kind == "func":
                    return ("function-class", norm(k))
                return None
            if isinstance(k, ast.Call) and not k.keywords:
                v = it.ev(k.func)
                if v.kind == "func" and all(isinstance(a, (ast.Name, ast.Attribute)) for a in k.args):
                    return (f"application/{len(k.args)}", norm(k))
            return None

        for call in ast.walk(m.tree):
            if not (isinstance(call, ast.Call) and isinstance(call.func, ast.Attribute) and call.func.attr == "subs" and len(call.args) >= 1
                    and isinstance(call.args[0], ast.Dict) and len(call.args[0].keys) >= 2):
                continue
            if any(k.arg == "simultaneous" and isinstance(k.value, ast.Constant) and k.value.value is True for k in call.keywords):
                continue
            d = call.args[0]
            nsubs += 1
            ranks = [rank(k) if k is not None else None for k in d.keys]
            reported = False
            for i, ri in enumerate(ranks):
                if ri is None or reported:
                    continue
                if ri[0].startswith("application/"):
                    # two applied function symbols f(t), g(t) with the same number of arguments have equal rank too: the order of the
                    # two entries is the order of the generated class names (FUN<n>)
                    for j, rj in enumerate(ranks):
                        if i == j or rj is None or rj[0] != ri[0]:
                            continue
                        if any(isinstance(x, ast.Call) and norm(x) == ri[1] for x in expanded(d.values[j])):
                            run.violate("I6", f"{name}:subs:{norm(d.keys[i], 50)}<-{norm(d.keys[j], 50)}", m, call,
                                        f"`{norm(d.keys[i], 50)}` is replaced in the same .subs({{...}}) whose entry `{norm(d.keys[j], 50)}: {norm(d.values[j], 40)}` "
                                        f"introduces it again; both keys are applied function symbols of the same arity, so SymPy applies them in the order of the generated "
                                        f"class names (FUN<n>, compared as strings): the result depends on how many functions were created before "
                                        f"(use simultaneous=True or separate .subs calls)")
                            reported = True
                            break
                    continue
                if ri[0] != "symbol":
                    continue
                vi = it.ev(d.values[i])
                if isinstance(d.values[i], (ast.Name, ast.Attribute)) and vi.ident == ri[1]:
                    continue  # identity entry S: S
                for j, rj in enumerate(ranks):
                    if i == j or rj is None or rj[0] != ri[0]:
                        continue
                    if any(ri[1] in idents(e_) for e_ in expanded(d.values[j]) if isinstance(e_, (ast.Name, ast.Attribute))):
                        run.violate("I6", f"{name}:subs:{norm(d.keys[i], 50)}<-{norm(d.keys[j], 50)}", m, call,
                                    f"`{norm(d.keys[i], 50)}` is replaced in the same .subs({{...}}) whose entry `{norm(d.keys[j], 50)}: {norm(d.values[j], 40)}` "
                                    f"introduces it again; both keys are plain symbols, so SymPy applies them in the order of their generated names (SYM<n>, compared "
                                    f"as strings): the result, and whether this module imports at all, depends on how many symbols were created before "
                                    f"(use simultaneous=True or separate .subs calls)")
                        reported = True
                        break
    # I6 (b): a free-form expression handed in by the caller - a parameter that no validate_input guard ties to a quantity - replaces a symbol in the same
    # dict as other plain symbols: it is meant to be a function OF those symbols, so the chain above arises for the very inputs the parameter exists for
    from ..calc import functions as _functions
    nfree = 0
    for name in sorted(cat):
        m = src.mods[name]
        env = w.env(name)
        it = Interp(w, env)
        for g in _functions(w, m):
            guards = g.guards()
            free_params = [p_ for p_ in g.params if p_ not in guards]
            if not free_params or not guards:
                continue
            for call in ast.walk(g.fn):
                if not (isinstance(call, ast.Call) and isinstance(call.func, ast.Attribute) and call.func.attr == "subs" and len(call.args) >= 1
                        and isinstance(call.args[0], ast.Dict) and len(call.args[0].keys) >= 2):
                    continue
                if any(k.arg == "simultaneous" and isinstance(k.value, ast.Constant) and k.value.value is True for k in call.keywords):
                    continue
                d = call.args[0]
                for kx, vx in zip(d.keys, d.values):
                    if not (isinstance(vx, ast.Name) and vx.id in free_params and kx is not None):
                        continue
                    ann = next((a.annotation for a in g.fn.args.args if a.arg == vx.id), None)
                    if ann is None or (dotted(ann) or "").split(".")[-1] not in ("Expr", "Basic", "Any"):
                        continue  # numbers (float/int) carry no symbols
                    kv = it.ev(kx)
                    others = [k2 for k2 in d.keys if k2 is not kx and k2 is not None and it.ev(k2).ident and it.ev(k2).kind in ("expr", "any")]
                    nfree += 1
                    run.ob("I6", f"{g.qual}:free-form:{vx.id}")
                    if kv.ident and kv.kind in ("expr", "any") and others:
                        run.violate("I6", f"{g.qual}:free-form:{vx.id}", m, call,
                                    f"{g.fn.name} substitutes the caller's expression `{vx.id}` for `{norm(kx, 40)}` in the same .subs({{...}}) as {[norm(k2, 30) for k2 in others]}: "
                                    f"written with the law's own symbols (a function of them - what the parameter is for) it is rewritten or not depending on the order of the "
                                    f"generated symbol names; sibling laws apply the expression in a separate .subs first")
    run.ob("I6", "dict-substitutions", n=nsubs)
    run.floor("I6", nsubs, 300, "dict substitutions")

    # ---- I7 positional use of collections ordered by generated names
    run.rule("I7", "no positional use (unpacking, indexing, list()) of the values/keys of a solve(..., dict=True) solution or of a free_symbols/atoms set: "
             "their order follows the generated symbol names (SYM<n> compared as strings) and flips at digit boundaries of the counter")

    def i7_sites(tree: ast.AST) -> list:
        parents = {}
        for p_ in ast.walk(tree):
            for c_ in ast.iter_child_nodes(p_):
                parents[c_] = p_
        out = []
        for fnode in [x for x in ast.walk(tree) if isinstance(x, (ast.FunctionDef, ast.Module))]:
            solved = set()
            for a_ in ast.walk(fnode):
                if isinstance(a_, ast.Assign) and len(a_.targets) == 1 and isinstance(a_.targets[0], ast.Name) and _is_solve_dict(a_.value):
                    solved.add(a_.targets[0].id)
            for x in ast.walk(fnode):
                if not (isinstance(x, ast.Call) and isinstance(x.func, ast.Attribute) and not x.args):
                    continue
                recv = x.func.value
                unordered = None
                if x.func.attr in ("values", "keys") and ((isinstance(recv, ast.Name) and recv.id in solved) or _is_solve_dict(recv)):
                    unordered = f"solve(...).{x.func.attr}()"
                if unordered is None:
                    continue
                out.append((x, unordered, parents))
            for x in ast.walk(fnode):
                if isinstance(x, ast.Attribute) and x.attr == "free_symbols" or (isinstance(x, ast.Call) and isinstance(x.func, ast.Attribute) and x.func.attr == "atoms"):
                    out.append((x, "a set of symbols", parents))
        return out

    def positional(x: ast.AST, parents: dict) -> Optional[ast.AST]:
        cur = x
        while cur in parents:
            par = parents[cur]
            if isinstance(par, ast.Call) and dotted(par.func) in ("list", "tuple", "sorted") and cur in par.args:
                if dotted(par.func) == "sorted":
                    return None
                cur = par
                continue
            if isinstance(par, ast.comprehension) and par.iter is cur:
                cur = next(p2 for p2 in [parents[par]])
                if isinstance(cur, (ast.SetComp, ast.DictComp)):
                    return None
                continue
            if isinstance(par, ast.Subscript) and par.value is cur and not isinstance(par.slice, ast.Slice):
                return par
            if isinstance(par, ast.Assign) and par.value is cur and any(isinstance(t_, (ast.Tuple, ast.List)) for t_ in par.targets):
                return par
            if isinstance(par, ast.Starred):
                cur = par
                continue
            return None
        return None

    n7 = 0
    for name in sorted(cat):
        m = src.mods[name]
        seen7 = set()
        for x, what, parents in i7_sites(m.tree):
            n7 += 1
            use = positional(x, parents)
            if use is not None and id(use) not in seen7:
                seen7.add(id(use))
                run.violate("I7", f"{name}:positional:{norm(use, 70)}", m, use,
                            f"`{norm(use, 80)}` takes elements of {what} by position: SymPy orders it by the generated symbol names, so which element is which "
                            f"depends on how many symbols were created before this module was imported (SYM998..SYM1001 sort as 1000, 1001, 998, 999)")
    run.ob("I7", "order-derived collections examined", n=max(n7, 1))
    fx7 = VERIF / "sa" / "fixtures" / "c03_order.py"
    try:
        ftree = ast.parse(fx7.read_text())
    except OSError as e:
        raise AnalysisError(f"C03 fixture missing: {e}") from e
    hits = sum(1 for x, what, parents in i7_sites(ftree) if positional(x, parents) is not None)
    if hits < 4:
        raise AnalysisError(f"C03/I7: the scanner recognises only {hits} of the 4 positional uses in its positive fixture")

    # ---- informational: order-sensitive projections (NOT decided, listed for a dynamic technique to aim at)
    proj = []
    for name in sorted(cat):
        m = src.mods[name]
        for x in ast.walk(m.tree):
            if isinstance(x, ast.Subscript) and isinstance(x.slice, ast.Constant) and isinstance(x.slice.value, int):
                v = x.value
                if isinstance(v, ast.Call) and (dotted(v.func) or "").split(".")[-1] in ("solve", "solveset", "roots") and x.slice.value not in (0, ):
                    proj.append(f"{m.rel}:{x.lineno} {norm(x, 70)}")
                elif isinstance(v, ast.Attribute) and v.attr in ("args", "free_symbols") or (isinstance(v, ast.Call) and (dotted(v.func) or "") in ("list", "tuple", "sorted") and v.args
                                                                                       and isinstance(v.args[0], ast.Attribute) and v.args[0].attr in ("free_symbols", "atoms")):
                    proj.append(f"{m.rel}:{x.lineno} {norm(x, 70)}")
    run.notes["order_sensitive_projections_not_decided"] = proj[:60]

    # ---- I3
    neff = 0
    for name in sorted(cat):
        m = src.mods[name]
        neff += 1
        for node, construct, msg in module_effects(m):
            run.violate("I3", f"{name}:{construct}", m, node, msg)
    run.ob("I3", "catalogue-module-effect-scans", n=neff)
    # positive fixture: the scanner must see the effects in the fixture module on every run
    fx = VERIF / "sa" / "fixtures" / "c03_effects.py"
    try:
        fmod = Mod("fixture.c03_effects", "sa/fixtures/c03_effects.py", fx.read_text(), ast.parse(fx.read_text()), False)
    except OSError as e:
        raise AnalysisError(f"C03 fixture missing: {e}") from e
    got = {c.split(":")[0] for _, c, _ in module_effects(fmod)}
    if got != {"store", "call"} or len(module_effects(fmod)) < 4:
        raise AnalysisError("C03/I3: the effect scanner no longer recognises its positive fixture")
    _i3_idgen(run)

    # ---- I4
    # identity of a wrapper: the wrapped argument, not its display string. SymPy's Symbol.__new__ caches by (class, name, assumptions); a wrapper named
    # after str(argument) and built through that cache is ONE object for all arguments that print alike (p: pressure, momentum, dipole moment ...)
    sm = src.mods.get(PKG + ".core.operations.symbolic")
    if sm is None:
        raise AnalysisError("C03: core/operations/symbolic.py not found")
    scls = next((c for c in sm.tree.body if isinstance(c, ast.ClassDef) and c.name == "Symbolic"), None)
    snew = next((f_ for f_ in (scls.body if scls else []) if isinstance(f_, ast.FunctionDef) and f_.name == "__new__"), None)
    if snew is None:
        raise AnalysisError("C03: Symbolic.__new__ not found")
    run.ob("I4", "Symbolic:identity-is-the-argument")
    uncached = any(isinstance(x, ast.Call) and (dotted(x.func) or "").endswith("__xnew__") for x in ast.walk(snew))
    cached = any(isinstance(x, ast.Call) and ((dotted(x.func) or "") in ("super().__new__", "SymSymbol.__new__", "Symbol.__new__")) for x in ast.walk(snew))
    hc = next((f_ for f_ in scls.body if isinstance(f_, ast.FunctionDef) and f_.name == "_hashable_content"), None)
    by_argument = hc is not None and any(isinstance(x, ast.Attribute) and x.attr == "factor" for x in ast.walk(hc))
    if cached or not (uncached and by_argument):
        run.violate("I4", "symbolic-wrapper:identity", sm, snew,
                    "Symbolic.__new__ creates the wrapper through SymPy's name-keyed symbol cache under the name Class(str(argument)) "
                    + ("" if by_argument else "and the argument is not part of its hashable content") +
                    ": wrappers of different arguments that print alike (45 display names of symbols.* are shared by symbols of different dimension) are one object, "
                    "and constructing one overwrites the factor and dimension of the other - the meaning of a law depends on what was constructed before")
    wrappers: dict[tuple, list] = {}
    for name, m in src.mods.items():
        if name.split(".")[0] != PKG:
            continue
        env = None
        for x in ast.walk(m.tree):
            if isinstance(x, ast.Call) and isinstance(x.func, ast.Name) and x.func.id in ("Average", "FiniteDifference", "ExactDifferential", "InexactDifferential", "Symbolic"):
                env = env or w.env(name)
                fv = env.names.get(x.func.id)
                if fv is None or fv.kind != "pyclass" or fv.extra not in SYMBOLIC_WRAPPERS or not x.args:
                    continue
                arg = x.args[0]
                it = Interp(w, env)
                disp = ident = None
                base = arg
                power = ""
                if isinstance(arg, ast.BinOp) and isinstance(arg.op, ast.Pow) and isinstance(arg.right, ast.Constant):
                    base, power = arg.left, f"**{arg.right.value}"
                v = it.ev(base)
                if v.kind in ("expr", "any") and v.display is not None and v.ident is not None:
                    disp, ident = v.display + power, v.ident + power
                if disp is None:
                    run.skip("I4", f"{m.rel}:{x.lineno}", f"display string of `{norm(arg, 50)}` not statically known")
                    continue
                flags = tuple(sorted((k.arg, norm(k.value)) for k in x.keywords if k.arg in ("wrap_code", "wrap_latex")))
                wrappers.setdefault((fv.extra.split(".")[-1], disp), []).append((ident, flags, m, x))
    for (cls, disp), items in sorted(wrappers.items()):
        run.ob("I4", f"{cls}({disp})")
        idents = {i for i, _, _, _ in items}
        if len(idents) > 1 and (cached or not (uncached and by_argument)):
            m, x = items[1][2], items[1][3]
            run.violate("I4", f"wrapper-alias:{cls}({disp})", m, x,
                        f"{cls}({disp}) is constructed over {len(idents)} different symbols displayed `{disp}`: SymPy's symbol cache returns one object for "
                        f"both, and the later construction overwrites the earlier one's factor/dimension (import-order dependent meaning)",
                        sites=[f"{mm.rel}:{xx.lineno}" for _, _, mm, xx in items])
        elif len({f for _, f, _, _ in items}) > 1 and (cached or not (uncached and by_argument)):
            m, x = items[1][2], items[1][3]
            run.violate("I4", f"wrapper-flags:{cls}({disp})", m, x,
                        f"{cls}({disp}) is constructed with different wrap flags in different modules: the cached object keeps the flags of whichever "
                        f"module was imported last", sites=[f"{mm.rel}:{xx.lineno}" for _, _, mm, xx in items])
        run.sample({"rule": "I4", "wrapper": f"{cls}({disp})", "sites": [f"{mm.rel}:{xx.lineno}" for _, _, mm, xx in items]})
    run.floor("I4", len(wrappers), 3, "symbolic wrapper constructions")
